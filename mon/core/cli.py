"""Command line driver: ./check <ID> [--tier] [--seed] [--replay]

Verdicts are three-valued.  Exit 0: held on everything explored and every
deciding monitor was reached.  Exit 1: at least one violation that is not listed
as an open finding in known_findings.json (a `VIOLATION property=<id>
replay=<path>` line is printed for each mechanism).  Exit 2: inconclusive (a
deciding counter is zero, a watchdog fired, the harness could not attach); no
VIOLATION line is printed.
"""
import argparse
import importlib
import json
import os
import sys
import time
import traceback

from . import evidence as ev
from . import findings
from . import shards
from .util import HOME, REPO, log


def _load(pid):
    return importlib.import_module("mon.props.%s" % pid.lower())


def main(argv=None):
    ap = argparse.ArgumentParser()
    ap.add_argument("prop")
    ap.add_argument("--tier", default=os.environ.get("VERIF_TIER", "quick"),
                    choices=["quick", "thorough"])
    ap.add_argument("--seed", type=int,
                    default=int(os.environ.get("VERIF_SEED", "0") or 0))
    ap.add_argument("--replay", default=None)
    ap.add_argument("--jobs", type=int,
                    default=int(os.environ.get("VERIF_JOBS", "0") or 0))
    args = ap.parse_args(argv)

    pid = args.prop.upper()
    t0 = time.time()
    mod = _load(pid)

    # the tree under test must be the one imported
    import mpgameserver
    where = os.path.realpath(os.path.dirname(os.path.dirname(mpgameserver.__file__)))
    if where != os.path.realpath(REPO):
        print("INCONCLUSIVE property=%s harness imported %s, not %s" % (pid, where, REPO))
        return 2

    if args.replay:
        with open(args.replay) as f:
            rep = json.load(f)
        cfg = rep["shard_cfg"]
        cfg["only_case"] = rep.get("case_key")
        res = shards.run_inline(pid, cfg)
        viols = res.get("violations", [])
        for v in viols:
            print("REPLAY-VIOLATION property=%s mechanism=%s %s" % (pid, v["mechanism"], v["msg"]))
        if not viols:
            print("replay: no violation reproduced")
        return 1 if viols else 0

    os.makedirs(os.path.join(HOME, "evidence"), exist_ok=True)
    os.makedirs(os.path.join(HOME, "replays"), exist_ok=True)

    plan = mod.plan(args.tier, args.seed)
    jobs = args.jobs or min(16, os.cpu_count() or 1)
    results, failures = shards.run_all(pid, plan, jobs,
                                       timeout=getattr(mod, "SHARD_TIMEOUT", {}).get(args.tier, 1500))

    inconclusive = list(failures)
    if not results:
        for r in inconclusive[:3]:
            print("INCONCLUSIVE property=%s %s" % (pid, r[:700]))
        return 2
    try:
        summary = mod.finish(args.tier, args.seed, results)
    except Exception:
        traceback.print_exc()
        print("INCONCLUSIVE property=%s finish() failed" % pid)
        return 2
    inconclusive += summary.get("inconclusive", [])

    violations = []
    for r in results:
        violations += r.get("violations", [])
    violations += summary.get("violations", [])

    known = findings.load()
    new, seen_known = findings.split(pid, violations, known)

    wall = time.time() - t0
    cov = summary["coverage"]
    cov.setdefault("known_findings_seen", {k: len(v) for k, v in seen_known.items()})
    cov.setdefault("inconclusive_reasons", inconclusive)
    doc = {
        "property_id": pid,
        "tier": args.tier,
        "seed": args.seed,
        "level": mod.LEVEL,
        "coverage": cov,
        "assumptions": summary.get("assumptions", []),
        "wall_s": round(wall, 3),
        "violations": len(new),
    }
    ok, err = ev.write(pid, doc)
    if not ok and not new:
        print("INCONCLUSIVE property=%s evidence does not validate: %s" % (pid, err))
        return 2
    if not ok:
        # the run observed too little to describe its coverage in the evidence format (e.g. nothing could be decoded), but
        # it did observe violations: those are reported; the verdict does not depend on the evidence file
        print("note: evidence of this run does not validate (%s); reporting the violations it observed" % err, file=sys.stderr)

    for mech, vs in sorted(seen_known.items()):
        print("KNOWN-FINDING: property=%s %s (%d witnesses; e.g. %s)" % (
            pid, known[(pid, mech)]["what"], len(vs), vs[0]["msg"][:200]))

    if new:
        bymech = {}
        for v in new:
            bymech.setdefault(v["mechanism"], []).append(v)
        for mech, vs in sorted(bymech.items()):
            rdir = os.environ.get("VERIF_REPLAY_DIR") or os.path.join(HOME, "replays")
            os.makedirs(rdir, exist_ok=True)
            path = os.path.join(rdir, "%s-%s-seed%d.json" % (pid, _safe(mech), args.seed))
            with open(path, "w") as f:
                json.dump({"property": pid, "mechanism": mech, "count": len(vs),
                           "msg": vs[0]["msg"], "case": vs[0].get("case"),
                           "case_key": vs[0].get("case_key"),
                           "shard_cfg": vs[0].get("shard_cfg"),
                           "others": [x["msg"] for x in vs[1:6]]}, f, indent=1, default=repr)
            print("VIOLATION property=%s replay=%s mechanism=%s count=%d :: %s" % (
                pid, path, mech, len(vs), vs[0]["msg"][:300]))
        return 1

    if inconclusive:
        for r in inconclusive[:4]:
            print("INCONCLUSIVE property=%s %s" % (pid, r[:700]))
        if len(inconclusive) > 4:
            print("INCONCLUSIVE property=%s ... and %d more reasons" % (pid, len(inconclusive) - 4))
        return 2

    print("OK property=%s tier=%s seed=%d evaluations=%s distinct=%s wall=%.1fs" % (
        pid, args.tier, args.seed, cov.get("evaluations"), cov.get("distinct_nontrivial"), wall))
    return 0


def _safe(s):
    return "".join(c if c.isalnum() or c in "-_" else "_" for c in s)[:60]


if __name__ == "__main__":
    sys.exit(main())
