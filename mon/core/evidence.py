import json
import os

from .util import HOME

SCHEMA = "/root/.vp/EVIDENCE.schema.json"
_LOCAL_SCHEMA = os.path.join(HOME, "mon", "core", "EVIDENCE.schema.json")


def _schema():
    for p in (SCHEMA, _LOCAL_SCHEMA):
        if os.path.exists(p):
            with open(p) as f:
                return json.load(f)
    return None


def validate(doc):
    sch = _schema()
    if sch is None:
        return True, "no schema file found; not validated"
    try:
        import jsonschema
    except Exception as e:  # pragma: no cover
        return False, "jsonschema not importable: %r" % (e,)
    try:
        jsonschema.validate(doc, sch)
    except jsonschema.ValidationError as e:
        return False, str(e).splitlines()[0]
    return True, ""


def write(pid, doc):
    ok, err = validate(json.loads(json.dumps(doc, default=repr)))
    edir = os.environ.get("VERIF_EVIDENCE_DIR") or os.path.join(HOME, "evidence")
    os.makedirs(edir, exist_ok=True)
    path = os.path.join(edir, "%s.json" % pid)
    if ok:
        with open(path + ".tmp", "w") as f:
            json.dump(doc, f, indent=1, sort_keys=True, default=repr)
            f.write("\n")
        os.replace(path + ".tmp", path)
    return ok, err
