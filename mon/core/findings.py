"""known_findings.json: genuine defects of the repository, keyed by mechanism.

An entry is {"property", "mechanism", "status": "open"|"fixed", "what", ...}.
`mechanism` is the label a property's classifier derives from the *structure*
of a witness (which call site, which condition) - never a seed, hash or random
value.  Only `open` entries suppress: a violation whose mechanism matches one
is reported as KNOWN-FINDING and the check still exits 0.  `fixed` entries
suppress nothing.  The file is never written at run time.
"""
import json
import os

from .util import HOME

PATH = os.path.join(HOME, "known_findings.json")


def load():
    if not os.path.exists(PATH):
        return {}
    with open(PATH) as f:
        doc = json.load(f)
    out = {}
    for e in doc.get("findings", []):
        if e.get("status") == "open":
            out[(e["property"], e["mechanism"])] = e
    return out


def split(pid, violations, known):
    new, seen = [], {}
    for v in violations:
        k = (pid, v.get("mechanism"))
        if k in known:
            seen.setdefault(v["mechanism"], []).append(v)
        else:
            new.append(v)
    return new, seen
