from .util import Counter


def merge(results, max_samples=12):
    """Combine shard results.

    Each shard result may carry: evaluations (int), distinct (list of 64-bit
    hashes of non-trivial cases - united across shards), distinct_count (int,
    cases that are distinct by construction, e.g. an enumeration), counters
    (dict of ints - summed), samples (list), observations (list of str)."""
    evaluations = 0
    distinct = set()
    distinct_count = 0
    counters = Counter()
    samples = []
    observations = []
    for r in results:
        evaluations += r.get("evaluations", 0)
        distinct.update(r.get("distinct", []))
        distinct_count += r.get("distinct_count", 0)
        counters.merge(r.get("counters", {}))
        for s in r.get("samples", []):
            if len(samples) < max_samples:
                samples.append(s)
        for o in r.get("observations", []):
            if o not in observations and len(observations) < 40:
                observations.append(o)
    return {
        "evaluations": evaluations,
        "distinct_nontrivial": len(distinct) + distinct_count,
        "counters": dict(sorted(counters.items())),
        "samples": samples,
        "observations": observations,
    }


def need(counters, keys, inconclusive):
    """every deciding counter must be positive, else the run is inconclusive"""
    for k in keys:
        if not counters.get(k):
            inconclusive.append("deciding counter %r is zero: the monitor was never reached" % k)
