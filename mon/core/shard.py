"""Entry point of one shard subprocess."""
import faulthandler
import importlib
import json
import os
import sys


def main():
    pid, cpath, opath, timeout = sys.argv[1:5]
    faulthandler.enable()
    # stack dump shortly before the parent's watchdog would kill us
    faulthandler.dump_traceback_later(max(5, int(timeout) - 3), exit=False)
    with open(cpath) as f:
        cfg = json.load(f)
    mod = importlib.import_module("mon.props.%s" % pid.lower())
    res = mod.run_shard(cfg)
    tmp = opath + ".tmp"
    with open(tmp, "w") as f:
        json.dump(res, f, default=repr)
    os.replace(tmp, opath)


if __name__ == "__main__":
    main()
