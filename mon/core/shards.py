"""Shard runner: every shard is its own `subprocess` (never multiprocessing.Pool,
which hangs when a child dies).  Partial results are JSON files under .work."""
import importlib
import json
import os
import shutil
import subprocess
import sys
import time

from .util import HOME, WORK, log


def run_inline(pid, cfg):
    mod = importlib.import_module("mon.props.%s" % pid.lower())
    res = mod.run_shard(cfg)
    for v in res.get("violations", []):
        v.setdefault("shard_cfg", cfg)
    return res


def run_all(pid, plan, jobs, timeout):
    """returns (results, failures).  failures are inconclusive reasons."""
    work = os.path.join(WORK, "%s-%d" % (pid, os.getpid()))
    shutil.rmtree(work, ignore_errors=True)
    os.makedirs(work, exist_ok=True)
    results, failures = [], []
    if len(plan) == 1 and not plan[0].get("subprocess"):
        # a single small shard runs in-process (still under the cli's own process)
        try:
            results.append(run_inline(pid, plan[0]))
        except Exception as e:
            import traceback
            traceback.print_exc()
            failures.append("shard 0 crashed: %r" % (e,))
        shutil.rmtree(work, ignore_errors=True)
        return results, failures

    pending = list(enumerate(plan))
    running = []
    env = dict(os.environ)
    while pending or running:
        while pending and len(running) < jobs:
            i, cfg = pending.pop(0)
            cpath = os.path.join(work, "cfg%d.json" % i)
            opath = os.path.join(work, "out%d.json" % i)
            epath = os.path.join(work, "err%d.txt" % i)
            with open(cpath, "w") as f:
                json.dump(cfg, f)
            ef = open(epath, "w")
            p = subprocess.Popen([sys.executable, "-B", "-m", "mon.core.shard", pid, cpath, opath,
                                  str(int(timeout))],
                                 stdout=ef, stderr=subprocess.STDOUT, env=env, cwd=HOME)
            running.append((i, p, time.time(), opath, epath, ef))
        still = []
        for (i, p, t0, opath, epath, ef) in running:
            rc = p.poll()
            if rc is None:
                if time.time() - t0 > timeout:
                    p.kill()
                    p.wait()
                    ef.close()
                    failures.append("shard %d: wall-clock watchdog (%ds) fired; tail: %s" % (
                        i, timeout, _tail(epath)))
                else:
                    still.append((i, p, t0, opath, epath, ef))
                continue
            ef.close()
            if os.path.exists(opath):
                try:
                    with open(opath) as f:
                        r = json.load(f)
                    for v in r.get("violations", []):
                        v.setdefault("shard_cfg", plan[i])
                    results.append(r)
                    continue
                except Exception as e:
                    failures.append("shard %d: unreadable result %r" % (i, e))
                    continue
            failures.append("shard %d: exit %s without result; tail: %s" % (i, rc, _tail(epath)))
        running = still
        if running:
            time.sleep(0.02)
    shutil.rmtree(work, ignore_errors=True)
    return results, failures


def _tail(path, n=600):
    try:
        with open(path, errors="replace") as f:
            s = f.read()
        return s[-n:].replace("\n", " | ")
    except Exception:
        return ""
