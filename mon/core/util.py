import hashlib
import os
import random
import struct
import sys

HOME = os.environ.get("VERIF_HOME") or os.path.dirname(os.path.dirname(os.path.dirname(os.path.abspath(__file__))))
REPO = os.environ.get("VERIF_REPO", "/repo")
WORK = os.path.join(HOME, ".work")


def log(*a):
    print(*a, file=sys.stderr, flush=True)


def rng(*parts):
    """Deterministic Random from (seed, shard, case, ...)."""
    h = hashlib.sha256(repr(parts).encode()).digest()
    return random.Random(int.from_bytes(h[:8], "big"))


def h64(*parts):
    h = hashlib.blake2b(repr(parts).encode(), digest_size=8).digest()
    return struct.unpack(">Q", h)[0]


def hb64(b):
    return struct.unpack(">Q", hashlib.blake2b(b, digest_size=8).digest())[0]


class Counter(dict):
    def inc(self, k, n=1):
        self[k] = self.get(k, 0) + n

    def merge(self, other):
        for k, v in other.items():
            if isinstance(v, (int, float)):
                self[k] = self.get(k, 0) + v
        return self


def short(b, n=24):
    """printable abbreviation of a bytes value for evidence samples"""
    if isinstance(b, (bytes, bytearray)):
        if len(b) <= n:
            return b.hex()
        return "%s..(%d bytes)" % (bytes(b[:n]).hex(), len(b))
    try:
        s = repr(b)
    except Exception as e:
        s = "<%s: repr raised %r>" % (type(b).__name__, e)
    return s if len(s) <= 4 * n else s[:4 * n] + "..."
