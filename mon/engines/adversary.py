"""The adversary: knows everything on the wire and both public keys, never a private
or session key.  Builds datagrams with its own encoder of the documented format."""
import binascii
import struct

TO_SERVER = b"FSOS"
TO_CLIENT = b"FSOC"


def crc(b):
    return struct.pack(">L", binascii.crc32(b) & 0xFFFFFFFF)


def header(direction, ctime, seq, ack, ptype, length, count, ack_bits):
    magic = TO_SERVER if direction == "c2s" else TO_CLIENT
    return struct.pack(">4sLHHBHBL", magic, ctime & 0xFFFFFFFF, seq & 0xFFFF, ack & 0xFFFF, ptype & 0xFF, length & 0xFFFF,
                       count & 0xFF, ack_bits & 0xFFFFFFFF)


def body(msgs, count=None, ptype=None):
    """msgs: list of (msgseq, type, payload).  count==1 -> single-message layout"""
    n = len(msgs) if count is None else count
    if n == 1 and len(msgs) >= 1:
        s, t, p = msgs[0]
        return struct.pack(">H", s) + p
    out = b""
    for s, t, p in msgs:
        out += struct.pack(">HHB", len(p), s, t) + p
    return out


def forge_crc(direction, ptype, seq, ack, ack_bits, msgs, ctime, count=None, bad_crc=False, length=None):
    pl = body(msgs, count)
    n = len(msgs) if count is None else count
    h = header(direction, ctime, seq, ack, ptype, len(pl) if length is None else length, n, ack_bits)
    d = h + pl
    c = crc(d)
    if bad_crc:
        c = bytes([c[0] ^ 0x55]) + c[1:]
    return d + c


def seal(key, direction, ptype, seq, ack, ack_bits, msgs, ctime, count=None):
    """a well-formed encrypted datagram under `key` (the attacker's own key, or - for the
    'authenticated peer' cases - a real session key)"""
    from cryptography.hazmat.primitives.ciphers.aead import AESGCM
    pl = body(msgs, count)
    n = len(msgs) if count is None else count
    h = header(direction, ctime, seq, ack, ptype, len(pl), n, ack_bits)
    return h + AESGCM(key).encrypt(h[:12], pl, h)


def bitflips(d, positions=None):
    for i in (positions if positions is not None else range(len(d) * 8)):
        b = bytearray(d)
        b[i // 8] ^= 1 << (i % 8)
        yield "flip@%d" % i, bytes(b)


def truncations(d, lengths=None):
    for n in (lengths if lengths is not None else range(len(d))):
        yield "trunc@%d" % n, d[:n]


def extensions(d, r):
    for k in (1, 4, 16, 64):
        yield "extend+%d" % k, d + r.randbytes(k)


def header_rewrites(d, r, recompute_crc):
    """rewrite one header field of a genuine datagram; optionally treat the result as CRC form"""
    magic, ctime, seq, ack, ptype, length, count, ack_bits = struct.unpack(">4sLHHBHBL", d[:20])
    rest = d[20:]
    variants = []
    for t in range(0, 9):
        if t != ptype:
            variants.append(("type=%d" % t, dict(ptype=t)))
    variants += [("seq+1", dict(seq=(seq % 65535) + 1)), ("seq+40", dict(seq=(seq + 39) % 65535 + 1)), ("seq=0", dict(seq=0)),
                 ("ack+1", dict(ack=(ack % 65535) + 1)), ("ack=rand", dict(ack=r.randint(1, 65535))),
                 ("bits=all", dict(ack_bits=0xFFFFFFFF)), ("bits=0", dict(ack_bits=0)), ("bits^1", dict(ack_bits=ack_bits ^ 1)),
                 ("len-1", dict(length=max(0, length - 1))), ("len+1", dict(length=length + 1)), ("len=0", dict(length=0)),
                 ("count+1", dict(count=(count + 1) & 0xFF)), ("count=0", dict(count=0)), ("count=255", dict(count=255)),
                 ("time+1", dict(ctime=ctime + 1)), ("time=0", dict(ctime=0)),
                 ("magic-swap", dict(magic=TO_CLIENT if magic == TO_SERVER else TO_SERVER)), ("magic-bad", dict(magic=b"FSOX"))]
    for name, ch in variants:
        f = dict(magic=magic, ctime=ctime, seq=seq, ack=ack, ptype=ptype, length=length, count=count, ack_bits=ack_bits)
        f.update(ch)
        try:
            h = struct.pack(">4sLHHBHBL", f["magic"], f["ctime"], f["seq"], f["ack"], f["ptype"], f["length"], f["count"], f["ack_bits"])
        except struct.error:
            continue
        out = h + rest
        if recompute_crc:
            n = 20 + f["length"]
            core = (out[:n] if len(out) >= n else out)
            out = core + crc(core)
            name += "+crc"
        yield "hdr:" + name, out


def random_datagrams(r, direction, n, recv_size=2048):
    magic = TO_SERVER if direction == "c2s" else TO_CLIENT
    for i in range(n):
        mode = i % 4
        if mode == 0:
            yield "random", r.randbytes(r.choice([0, 1, 19, 20, 21, 24, 40, r.randint(0, recv_size)]))
        elif mode == 1:
            ln = r.choice([0, 1, 5, 100, 1400, 65535])
            pl = r.randbytes(r.choice([0, 4, 20, ln if ln < 2000 else 100]))
            yield "valid-header-garbage-body", header(direction, r.getrandbits(32), r.randint(0, 65535), r.randint(0, 65535),
                                                      r.randint(0, 8), ln, r.choice([0, 1, 2, 3, 255]), r.getrandbits(32)) + pl
        elif mode == 2:
            pl = r.randbytes(r.randint(0, 64))
            h = header(direction, r.getrandbits(32), r.randint(0, 65535), r.randint(0, 65535), r.randint(1, 7), len(pl),
                       r.choice([0, 1, 2, 3, 255]), r.getrandbits(32))
            yield "valid-header-valid-crc-garbage", h + pl + crc(h + pl)
        else:
            yield "magic-only", magic + r.randbytes(r.randint(0, 40))


class Forger(object):
    """forged plaintext (CRC-form) datagrams: every packet type x count x inner message types"""

    def __init__(self, r, direction):
        self.r = r
        self.direction = direction

    def forged(self, now, fresh_seq, ack, ack_bits, msgseq, app_payload):
        r = self.r
        out = []
        for ptype in range(0, 8):
            for count in (0, 1, 2, 3, 255):
                if count == 0:
                    msgs = []
                elif count == 1:
                    msgs = [(msgseq, ptype, app_payload)]
                else:
                    inner = [6, 7, 5, 4, 3, 2, 1]
                    k = min(count, 3)
                    msgs = [((msgseq + i - 1) % 65535 + 1, r.choice(inner) if i else 6, app_payload if i == 0 else r.randbytes(8)) for i in range(k)]
                d = forge_crc(self.direction, ptype, fresh_seq, ack, ack_bits, msgs, int(now), count=count if count != 255 else 255)
                out.append(("forged:type=%d,count=%d" % (ptype, count), d))
        return out
