"""Monitors installed from the harness on real classes (no source hooks)."""
from mon.models.ring import ShadowWindow, ring, ring_diff, MAXSEQ


class BitFieldMonitor(object):
    """Class-wide wrapper on BitField.insert / contains: after every call the real
    state is compared with a set-of-received shadow model."""

    def __init__(self, report, counters, sweep_every=1):
        self.report = report          # report(mechanism, msg)
        self.counters = counters
        self.sweep_every = sweep_every
        self.installed = False

    def install(self):
        from mpgameserver import connection as C
        mon = self
        BF = C.BitField
        self.BF = BF
        self.orig_insert = BF.insert
        self.orig_contains = BF.contains
        orig_insert, orig_contains = self.orig_insert, self.orig_contains
        Dup = C.DuplicationError

        def insert(bf, seqnum):
            sh = bf.__dict__.get("_shadow")
            if sh is None:
                sh = bf.__dict__["_shadow"] = ShadowWindow(bf.nbits)
                bf.__dict__["_shadow_n"] = 0
                if bf.current_seqnum != 0:
                    # monitor attached late: adopt the current state
                    sh.top = int(bf.current_seqnum) + 10 * MAXSEQ
                    sh.seen.add(sh.top)
                    for d in range(1, bf.nbits + 1):
                        if bf.bits & (1 << (bf.nbits - d)):
                            sh.seen.add(sh.top - d)
            want_dup = sh.expect_duplicate(seqnum)
            u_pre = sh.unwrap(seqnum)
            inside = sh.top is None or sh.in_window(u_pre) or u_pre > sh.top
            raised = False
            exc = None
            try:
                orig_insert(bf, seqnum)
            except Dup as e:
                raised = True
                exc = e
            mon.counters.inc("bitfield_insert")
            if raised:
                mon.counters.inc("bitfield_dup_raised")
            if raised != want_dup:
                if inside:
                    mon.report("window-duplicate-flag",
                               "BitField(%d).insert(%d): DuplicationError %s but the number was %s inside the window (top %d)" % (
                                   bf.nbits, seqnum, "raised" if raised else "not raised",
                                   "already received" if want_dup else "not received before", ring(sh.top) if sh.top else 0))
                elif raised:
                    mon.report("window-duplicate-flag",
                               "BitField(%d).insert(%d) raised DuplicationError for a number outside the window" % (bf.nbits, seqnum))
            if not raised:
                sh.insert(seqnum)
            mon._compare(bf, sh, "insert(%d)" % seqnum)
            if raised:
                raise exc

        def contains(bf, seqnum):
            res = orig_contains(bf, seqnum)
            sh = bf.__dict__.get("_shadow")
            if sh is not None and sh.top is not None:
                mon.counters.inc("bitfield_contains")
                u = sh.unwrap(seqnum)
                if sh.in_window(u) and res != (u in sh.seen):
                    mon.report("window-contains", "BitField(%d).contains(%d) = %r, model says %r" % (
                        bf.nbits, seqnum, res, u in sh.seen))
            return res

        BF.insert = insert
        BF.contains = contains
        self.installed = True
        return self

    def uninstall(self):
        if self.installed:
            self.BF.insert = self.orig_insert
            self.BF.contains = self.orig_contains
            self.installed = False

    def _compare(self, bf, sh, op):
        if sh.top is None:
            return
        if int(bf.current_seqnum) != ring(sh.top):
            self.report("window-current", "BitField(%d) after %s: current_seqnum %d, model %d" % (
                bf.nbits, op, bf.current_seqnum, ring(sh.top)))
            return
        if int(bf.current_seqnum) == 0:
            self.report("seq-zero", "BitField current_seqnum is 0 after %s" % op)
        want = sh.expected_bits()
        if bf.bits != want:
            self.report("window-bits", "BitField(%d) after %s: bits %x, model %x (top %d)" % (
                bf.nbits, op, bf.bits, want, ring(sh.top)))
            return
        bf.__dict__["_shadow_n"] += 1
        every = self.sweep_every if self.sweep_every else max(1, bf.nbits // 16)
        if bf.__dict__["_shadow_n"] % every == 0:
            # contains() over the whole window, through the real method
            from mpgameserver.connection import SeqNum
            for d in range(0, bf.nbits + 1):
                u = sh.top - d
                s = SeqNum(ring(u))
                got = self.orig_contains(bf, s)
                if got != (u in sh.seen):
                    self.report("window-contains", "BitField(%d) after %s: contains(%d) = %r, model %r" % (
                        bf.nbits, op, s, got, u in sh.seen))
                    break
            self.counters.inc("bitfield_window_sweeps")
