"""Lockstep engine: the real UdpServerThread.run() on its own thread, entered through
the real TwistedServer.datagramReceived and leaving through the real
TwistedServer.sendPacketsUnsafe into a mock transport; real UdpClient objects with a
mock socket; a simulated network in virtual time.

The server loop and the driver alternate strictly.  The loop yields control at two
points: inside the monitoring handler's update() (once per loop iteration) and
inside cv_queue.wait() (the "no connections, sleeping" state; the shim returns as a
spurious wake-up, which the loop's own `while` tolerates).  While the loop is
parked the driver advances the virtual clock, delivers due datagrams, runs the
clients and the scenario's actions.  Nothing else runs concurrently, so the event
log is deterministic for a seed.
"""
import heapq
import struct
import sys
import threading
import time as _real_time

from mon.core.util import Counter

SERVER_ADDR = ("10.0.0.1", 1474)
EPOCH = 1000000.0


class Inconclusive(Exception):
    pass


# --------------------------------------------------------------------------- time

class VClock(object):
    """stands in for the module-level name `time` inside mpgameserver modules"""

    # optional mode (default off: the clock stands still within a tick): every READ of any of the three clocks moves the
    # clock on by this many seconds afterwards, the way a real clock has moved on between two reads made by the same piece of
    # code - two reads inside one handshake then differ, and may lie on either side of a whole second
    read_advance = 0.0

    def __init__(self, start=EPOCH):
        self.now = start
        self.reads = 0

    def _read(self):
        t = self.now
        if self.read_advance:
            self.now = t + self.read_advance
            self.reads += 1
        return t

    def time(self):
        return self._read()

    # the three clocks tick together but have different origins, as the real ones do (time() counts from 1970,
    # monotonic()/perf_counter() from some point near boot): code that subtracts one from another goes wrong here
    # the way it would in production
    def monotonic(self):
        return self._read() - EPOCH + 4321.5

    def perf_counter(self):
        return self._read() - EPOCH + 77.25

    def sleep(self, d):
        # a blocking library call made by the driver (UdpClient.waitForDisconnect sleeps between its updates): the world
        # moves on meanwhile - the hook advances the clock and runs everybody else
        hook = getattr(self, "sleep_hook", None)
        if hook is not None:
            hook(d)
        return None

    def __getattr__(self, name):          # anything else (strftime...) from the real module
        return getattr(_real_time, name)


class SelectShim(object):
    unwritable_rate = 0.0        # probability that the socket is reported not writable (send buffer full)
    rng = None

    def select(self, r, w, x, timeout=None):
        ww = list(w)
        if self.unwritable_rate and self.rng is not None and self.rng.random() < self.unwritable_rate:
            ww = []
        return [s for s in r if getattr(s, "fifo", None)], ww, []


_PATCHED = {}


def install_virtual_time(clock):
    """replace module-level `time` (and the server's busy-wait sleep) before endpoints exist"""
    import mpgameserver.connection as C
    import mpgameserver.server as S
    import mpgameserver.client as K
    if not _PATCHED:
        _PATCHED.update({"C.time": C.time, "S.time": S.time, "K.time": K.time, "S.sleep": S.sleep, "K.select": K.select})
    C.time = clock
    S.time = clock
    K.time = clock
    S.sleep = lambda *a, **k: None
    K.select = SelectShim()


def uninstall_virtual_time():
    import mpgameserver.connection as C
    import mpgameserver.server as S
    import mpgameserver.client as K
    if _PATCHED:
        C.time, S.time, K.time, S.sleep, K.select = (_PATCHED["C.time"], _PATCHED["S.time"], _PATCHED["K.time"],
                                                   _PATCHED["S.sleep"], _PATCHED["K.select"])


# --------------------------------------------------------------------------- network

class Policy(object):
    """per-direction network behaviour for the current phase"""

    def __init__(self, loss=0.0, dup=0.0, delay=(0.0, 0.0), reorder=0.0, reorder_extra=(0.0, 0.0), outage=False):
        self.loss = loss
        self.dup = dup
        self.delay = delay
        self.reorder = reorder
        self.reorder_extra = reorder_extra
        self.outage = outage

    def describe(self):
        return {"loss": self.loss, "dup": self.dup, "delay": self.delay, "reorder": self.reorder,
                "reorder_extra": self.reorder_extra, "outage": self.outage}


class Net(object):
    def __init__(self, world, rng):
        self.world = world
        self.rng = rng
        self.heap = []
        self.n = 0
        self.policy = {"c2s": Policy(), "s2c": Policy()}
        self.filters = []           # fn(direction, addr, datagram, info) -> None | "drop" | list of delays
        self.stats = Counter()

    def set(self, c2s=None, s2c=None):
        if c2s is not None:
            self.policy["c2s"] = c2s
        if s2c is not None:
            self.policy["s2c"] = s2c

    def heal(self, delay=0.005):
        self.policy = {"c2s": Policy(delay=(delay, delay)), "s2c": Policy(delay=(delay, delay))}
        self.filters = []

    def send(self, direction, addr, datagram, info=None):
        now = self.world.clock.now
        pol = self.policy[direction]
        self.stats.inc("sent_" + direction)
        for f in self.filters:
            verdict = f(direction, addr, datagram, info)
            if verdict == "drop":
                self.stats.inc("filtered_" + direction)
                return
            if isinstance(verdict, tuple) and verdict[0] == "replace":
                # an active attacker on the path substitutes the datagram(s)
                self.stats.inc("replaced_" + direction)
                for d, origin in verdict[1]:
                    self._push(now + 0.004, direction, addr, d, origin)
                return
            if isinstance(verdict, list):
                for i, d in enumerate(verdict):
                    self._push(now + d, direction, addr, datagram, "honest" if i == 0 else "dup")
                return
        if pol.outage:
            self.stats.inc("outage_" + direction)
            return
        r = self.rng
        if pol.loss and r.random() < pol.loss:
            self.stats.inc("lost_" + direction)
            return
        copies = 1
        if pol.dup and r.random() < pol.dup:
            copies += r.randint(1, 3)
            self.stats.inc("duplicated_" + direction)
        for i in range(copies):
            d = pol.delay[0] if pol.delay[0] == pol.delay[1] else r.uniform(*pol.delay)
            if pol.reorder and r.random() < pol.reorder:
                d += r.uniform(*pol.reorder_extra)
                self.stats.inc("reordered_" + direction)
            if i:
                d += r.uniform(0, max(pol.delay[1], 0.05))
            self._push(now + d, direction, addr, datagram, "honest" if i == 0 else "dup")

    def inject(self, direction, addr, datagram, origin, delay=0.0):
        self._push(self.world.clock.now + delay, direction, addr, datagram, origin)

    def _push(self, t, direction, addr, datagram, origin):
        self.n += 1
        heapq.heappush(self.heap, (t, self.n, direction, addr, datagram, origin))

    def deliver_due(self):
        now = self.world.clock.now + 1e-9
        w = self.world
        while self.heap and self.heap[0][0] <= now:
            t, n, direction, addr, datagram, origin = heapq.heappop(self.heap)
            if direction == "c2s":
                w.offer_server(addr, datagram, origin)
            else:
                c = w.clients_by_addr.get(addr)
                if c is not None and c.sock_open:
                    if len(c.sock.fifo) >= c.sock.capacity:
                        self.stats.inc("client_socket_buffer_overflow")    # a full UDP socket buffer drops
                    else:
                        c.sock.fifo.append((datagram, origin))
                        if origin != "honest":
                            w.origins[datagram] = origin
                        self.stats.inc("delivered_s2c")

    def pending(self):
        return len(self.heap)


# --------------------------------------------------------------------------- wire decode (independent)

PKT_NAMES = {0: "UNKNOWN", 1: "CLIENT_HELLO", 2: "SERVER_HELLO", 3: "CHALLENGE_RESP", 4: "KEEP_ALIVE",
             5: "DISCONNECT", 6: "APP", 7: "APP_FRAGMENT"}


class Decoded(object):
    __slots__ = ("ok", "form", "magic", "ctime", "seq", "ack", "ptype", "length", "count", "ack_bits", "payload", "msgs", "error")


def parse_header(d):
    if len(d) < 20:
        return None
    return struct.unpack(">4sLHHBHBL", d[:20])


def decode_datagram(d, key):
    """the monitor's own decoder of the documented wire format.
    tries AES-GCM under `key` (nonce = bytes 0..11, AAD = bytes 0..19) and the CRC form."""
    from cryptography.hazmat.primitives.ciphers.aead import AESGCM
    import binascii
    out = Decoded()
    out.ok = False
    out.form = None
    out.msgs = []
    out.error = None
    h = parse_header(d)
    if h is None:
        out.error = "short"
        return out
    out.magic, out.ctime, out.seq, out.ack, out.ptype, out.length, out.count, out.ack_bits = h
    payload = None
    if key is not None:
        try:
            payload = AESGCM(key).decrypt(d[:12], d[20:], d[:20])
            out.form = "gcm"
        except Exception:
            payload = None
    if payload is None:
        n = 20 + out.length
        if len(d) >= n + 4 and struct.unpack(">L", d[n:n + 4])[0] == (binascii.crc32(d[:n]) & 0xFFFFFFFF):
            payload = d[20:n]
            out.form = "crc"
    if payload is None:
        out.error = "neither gcm under the key nor crc"
        return out
    out.payload = payload
    try:
        if out.count == 1:
            out.msgs = [(struct.unpack(">H", payload[:2])[0], out.ptype, payload[2:])]
        elif out.count > 1:
            p = payload
            for _ in range(out.count):
                ln, seq, typ = struct.unpack(">HHB", p[:5])
                out.msgs.append((seq, typ, p[5:5 + ln]))
                p = p[5 + ln:]
        out.ok = True
    except Exception as e:
        out.error = "payload structure: %r" % (e,)
    return out


# --------------------------------------------------------------------------- application payloads

MAGIC = b"\xa7MpGv\x1f"          # 6 bytes, never produced by the protocol itself
ID_LEN = len(MAGIC) + 1 + 4       # magic | sender | counter


def make_payload(sender, counter, length, fill="random"):
    """unique, self-describing payload: magic | sender id | counter | filler derived from the id"""
    import random
    if length < ID_LEN:
        raise ValueError("too short for an id")
    head = MAGIC + bytes([sender]) + struct.pack(">L", counter)
    n = length - ID_LEN
    if fill == "zeros":
        body = b"\x00" * n
    elif fill == "ff":
        body = b"\xff" * n
    elif fill == "text":
        body = (b"The quick brown fox jumps over the lazy dog. " * (n // 45 + 1))[:n]
    else:
        body = random.Random((sender << 32) | counter).randbytes(n)
    return head + body


def payload_id(p):
    if len(p) >= ID_LEN and p[:len(MAGIC)] == MAGIC:
        return (p[len(MAGIC)], struct.unpack(">L", p[len(MAGIC) + 1:ID_LEN])[0])
    return None


# --------------------------------------------------------------------------- endpoints

ATTACKER_ADDR = ("10.66.6.6", 6666)


class MockSock(object):
    def __init__(self, client):
        self.client = client
        self.fifo = []
        self.capacity = 128          # datagrams (an OS socket buffer holds ~140 full-size datagrams)
        self.fail_rate = 0.0         # probability that sendto() raises OSError

    def sendto(self, datagram, addr):
        c = self.client
        if tuple(addr[:2]) != SERVER_ADDR:
            # the client addressed a datagram to somebody else than the server it connected to
            c.world.counters.inc("client_datagrams_to_foreign_address")
            c.world.misdirected.append((c.world.clock.now, c.addr, tuple(addr[:2]), len(datagram), c.last_origin))
            return
        c.world.on_wire("c2s", c.addr, bytes(datagram), c)
        if self.fail_rate and c.world.fault_rng.random() < self.fail_rate:
            # the operating system refuses the datagram (ENOBUFS): the library built and registered it, it never leaves the host -
            # to the monitors a datagram lost on the first hop; to the application an OSError out of update()
            c.world.counters.inc("client_sendto_failed")
            raise OSError(105, "No buffer space available")
        c.world.net.send("c2s", c.addr, bytes(datagram))

    def recvfrom(self, n):
        datagram, origin = self.fifo.pop(0)
        self.client.last_origin = origin
        self.client.last_datagram = datagram
        self.client.world.counters.inc("client_datagrams_read")
        # what an attacker injects arrives from the attacker's own address half of the time (the other half it spoofs the
        # server's); honest traffic, network duplicates and replays by an on-path attacker carry the server's address
        src = SERVER_ADDR
        if origin not in (None, "honest", "dup") and not str(origin).startswith("replay") and (len(datagram) + self.client.world.ticks) % 2:
            src = ATTACKER_ADDR
            self.client.world.counters.inc("client_datagrams_from_foreign_address")
        return datagram[:n], src

    def close(self):
        self.client.sock_open = False

    def fileno(self):
        return -1


class ClientEnd(object):
    """a real UdpClient on a mock socket"""

    def __init__(self, world, addr, sender_id, pinned=True, public_key=None):
        from mpgameserver.client import UdpClient
        self.world = world
        self.addr = addr
        self.sender_id = sender_id
        self.read_bulk = (sum(map(ord, addr[0])) + addr[1] + world.rng_tag) % 2 == 0
        key = public_key if public_key is not None else (world.root_pub if pinned else None)
        self.udp = UdpClient(key)
        self.sock = MockSock(self)
        self.sock_open = True
        self.udp._make_socket = lambda a: self.sock
        self.delivered = []         # (t, seqnum, payload)
        self.update_errors = []     # exceptions escaping UdpClient.update()
        self.connect_cb = []        # (t, value)
        self.counter = 0
        self.active = True
        self.last_origin = None
        self.updates_per_step = 1    # application frames per server tick
        self.on_connected = []       # callables(client) run inside the connect callback
        self.on_connecting = []      # callables(client) run right after connect() returned (status CONNECTING)
        self.collect_every = 1       # the application collects its messages every n-th frame
        self._held_lists = []        # [list returned by getMessages(), length when it was returned]
        self.last_datagram = None

    @property
    def conn(self):
        return self.udp.conn

    def connect(self, with_callback=True):
        def cb(ok):
            self.connect_cb.append((self.world.clock.now, ok))
            if ok:
                for fn in self.on_connected:          # re-entrant use of the API from inside the connect callback
                    fn(self)
        self.udp.connect(SERVER_ADDR, cb if (with_callback or self.on_connected) else None)
        for fn in self.on_connecting:                 # the application uses the client right after connect() returned
            fn(self)

    def wait_for_disconnect(self):
        """the blocking UdpClient.waitForDisconnect(): it calls update() and time.sleep(send_interval) in a loop; every sleep
        advances the virtual clock and lets the network and the server run (this client is not ticked from outside meanwhile)"""
        w = self.world
        self.in_blocking_call = True
        driver = threading.get_ident()

        def hook(d):
            if threading.get_ident() == driver and not getattr(w, "_in_sleep", False):
                w._in_sleep = True
                try:
                    w.step(1, dt_override=max(d, 1e-4))
                finally:
                    w._in_sleep = False
        w.clock.sleep_hook = hook
        try:
            self.udp.waitForDisconnect()
        finally:
            w.clock.sleep_hook = None
            self.in_blocking_call = False
        w.counters.inc("client_wait_for_disconnect_calls")

    def tick(self):
        if not self.active or self.udp.conn is None or getattr(self, "in_blocking_call", False):
            return
        try:
            self.udp.update()
        except Exception as e:
            self.update_errors.append((self.world.clock.now, repr(e), self.last_origin))
            self.world.counters.inc("client_update_raised")
        # an application that keeps the lists getMessages() gave it (a per-frame inbox looked at later): what it finds in them later
        # is what it processes - a returned list that grows afterwards hands it messages a second time
        for held in self._held_lists:
            lst, n_seen = held
            if len(lst) > n_seen:
                self.world.counters.inc("returned_message_list_grew")
                for seqnum, msg in lst[n_seen:]:
                    self.world.on_deliver("client", self, seqnum, msg)
                held[1] = len(lst)
        if self.collect_every > 1 and self.world.ticks % self.collect_every:
            return                   # a lazy reader: update() every frame, the inbox only now and then
        # the application reads what arrived: in bulk, or one message at a time (hasMessages()/getMessage())
        if self.read_bulk:
            got = self.udp.getMessages()
            self._held_lists.append([got, len(got)])
            del self._held_lists[:-3]
        else:
            got = []
            while self.udp.hasMessages():
                got.append(self.udp.getMessage())
        for seqnum, msg in got:
            self.delivered.append((self.world.clock.now, int(seqnum), msg))
            self.world.on_deliver("client", self, seqnum, msg)


def _event_handler_base():
    from mpgameserver.handler import EventHandler
    return EventHandler


class MonHandler(_event_handler_base()):
    """monitoring EventHandler: logs every event with thread id and virtual time and is
    the rendezvous point of the lockstep (update())"""

    def __init__(self, world):
        self.world = world
        self.log = []               # (event, thread_id, t, client_obj_id, addr, token, extra)
        self.on = {}                # event name -> list of callables(client, ...)
        self.clients = {}           # id(client) -> client (keeps objects alive so ids stay unique)

    def _rec(self, event, client=None, extra=None):
        w = self.world
        cid = id(client) if client is not None else None
        if client is not None:
            self.clients[cid] = client
        self.log.append((event, threading.get_ident(), w.clock.now, cid,
                         getattr(client, "addr", None), getattr(client, "token", None), extra))

    def _fire(self, event, *args):
        for fn in self.on.get(event, ()):
            fn(*args)

    def starting(self):
        self._rec("starting")
        self._fire("starting")

    def shutdown(self):
        self._rec("shutdown")
        self._fire("shutdown")

    def connect(self, client):
        self._rec("connect", client)
        self._fire("connect", client)

    def disconnect(self, client):
        self._rec("disconnect", client)
        self._fire("disconnect", client)

    def handle_message(self, client, seqnum, msg=b""):
        self._rec("message", client, (int(seqnum), msg))
        self.world.on_deliver("server", client, seqnum, msg)
        self._fire("message", client, seqnum, msg)

    def update(self, delta_t):
        self._rec("update", None, delta_t)
        self.world._server_yield("update")
        self._fire("update", delta_t)


class CvShim(object):
    """replaces UdpServerThread.cv_queue: wait() is a rendezvous that returns as a spurious
    wake-up; notify_all() is a no-op (the driver releases the loop explicitly)"""

    def __init__(self, world, lock):
        self.world = world
        self.lock = lock

    def wait(self, timeout=None):
        self.lock.release()
        try:
            self.world.counters.inc("server_parked_waits")
            self.world._server_yield("parked")
        finally:
            self.lock.acquire()
        return True

    def notify_all(self):
        pass

    def notify(self, n=1):
        pass


class Transport(object):
    def __init__(self, world):
        self.world = world

    def write(self, datagram, addr):
        w = self.world
        w.on_wire("s2c", addr, bytes(datagram), None)
        w.net.send("s2c", addr, bytes(datagram))


class LogCounter(object):
    """the library logs (warnings, caught exceptions) are counted instead of printed"""
    _inst = None

    @classmethod
    def attach(cls):
        import logging
        if cls._inst is None:
            class H(logging.Handler):
                def __init__(self):
                    logging.Handler.__init__(self)
                    self.counts = Counter()
                    self.exceptions = []

                def emit(self, record):
                    self.counts.inc(record.levelname)
                    if record.exc_info and len(self.exceptions) < 50:
                        self.exceptions.append("%s: %r" % (record.getMessage()[:80], record.exc_info[1]))
            h = H()
            lg = logging.getLogger("mpgameserver")
            lg.addHandler(h)
            lg.propagate = False
            lg.setLevel(logging.WARNING)
            cls._inst = h
        cls._inst.counts = Counter()
        cls._inst.exceptions = []
        return cls._inst


class World(object):
    """one server (real loop) + any number of real clients + a simulated network"""

    def __init__(self, rng, dt=1 / 60, jitter=0.0, ctxt_setup=None, handler=None, root_key=None, blocklist=None,
                 blocklist_after_construction=False, ctxt_setup_after_construction=False):
        from mpgameserver import ServerContext, EllipticCurvePrivateKey
        from mpgameserver.twisted import TwistedServer
        self.rng = rng
        self.rng_tag = int(dt * 1000003) + (1 if jitter else 0)     # varies the clients' read API between worlds without consuming randomness
        self.dt = dt
        self.jitter = jitter
        self.clock = VClock()
        install_virtual_time(self.clock)
        self.logs = LogCounter.attach()
        self.counters = Counter()
        self.events = []            # generic event log (tuples)
        self.wire = []              # (n, t, direction, addr, datagram)
        self.wire_hooks = []        # fn(direction, addr, datagram, client_or_None, index)
        self.deliver_hooks = []     # fn(side, endpoint, seqnum, payload)
        self.offer_hooks = []       # fn(addr, datagram, origin) before datagramReceived
        self.after_offer_hooks = []
        self.tick_hooks = []        # fn(world) after every driver step
        self.clients = []
        self.clients_by_addr = {}
        import random as _random
        self.fault_rng = _random.Random(0xFA17)      # faults injected at the socket do not consume the workload's randomness
        self.misdirected = []        # (t, client addr, destination, bytes, origin of the last datagram read) - datagrams a client sent elsewhere
        self.root_key = root_key or EllipticCurvePrivateKey.new()
        self.root_pub = self.root_key.getPublicKey()
        self.handler = handler or MonHandler(self)
        self.ctxt = ServerContext(self.handler, self.root_key)
        self.ctxt.setInterval(dt)
        if blocklist is not None and not blocklist_after_construction:
            self.ctxt.setBlockList(blocklist)
        if ctxt_setup and not ctxt_setup_after_construction:
            ctxt_setup(self.ctxt)
        self.server = TwistedServer(self.ctxt, SERVER_ADDR, install_signals=False)
        if ctxt_setup and ctxt_setup_after_construction:
            # the context is configured after the server object was built from it - still before the server starts
            ctxt_setup(self.ctxt)
        if blocklist is not None and blocklist_after_construction:
            # "the configuration should be set prior to calling the run method": after construction is still prior to run
            self.ctxt.setBlockList(blocklist)
        self.server.transport = Transport(self)
        self.thread = self.server.thread
        self.send_errors = []
        self.reactor_lag = 0         # ticks the (simulated) reactor thread may be behind with sending
        self._reactor_queue = []
        self.thread.send = self._reactor_send
        self.thread.cv_queue = CvShim(self, self.thread.lk_queue)
        self.net = Net(self, rng)
        self.thread_errors = []
        self._cv = threading.Condition()
        self._turn = "driver"
        self._yield_kind = None
        self._started = False
        self._dead = False
        self.ticks = 0
        self.server_iterations = 0
        self.keep_wire = True
        self.offered = Counter()
        self.origins = {}            # datagram bytes -> origin label (non-honest origins only)
        self.phase = None

    # ----- the hand-off
    def _reactor_send(self, seq):
        # the deployment hands the batch to the reactor thread (callFromThread); an exception there is
        # logged by twisted and does not reach the server loop.  Same here, but recorded.
        # The reactor may be busy: with reactor_lag = n the batches of the last n ticks wait and are encoded together, later (the
        # packets were BUILT tick by tick; what the reactor does with them must not depend on when it gets to them).
        self._reactor_queue.append((self.ticks, seq))
        lag = self.reactor_lag
        if lag and (self.ticks % (lag + 1)) != 0 and len(self._reactor_queue) <= lag:
            self.counters.inc("reactor_batches_delayed")
            return
        batches, self._reactor_queue = self._reactor_queue, []
        for _t, sq in batches:
            try:
                self.server.sendPacketsUnsafe(sq)
            except Exception as e:
                self.send_errors.append((self.clock.now, repr(e)))
                self.counters.inc("send_path_raised")

    def _server_yield(self, kind):
        with self._cv:
            self._yield_kind = kind
            if kind == "update":
                self.server_iterations += 1
            self._turn = "driver"
            self._cv.notify_all()
            while self._turn != "server":
                self._cv.wait()

    def _release_server(self):
        with self._cv:
            self._turn = "server"
            self._cv.notify_all()
            deadline = _real_time.time() + 600
            while self._turn != "driver":
                self._cv.wait(0.5)
                if self._turn != "driver":
                    if not self.thread.is_alive():
                        self._dead = True
                        return False
                    if _real_time.time() > deadline:
                        raise Inconclusive("wall-clock watchdog: server loop did not yield within 600 s")
        return True

    def start(self):
        def hook(args):
            self.thread_errors.append(repr(args.exc_value))
        self._old_hook = threading.excepthook
        threading.excepthook = hook
        with self._cv:
            self._turn = "server"
        self.thread.start()
        with self._cv:
            deadline = _real_time.time() + 300
            while self._turn != "driver":
                self._cv.wait(0.5)
                if _real_time.time() > deadline:
                    raise Inconclusive("server loop did not reach its first tick")
        self._started = True
        return self

    def stop(self):
        """graceful shutdown as TwistedServer.stop does (without a reactor)"""
        if self._started and self.thread.is_alive():
            self.ctxt.shutdown()
            with self._cv:
                self._turn = "server"
                self._cv.notify_all()
            self.thread.join(180)
            if self.thread.is_alive():
                raise Inconclusive("server thread did not exit on shutdown")
        self._started = False
        threading.excepthook = getattr(self, "_old_hook", threading.excepthook)
        uninstall_virtual_time()

    def alive(self):
        return self.thread.is_alive() and not self._dead

    # ----- endpoints
    def add_client(self, addr=None, pinned=True, public_key=None):
        if addr is None:
            addr = ("10.1.%d.%d" % (len(self.clients) // 250, len(self.clients) % 250 + 2), 40000 + len(self.clients))
        c = ClientEnd(self, addr, len(self.clients) + 1, pinned=pinned, public_key=public_key)
        self.clients.append(c)
        self.clients_by_addr[addr] = c
        return c

    def remove_client(self, c):
        c.active = False
        if c in self.clients:
            self.clients.remove(c)
        self.clients_by_addr.pop(c.addr, None)

    def server_conn(self, addr):
        return self.ctxt.connections.get(addr) or self.ctxt.temp_connections.get(addr)

    # ----- observation points
    def on_wire(self, direction, addr, datagram, client):
        n = len(self.wire) if self.keep_wire else self.counters.get("wire_total", 0)
        self.counters.inc("wire_total")
        self.counters.inc("wire_" + direction)
        if self.keep_wire:
            self.wire.append((n, self.clock.now, direction, addr, datagram))
        for h in self.wire_hooks:
            h(direction, addr, datagram, client, n)

    def on_deliver(self, side, endpoint, seqnum, payload):
        self.counters.inc("delivered_to_" + side)
        for h in self.deliver_hooks:
            h(side, endpoint, seqnum, payload)

    def offer_server(self, addr, datagram, origin="honest"):
        """the datagram entry point of the server: the real TwistedServer.datagramReceived"""
        self.offered.inc(origin.split(":")[0])
        if origin != "honest":
            self.origins[datagram] = origin
        for h in self.offer_hooks:
            h(addr, datagram, origin)
        self.server.datagramReceived(datagram, addr)
        for h in self.after_offer_hooks:
            h(addr, datagram, origin)

    # ----- stepping
    def step(self, n=1, actions=None, dt_override=None):
        for _ in range(n):
            dt = self.dt if dt_override is None else dt_override
            if self.jitter and dt_override is None:
                dt *= 1.0 + self.rng.uniform(-self.jitter, self.jitter)
            self.clock.now += dt
            self.ticks += 1
            self.net.deliver_due()
            if actions:
                actions(self)
            for c in self.clients:
                for _ in range(c.updates_per_step):
                    c.tick()
            for h in self.tick_hooks:
                h(self)
            if not self._dead:
                self._release_server()
        return self

    def spin(self, n, actions=None):
        """n rounds of clients + server loop WITHOUT advancing the clock (an application that calls update() far more
        often than the send interval; time stands still between the calls - a non-decreasing clock)"""
        for _ in range(n):
            self.net.deliver_due()
            if actions:
                actions(self)
            for c in self.clients:
                for _k in range(c.updates_per_step):
                    c.tick()
            if not self._dead:
                self._release_server()
        return self

    def run_until(self, cond, max_ticks=100000):
        for _ in range(max_ticks):
            if cond(self):
                return True
            self.step()
        return cond(self)

    def connect_client(self, c=None, max_ticks=1200, with_callback=True, attempts=10):
        """honest handshake; like an application, retry connect() when an attempt gets no answer
        (UdpClient sends the hello once; a stale half-open entry at the server swallows the first retry)"""
        c = c or self.add_client()
        from mpgameserver.connection import ConnectionStatus
        for attempt in range(attempts):
            if c.udp.conn is not None:
                c.udp.forceDisconnect()
                c.sock_open = True
                c.sock.fifo.clear()
            c.connect(with_callback=with_callback)
            ok = self.run_until(lambda w: c.conn.status == ConnectionStatus.CONNECTED and c.addr in w.ctxt.connections,
                                max_ticks // attempts + 40)
            if ok:
                return c
        raise Inconclusive("honest handshake did not complete in %d attempts" % attempts)
