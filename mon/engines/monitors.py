"""Monitors over a lockstep World.  Class-wide wrappers (installed from the harness,
removed after the run) feed a set of online checkers; every checker reports
violations as (property, mechanism, message).

Observation points (DESIGN 1.5): _recv_datagram (accept/drop + before/after state),
_handle_ack/_handle_timeout (resolution), _build_packet_impl (queue before/after),
Packet.to_bytes (encode), the wire (every datagram handed to a socket), delivery to
the application and user callbacks.
"""
import struct

from mon.core.util import Counter, short
from mon.engines.lockstep import (decode_datagram, parse_header, payload_id, make_payload, PKT_NAMES, MAGIC, ID_LEN)
from mon.models.ring import ring, ring_diff, MAXSEQ

EPS = 1e-6


def snapshot(conn, extra=()):
    """the semantic state C01/C04 protect (see DESIGN C01)"""
    st = conn.stats
    return (
        tuple((int(s), bytes(m)) for s, m in conn.incoming_messages),
        tuple(sorted((int(fid), fr.frag_count, tuple(None if f is None else bytes(f) for f in fr.fragments))
                     for fid, fr in conn.received_fragments.items())),
        frozenset(int(s) for s in conn.pending_acks),
        frozenset(int(s) for s in conn.pending_callbacks),
        st.acked, st.timeouts, st.received,
        conn.session_key_bytes, conn.token, getattr(conn.status, "value", conn.status),
        conn.last_recv_time,
        (int(conn.bitfield_pkt.current_seqnum), conn.bitfield_pkt.bits),
        (int(conn.bitfield_msg.current_seqnum), conn.bitfield_msg.bits),
        len(conn.outgoing_messages),
        # the transmit side: what a rejected datagram must not touch either (an early or extra emission is an effect)
        (getattr(conn, "last_send_time", None), getattr(conn, "last_send_keep_alive_time", None), int(conn.seq_sending),
         int(conn.seq_message), int(conn.seq_fragment), len(conn.pending_retry_msg),
         getattr(conn, "send_interval", None), getattr(conn, "send_keep_alive_interval", None), getattr(conn, "outgoing_timeout", None)),
    ) + tuple(extra)


SNAP_FIELDS = ["incoming_messages", "reassembly_contexts", "pending_acks", "pending_callbacks", "stats.acked",
               "stats.timeouts", "stats.received", "session_key", "token", "status", "last_recv_time",
               "bitfield_pkt", "bitfield_msg", "outgoing_queue_len", "transmit_schedule", "delivered_count", "callback_count"]


def snap_diff(a, b):
    return [SNAP_FIELDS[i] if i < len(SNAP_FIELDS) else "extra%d" % i for i, (x, y) in enumerate(zip(a, b)) if x != y]


class EndState(object):
    """what the monitors know about one connection object"""

    def __init__(self, conn, role):
        self.conn = conn
        self.role = role
        self.acc_top = None          # unwrapped index of the newest accepted peer datagram
        self.acc = set()             # unwrapped indices of accepted peer datagrams
        self.emit_last = None        # unwrapped index of the last emitted datagram
        self.emitted = {}            # unwrapped -> dict(t, seq, msgs, resolved)
        self.pending = set()         # unwrapped indices not yet resolved in the model
        self.closed = False
        self.delivered_n = 0
        self.callbacks_n = 0
        self.peer = None

    def unwrap_peer(self, seq):
        if self.acc_top is None:
            return int(seq) + 10 * MAXSEQ
        return self.acc_top + ring_diff(int(seq), ring(self.acc_top))

    def unwrap_own(self, seq):
        if self.emit_last is None:
            return int(seq) + 10 * MAXSEQ
        return self.emit_last + ring_diff(int(seq), ring(self.emit_last))


class Tap(object):
    """installs the class-wide wrappers once and fans events out to listeners"""

    def __init__(self, world):
        self.world = world
        self.listeners = []
        self.ends = {}               # id(conn) -> EndState
        self.server_by_addr = {}     # addr -> latest ServerClientConnection
        self.expired_contexts = {}   # (id(receiving conn), frag id) -> [(t, fragments held, count)]
        self.current_fragment = None
        self.purged_before_store = set()   # (id(receiving conn), frag id) purged while its own arriving fragment was not yet stored
        self.genuine_by_key = {}     # session key -> {first 20 bytes -> datagram} (both directions)
        self.genuine_hello = {}      # ("server", client addr) | ("client", id(client conn)) -> {hdr -> datagram}
        self.keep_genuine = True
        self.installed = False
        self.counters = world.counters

    def end(self, conn):
        e = self.ends.get(id(conn))
        if e is None:
            role = "server" if conn.isServer else "client"
            e = self.ends[id(conn)] = EndState(conn, role)
            if role == "server":
                self.server_by_addr[conn.addr] = conn
        return e

    def fan(self, name, *args):
        for l in self.listeners:
            fn = getattr(l, name, None)
            if fn is not None:
                fn(*args)

    def install(self):
        import mpgameserver.connection as C
        tap = self
        CB = C.ConnectionBase
        self._C = C
        self._orig = {
            "recv": CB._recv_datagram, "ack": CB._handle_ack, "timeout": CB._handle_timeout,
            "build": CB._build_packet_impl, "to_bytes": C.Packet.to_bytes,
        }
        o = self._orig

        def _recv_datagram(conn, hdr, datagram):
            e = tap.end(conn)
            tap.fan("before_recv", e, datagram)
            try:
                res = o["recv"](conn, hdr, datagram)
            except Exception:
                # state may have been touched before the raise: judge it like any other outcome
                tap.counters.inc("recv_calls")
                tap.counters.inc("recv_raised")
                tap.fan("after_recv", e, datagram, None)
                raise
            tap.counters.inc("recv_calls")
            tap.fan("after_recv", e, datagram, res)
            return res

        def _handle_ack(conn, seqnum):
            e = tap.end(conn)
            tap.fan("resolved", e, int(seqnum), "acked")
            return o["ack"](conn, seqnum)

        def _handle_timeout(conn, seqnum):
            e = tap.end(conn)
            tap.fan("resolved", e, int(seqnum), "timeout")
            return o["timeout"](conn, seqnum)

        def _build_packet_impl(conn, current_time, send_keep_alive, resend_delay):
            e = tap.end(conn)
            before = list(conn.outgoing_messages)
            try:
                pkt = o["build"](conn, current_time, send_keep_alive, resend_delay)
            except Exception as ex:
                tap.fan("build_raised", e, before, ex)
                raise
            tap.fan("built", e, before, pkt)
            return pkt

        def to_bytes(pkt, key):
            try:
                out = o["to_bytes"](pkt, key)
            except Exception as ex:
                tap.fan("encode_raised", pkt, key, ex)
                raise
            tap.fan("encoded", pkt, key, out)
            return out

        self._orig["expired"] = C.FragmentReceiver.expired
        self._orig["frag"] = CB._recvAppFragment

        def _recvAppFragment(conn, msgseq, fragment):
            # label: which fragment is being processed right now (coordinates parsed by the monitor itself)
            cur = None
            if len(fragment) >= 6:
                fid, idx, cnt = struct.unpack(">HHH", fragment[:6])
                cur = (id(conn), fid, idx - 1, cnt)
            tap.current_fragment = cur
            conn._verif_processed = True
            try:
                return o["frag"](conn, msgseq, fragment)
            finally:
                tap.current_fragment = None
        CB._recvAppFragment = _recvAppFragment

        def expired(fr):
            res = o["expired"](fr)
            if res:
                conn = fr.conn
                for fid, x in conn.received_fragments.items():
                    if x is fr:
                        idx = frozenset(i for i, f in enumerate(fr.fragments) if f is not None)
                        held = len(idx)
                        cur = tap.current_fragment
                        # was the context purged while one of its OWN fragments was being processed and not yet stored?
                        # (the library stores the arriving fragment first and purges afterwards)
                        own_unstored = bool(cur and cur[0] == id(conn) and cur[1] == int(fid) and cur[3] == fr.frag_count
                                            and 0 <= cur[2] < fr.frag_count and cur[2] not in idx)
                        if own_unstored:
                            tap.counters.inc("reassembly_context_purged_before_storing_own_fragment")
                            tap.purged_before_store.add((id(conn), int(fid)))
                        tap.expired_contexts.setdefault((id(conn), int(fid)), []).append(
                            (tap.world.clock.now, idx, fr.frag_count))
                        tap.counters.inc("reassembly_contexts_expired")
                        if 0 < held < fr.frag_count:
                            tap.counters.inc("reassembly_contexts_expired_incomplete")
            return res

        # ---- message level (C08): which application messages of an accepted datagram are processed, which are dropped as duplicates
        self._orig["recv_message"] = CB._recv_message
        self._orig["recv_app"] = CB._recvApp

        def _recvApp(conn, msgseq, msg):
            conn._verif_processed = True
            return o["recv_app"](conn, msgseq, msg)

        def _recv_message(conn, pkt_typ, msgseq, msg):
            ptype = getattr(pkt_typ, "value", pkt_typ)
            if ptype not in (6, 7):
                return o["recv_message"](conn, pkt_typ, msgseq, msg)
            e = tap.end(conn)
            seen = getattr(e, "msg_seen", None)
            if seen is None:
                seen = e.msg_seen = set()
            top = int(conn.bitfield_msg.current_seqnum)
            seq = int(msgseq)
            behind = ring_diff(top, seq) if top else -1
            conn._verif_processed = False
            cur0 = tap.current_fragment
            try:
                return o["recv_message"](conn, pkt_typ, msgseq, msg)
            finally:
                processed = bool(conn._verif_processed)
                tap.fan("message_verdict", e, seq, ptype, top, behind, seq in seen, processed)
                if processed:
                    seen.add(seq)
                    if len(seen) > 4096:
                        top2 = int(conn.bitfield_msg.current_seqnum)
                        e.msg_seen = {x for x in seen if ring_diff(top2, x) < 1024}
        CB._recv_message = _recv_message
        CB._recvApp = _recvApp

        C.FragmentReceiver.expired = expired
        CB._recv_datagram = _recv_datagram
        CB._handle_ack = _handle_ack
        CB._handle_timeout = _handle_timeout
        CB._build_packet_impl = _build_packet_impl
        C.Packet.to_bytes = to_bytes
        self.world.wire_hooks.append(self._on_wire)
        self.installed = True
        return self

    def uninstall(self):
        if not self.installed:
            return
        C = self._C
        CB = C.ConnectionBase
        CB._recv_datagram = self._orig["recv"]
        CB._handle_ack = self._orig["ack"]
        CB._handle_timeout = self._orig["timeout"]
        CB._build_packet_impl = self._orig["build"]
        C.Packet.to_bytes = self._orig["to_bytes"]
        C.FragmentReceiver.expired = self._orig["expired"]
        CB._recvAppFragment = self._orig["frag"]
        CB._recv_message = self._orig["recv_message"]
        CB._recvApp = self._orig["recv_app"]
        self.installed = False

    def _on_wire(self, direction, addr, datagram, client, n):
        if direction == "c2s":
            conn = client.udp.conn if client is not None else None
        else:
            conn = self.server_by_addr.get(addr) or self.world.server_conn(addr)
        if conn is None:
            self.counters.inc("wire_unattributed")
            return
        e = self.end(conn)
        dec = decode_datagram(datagram, conn.session_key_bytes)
        if not dec.ok and direction == "s2c" and getattr(self.world, "reactor_lag", 0):
            # a lagging reactor sends what an EARLIER connection of this address built (the address has a new session by now)
            for e2 in list(self.ends.values()):
                if e2.role == "server" and e2.conn is not conn and getattr(e2.conn, "addr", None) == addr:
                    d2 = decode_datagram(datagram, e2.conn.session_key_bytes)
                    if d2.ok:
                        conn, e, dec = e2.conn, e2, d2
                        self.counters.inc("wire_attributed_to_earlier_session")
                        break
        if self.keep_genuine and dec.ok:
            if dec.form == "gcm":
                self.genuine_by_key.setdefault(conn.session_key_bytes, {})[datagram[:20]] = datagram
            elif dec.ptype == 1 and direction == "c2s":
                self.genuine_hello.setdefault(("server", addr), {})[datagram[:20]] = datagram
            elif dec.ptype == 2 and direction == "s2c":
                cl = self.world.clients_by_addr.get(addr)
                if cl is not None and cl.udp.conn is not None:
                    self.genuine_hello.setdefault(("client", id(cl.udp.conn)), {})[datagram[:20]] = datagram
        self.fan("emitted", e, direction, addr, datagram, dec, n)

    def genuine_for(self, e, key, d):
        """authenticity without looking at the implementation: D is authentic iff a datagram G recorded at
        the honest peer's tap for this session is a prefix of D (D == G or G + trailing bytes)"""
        if key is not None:
            # (both directions share the key: only what the OTHER end emitted - the direction tag says so - is authentic for e)
            from mon.engines.adversary import TO_SERVER, TO_CLIENT
            G = self.genuine_by_key.get(key, {}).get(d[:20]) if d[:4] == (TO_SERVER if e.role == "server" else TO_CLIENT) else None
        elif e.role == "server":
            G = self.genuine_hello.get(("server", e.conn.addr), {}).get(d[:20])
        else:
            G = self.genuine_hello.get(("client", id(e.conn)), {}).get(d[:20])
        if G is not None and d.startswith(G):
            return G
        return None


class Reporter(object):
    def __init__(self, limit_per_mech=6):
        self.violations = []
        self.counts = Counter()
        self.limit = limit_per_mech
        self.context = {}

    def __call__(self, prop, mechanism, msg, case=None):
        key = "%s:%s" % (prop, mechanism)
        self.counts.inc(key)
        if self.counts[key] <= self.limit:
            if callable(msg):
                msg = msg()
            c = dict(self.context)
            if case:
                c.update(case)
            self.violations.append({"property": prop, "mechanism": mechanism, "msg": msg, "case": c})

    def of(self, prop):
        return [v for v in self.violations if v["property"] == prop]


# =========================================================================== application layer tracking

class Regen(object):
    """a sent payload the tracker does NOT keep alive (the application dropped its reference right after send()): regenerated
    from its id when a comparison needs it"""

    def __init__(self, sender, counter, length, fill):
        self.args = (sender, counter, length, fill)

    def get(self):
        return make_payload(*self.args)


def payload_of(rec):
    p = rec["payload"]
    return p.get() if isinstance(p, Regen) else p


class AppTracker(object):
    """sends (through the public APIs), deliveries and callbacks with unique payload ids.
    Decides C04 (at most once), C06 (bytes identical / nothing fabricated) and feeds C05/C07."""

    def __init__(self, world, tap, report):
        self.world = world
        self.tap = tap
        self.report = report
        self.sends = {}              # id -> record
        self.deliveries = {}         # id -> [(t, side)]
        self.small_sent = Counter()  # payloads too short for an id: multiset by (sender side, bytes)
        self.small_delivered = Counter()
        self.small_by_seq = {}       # (id(sending conn), message seq) -> send record of a payload too short for an id
        self.counter = 0
        self.c = world.counters
        self.raising_callbacks = False
        self.double_at_accept = {}   # (id(receiving conn), payload id) -> mechanism label decided when the endpoint accepted it again
        self.endpoint_accepted = set()        # payload ids / (id(sending conn), msgseq) the peer ENDPOINT has accepted (queued for its application)
        self._inq = 0
        world.deliver_hooks.append(self.on_deliver)
        tap.listeners.append(self)

    # C07 speaks of the peer ENDPOINT accepting the message: that is the moment it enters incoming_messages, which can be
    # earlier than the hand-over to the application (the server dispatches messages that arrived with the CHALLENGE_RESP
    # when the next datagram of that client arrives)
    def before_recv(self, e, datagram):
        self._inq = len(e.conn.incoming_messages)

    def after_recv(self, e, datagram, res):
        conn = e.conn
        new = conn.incoming_messages[self._inq:] if len(conn.incoming_messages) >= self._inq else conn.incoming_messages
        if not new:
            return
        if e.role == "server":
            cl = self.world.clients_by_addr.get(conn.addr)
            sender = cl.udp.conn if cl is not None else None
        else:
            sender = None
            for cl in self.world.clients_by_addr.values():
                if cl.udp.conn is conn:
                    sender = self.tap.server_by_addr.get(cl.addr)
        self._accepted_again = []
        for seq, payload in new:
            pid = payload_id(bytes(payload))
            key = pid if pid is not None else ((id(sender), int(seq)) if sender is not None else None)
            if key is None:
                continue
            if key in self.endpoint_accepted:
                # accepted by this endpoint for the second time: judged NOW, with the datagram at hand (the application may collect
                # its messages much later)
                self._accepted_again.append((int(seq), key, id(conn)))
            self.endpoint_accepted.add(key)

    def send(self, endpoint, side, length, retry, api="send", with_cb=True, fill="random", payload=None, extra_cb=None, raw_cb=None, assume_open=False, keep_payload=True):
        """endpoint: ClientEnd (side 'client') or a ServerClientConnection (side 'server').
        extra_cb: called (value) after the callback was recorded (re-entrant use of the API from a callback);
        raw_cb: THE callback object handed to the library (several sends may share it); such a send has no callback record"""
        from mpgameserver.connection import RetryMode
        w = self.world
        sender = endpoint.sender_id if side == "client" else 0
        conn = endpoint.udp.conn if side == "client" else endpoint
        self.counter += 1
        generated = payload is None
        if payload is None:
            if length >= ID_LEN:
                payload = make_payload(sender, self.counter, length, fill)
            else:
                payload = self._small(length)
        pid = payload_id(payload)
        rec = {"n": self.counter, "id": pid, "side": side, "sender": sender, "len": len(payload), "retry": int(retry), "api": api,
               "t": w.clock.now, "payload": payload, "cb": [], "with_cb": with_cb, "refused": None,
               "conn": conn, "status_at_send": getattr(conn.status, "value", None) if conn is not None else None}
        if assume_open:
            rec["status_at_send"] = 2        # sent from inside the connect callback that reported success
        cb = None
        if with_cb:
            def cb(value, _rec=rec):
                if _rec["id"]:
                    peer_has = bool(self.deliveries.get(_rec["id"])) or _rec["id"] in self.endpoint_accepted
                else:
                    peer_has = _rec.get("delivered", 0) > 0 or (id(_rec["conn"]), _rec.get("msgseq_first")) in self.endpoint_accepted
                _rec["cb"].append((w.clock.now, value, peer_has))
                self.c.inc("callbacks")
                e = self.tap.ends.get(id(_rec["conn"]))
                if e is not None:
                    e.callbacks_n += 1
                if extra_cb is not None:
                    extra_cb(value)
                if self.raising_callbacks and _rec["n"] % 5 == 2:
                    # an application callback that fails (after it has taken note of the result)
                    self.c.inc("callbacks_raised")
                    raise RuntimeError("seeded failure inside a send callback")
        if raw_cb is not None:
            cb = raw_cb
            rec["with_cb"] = False
            rec["raw_cb"] = True
        seq0 = int(conn.seq_message) if conn is not None else 0
        q0 = len(conn.outgoing_messages) if conn is not None else 0
        try:
            # the retry mode is given as the enum or as a plain int (both documented), alternating
            rv = RetryMode(int(retry)) if self.counter % 2 else int(retry)
            if side == "client":
                if api == "send_guaranteed":
                    endpoint.udp.send_guaranteed(payload, cb)
                else:
                    endpoint.udp.send(payload, retry=rv, callback=cb)
            else:
                if api == "send_guaranteed":
                    endpoint.send_guaranteed(payload, cb)
                else:
                    endpoint.send(payload, retry=rv, callback=cb)
        except Exception as ex:
            rec["refused"] = repr(ex)
            rec["queued_despite_raise"] = len(conn.outgoing_messages) - q0 if conn is not None else 0
            self.c.inc("send_raised")
        if not keep_payload and generated and pid is not None and fill in ("random", "zeros", "ff", "text"):
            rec["payload"] = Regen(sender, self.counter, len(payload), fill)      # nobody but the library holds the bytes now
            payload = None
        if conn is not None:
            seq1 = int(conn.seq_message)
            rec["nmsgs"] = ring_diff(seq1, seq0) if seq1 != seq0 else 0
            rec["msgseq_first"] = ring(seq0 + 1) if rec["nmsgs"] else None
            rec["fragmented"] = rec["nmsgs"] > 1         # decided by the MTU in force at send() time
            rec["frag_id"] = int(conn.seq_fragment) if rec["nmsgs"] > 1 else None
        if pid is not None:
            self.sends[pid] = rec
        else:
            self.small_sent.inc((side, payload))
            rec["small"] = True
            self.sends[("small", self.counter)] = rec
            if rec.get("nmsgs") == 1:
                self.small_by_seq[(id(conn), rec["msgseq_first"])] = rec
        self.c.inc("app_sends")
        self.c.inc("app_sends_%s_retry%d" % (side, int(retry)))
        return rec

    def _sender_conn(self, side, endpoint):
        """the connection object at the other end of the endpoint that received a message"""
        if side == "server":
            cl = self.world.clients_by_addr.get(endpoint.addr)
            return cl.udp.conn if cl is not None else None
        return self.tap.server_by_addr.get(endpoint.addr)

    def _small(self, length):
        # values for payloads too short to carry an id: made distinct while the space allows
        self._small_n = getattr(self, "_small_n", 0) + 1
        if length == 0:
            return b""
        return (self._small_n % (256 ** length)).to_bytes(length, "big")

    def on_deliver(self, side, endpoint, seqnum, payload):
        w = self.world
        payload = bytes(payload)
        pid = payload_id(payload)
        conn = endpoint.udp.conn if side == "client" else endpoint
        e = self.tap.ends.get(id(conn))
        if e is not None:
            e.delivered_n += 1
        sender_side = "server" if side == "client" else "client"
        if pid is None:
            # too short to carry an id: identified by (sending connection, message sequence number) - a label read
            # from the sender at send() time - and compared byte for byte
            sender = self._sender_conn(side, endpoint)
            rec = self.small_by_seq.get((id(sender), int(seqnum))) if sender is not None else None
            if rec is None or payload_of(rec) != payload:
                if len(payload) >= ID_LEN or rec is None:
                    self.report("C06", "fabricated-message", "a message that was never sent was delivered to the %s application: %s (message seq %d)" % (
                        side, short(payload), int(seqnum)), {"payload": short(payload, 64)})
                else:
                    self.report("C06", "message-corrupted", "short message seq %d delivered as %s, sent as %s" % (
                        int(seqnum), short(payload), short(payload_of(rec))))
                return
            rec["delivered"] = rec.get("delivered", 0) + 1
            self.small_delivered.inc((sender_side, payload))
            if rec["delivered"] > 1:
                self.c.inc("double_deliveries")
                mech_s = self.classify_double(conn, seqnum)
                k_acc = (id(conn), (id(sender), int(seqnum)))
                if k_acc in self.double_at_accept:
                    mech_s = self.double_at_accept[k_acc]          # the verdict of the moment of acceptance
                if mech_s is None:
                    self._window_miss(conn, seqnum)
                self.report("C04", mech_s or "delivered-twice",
                            "short message %s (message seq %d, retry %d) delivered %d times to the %s application" % (
                                short(payload), int(seqnum), rec["retry"], rec["delivered"], side))
            return
        rec = self.sends.get(pid)
        if rec is None or rec["side"] != sender_side:
            self.report("C06", "fabricated-message", "delivered payload carries an id nobody sent: %r" % (pid,), {"payload": short(payload, 64)})
            return
        if payload != payload_of(rec):
            self.report("C06", self._classify_corruption(rec, payload),
                        "message %r (%d bytes, retry %d) delivered with different bytes: got %d bytes, first difference at %s" % (
                            pid, rec["len"], rec["retry"], len(payload), _first_diff(payload, payload_of(rec))),
                        {"len": rec["len"], "retry": rec["retry"]})
        lst = self.deliveries.setdefault(pid, [])
        lst.append((w.clock.now, side, int(seqnum)))
        if len(lst) > 1:
            self.c.inc("double_deliveries")
            self.double_delivery(rec, lst, conn)

    # classification hooks (set by the property modules)
    def _note_late(self, e):
        """message seqs that were processed although they were > 256 behind the receiver's newest at their turn (fresh genuine
        datagram): the only way the open finding F2 can deliver something twice"""
        ctx = getattr(e, "last_recv", None)
        if not ctx or not ctx["genuine"] or ctx["again"] or not ctx["msg_top"]:
            return
        late = getattr(e, "late_msgs", None)
        if late is None:
            late = e.late_msgs = set()
        top = ctx["msg_top"]
        for s_ in ctx["msgseqs"]:
            d = ring_diff(top, s_)
            if d > 256:
                late.add(int(s_))
            if d < 0:
                top = s_

    def recv_judged(self, e):
        self._note_late(e)
        for seq, key, cid in getattr(self, "_accepted_again", []):
            if cid == id(e.conn):
                rec = self.sends.get(key) if not (isinstance(key, tuple) and len(key) == 2 and isinstance(key[0], int) and key[0] > 255) else None
                self.double_at_accept[(cid, key)] = self.classify_double(e.conn, seq, rec)
        self._accepted_again = []

    def classify_double(self, conn, seqnum=None, rec=None):
        """known mechanism (finding): the second delivery arrived in a FRESH datagram built by the honest sender
        (a retransmission, not a replayed/duplicated datagram) carrying a message whose sequence number was more
        than 256 behind the receiver's newest - outside the duplicate-message window"""
        e = self.tap.ends.get(id(conn))
        ctx = getattr(e, "last_recv", None) if e is not None else None
        if ctx and ctx["genuine"] and not ctx["again"] and ctx["msg_top"]:
            # the window moves while the messages of one datagram are processed in order
            top = ctx["msg_top"]
            behind = {}
            for s in ctx["msgseqs"]:
                d = ring_diff(top, s)
                # (one datagram can carry several copies of a re-queued message: the worst position counts)
                behind[s] = max(behind.get(s, d), d)
                if d < 0:
                    top = s
            if seqnum is not None and int(seqnum) in behind:
                if behind[int(seqnum)] > 256:
                    return "retransmission-older-than-message-window"
            elif any(d > 256 for d in behind.values()):
                # the completing fragment of a fragmented message.  F2 re-delivers a fragmented message only if EVERY one of its
                # fragments arrived again beyond the window (a fresh reassembly context is filled from nothing); a second
                # delivery after fewer is something else
                self._note_late(e)
                if rec is not None and rec.get("nmsgs") and rec.get("msgseq_first"):
                    need = {(rec["msgseq_first"] - 1 + k) % 65535 + 1 for k in range(rec["nmsgs"])}
                    if not need <= getattr(e, "late_msgs", set()):
                        return None
                return "retransmission-older-than-message-window"
        return None

    def _window_miss(self, conn, seqnum):
        """C08: a message whose sequence number is still inside the receiver's 256-message window was handed over again,
        i.e. it was not flagged duplicate although it had been received inside the window"""
        e = self.tap.ends.get(id(conn))
        ctx = getattr(e, "last_recv", None) if e is not None else None
        if ctx and ctx["msg_top"] and seqnum is not None and 0 <= ring_diff(ctx["msg_top"], int(seqnum)) < 256:
            self.report("C08", "message-duplicate-not-flagged", "message seq %d (window top %d at the start of the datagram) was received before and is inside the "
                        "256-message window, yet it was delivered again" % (int(seqnum), ctx["msg_top"]))

    def double_delivery(self, rec, lst, conn=None):
        mech = self.classify_double(conn, lst[-1][2], rec) if conn is not None else None
        if conn is not None and (id(conn), rec["id"]) in self.double_at_accept:
            mech = self.double_at_accept[(id(conn), rec["id"])]       # the verdict of the moment of acceptance
        if conn is not None and mech is None:
            self._window_miss(conn, lst[-1][2])
        self.report("C04", mech or "delivered-twice", lambda: "message %r (%d bytes, retry %d) delivered %d times to the %s application at t=%s" % (
            rec["id"], rec["len"], rec["retry"], len(lst), lst[-1][1], [round(x[0] - self.world.clock.now, 3) for x in lst[:10]]))

    def _classify_corruption(self, rec, payload):
        from mpgameserver.connection import Packet
        if rec.get("fragmented", rec["len"] > Packet.MAX_PAYLOAD_SIZE):
            return "fragmented-message-corrupted"
        return "message-corrupted"


def _first_diff(a, b):
    for i, (x, y) in enumerate(zip(a, b)):
        if x != y:
            return i
    return min(len(a), len(b))


# =========================================================================== wire-level monitors

class WireMonitor(object):
    """per emitted datagram: C03 (ciphertext under the key, nonce uniqueness, no plaintext),
    C08c (ack fields), C09 (MTU bound), bookkeeping of emissions for C07/C09 conservation"""

    def __init__(self, world, tap, report, check_nonce=True, check_acks=True):
        self.world = world
        self.tap = tap
        self.report = report
        self.c = world.counters
        self.check_acks = check_acks
        self.nonces = {}             # session key -> set of 12-byte nonces
        self.check_nonce = check_nonce
        self.msg_on_wire = {}        # (id(conn), msgseq) -> count of emissions
        self.observations = Counter()
        self.last_emit = {}
        tap.listeners.append(self)

    def emitted(self, e, direction, addr, datagram, dec, n):
        from mpgameserver.connection import Packet
        conn = e.conn
        key = conn.session_key_bytes
        w = self.world
        self.c.inc("wire_checked")
        # ---- C09 MTU
        if len(datagram) > Packet.MTU - 28:
            self.report("C09", "datagram-exceeds-mtu", "datagram of %d bytes handed to the socket, MTU-28 = %d" % (len(datagram), Packet.MTU - 28))
        # ---- C03
        if MAGIC in datagram:
            self.report("C03", "plaintext-on-wire", "application bytes appear in clear in a %s datagram (%s)" % (direction, PKT_NAMES.get(dec.ptype)))
        if not dec.ok:
            self.report("C03", "undecodable-emission", "monitor cannot open an emitted %s datagram: %s" % (direction, dec.error))
            return
        if key is not None:
            if dec.ptype == 2 and dec.count == 1 and dec.form == "crc":
                # the one exemption: the signed server hello - a datagram holding exactly that one message
                self.c.inc("wire_server_hello_clear")
            elif dec.ptype == 2 and dec.form != "gcm":
                self.report("C03", "cleartext-after-key", "a SERVER_HELLO-typed datagram with %d messages travels in clear: only the single signed hello is exempt" % dec.count)
            elif dec.form != "gcm":
                if dec.ptype == 1 and e.role == "client" and e.emit_last is None:
                    pass
                else:
                    self.report("C03", "cleartext-after-key", "%s datagram of type %s emitted in CRC form although the sender holds a session key" % (
                        direction, PKT_NAMES.get(dec.ptype)))
            else:
                self.c.inc("wire_gcm")
                if self.check_nonce:
                    s = self.nonces.setdefault(key, set())
                    nonce = datagram[:12]
                    if nonce in s:
                        self.report("C03", "nonce-reuse", "nonce %s used twice under one session key (%s, type %s, seq %d)" % (
                            nonce.hex(), direction, PKT_NAMES.get(dec.ptype), dec.seq))
                    s.add(nonce)
                    self.c.inc("nonces_recorded")
        else:
            if dec.ptype != 1:
                self.report("C03", "emission-without-key", "%s datagram of type %s emitted by an endpoint without a key" % (direction, PKT_NAMES.get(dec.ptype)))
        # structural regularities: observations only
        if e.emit_last is not None and ring_diff(dec.seq, ring(e.emit_last)) != 1:
            self.observations.inc("seq_step_not_plus_one")
        if dec.ctime != int(w.clock.now):
            self.observations.inc("header_time_not_int_now")
        if dec.seq == 0:
            self.report("C08", "seq-zero", "datagram emitted with sequence number 0")
        # ---- emission bookkeeping
        u = e.unwrap_own(dec.seq)
        if u in e.emitted:
            self.report("C08", "sequence-number-reused", "sequence number %d emitted twice by the same endpoint" % dec.seq)
        e.emitted[u] = {"t": w.clock.now, "seq": dec.seq, "msgs": [(s, t, len(p)) for s, t, p in dec.msgs], "resolved": None,
                        "ptype": dec.ptype}
        e.pending.add(u)
        if e.emit_last is None or u > e.emit_last:
            e.emit_last = u
        for s, t, p in dec.msgs:
            self.msg_on_wire[(id(conn), s)] = self.msg_on_wire.get((id(conn), s), 0) + 1
        # ---- C08c ack fields
        if not self.check_acks:
            return
        self.c.inc("wire_datagrams_checked")
        if e.acc_top is None:
            if dec.ack != 0 or dec.ack_bits != 0:
                self.report("C08", "ack-before-receipt", "ack=%d bits=%08x emitted before anything was accepted" % (dec.ack, dec.ack_bits))
        else:
            want_ack = ring(e.acc_top)
            want_bits = 0
            for d in range(1, 33):
                if (e.acc_top - d) in e.acc:
                    want_bits |= 0x80000000 >> (d - 1)
            if dec.ack != want_ack or dec.ack_bits != want_bits:
                self.report("C08", "ack-fields-wrong", "emitted ack=%d bits=%08x, accepted record says ack=%d bits=%08x" % (
                    dec.ack, dec.ack_bits, want_ack, want_bits))
            if want_bits:
                self.c.inc("wire_ackbits_nonzero")
        if len(e.emitted) > 4096:
            for k in sorted(e.emitted)[:1024]:
                if e.emitted[k]["resolved"] is not None or k < e.emit_last - 40000:
                    del e.emitted[k]


class RecvMonitor(object):
    """around every _recv_datagram: acceptance record (C08c), duplicate verdicts (C04/C08),
    authenticity and state effect (C01), ack naming for the resolution model (C07)"""

    def __init__(self, world, tap, report, authentic=None):
        self.world = world
        self.tap = tap
        self.report = report
        self.c = world.counters
        self.authentic = authentic       # fn(end, datagram) -> matching genuine datagram or None
        self.before = None
        self.resolution = None           # ResolutionMonitor, set by it
        tap.listeners.append(self)

    def message_verdict(self, e, seq, ptype, top, behind, seen_before, processed):
        """C08 at message level: inside the 256-window a message is dropped as a duplicate exactly when it was processed before"""
        self.c.inc("message_verdicts")
        if getattr(e, "verdicts_now", None) is not None:
            e.verdicts_now.append(seq)
        if not processed and not seen_before and behind < 256:
            self.report("C08", "message-false-duplicate", "message seq %d (type %d) was dropped as a duplicate although it was never received before; it is %s the 256-message window (top %d)" % (
                seq, ptype, ("%d behind the top of" % behind) if behind >= 0 else "ahead of", top))
        elif processed and seen_before and 0 <= behind < 256:
            self.report("C08", "message-duplicate-not-flagged", "message seq %d (type %d) was processed again although it was received before and is %d behind the top of the 256-message window" % (
                seq, ptype, behind))
        elif not processed:
            self.c.inc("message_duplicates_flagged")

    def before_recv(self, e, datagram):
        conn = e.conn
        e.verdicts_now = []
        e.last_recv = {"origin": self.world.origins.get(datagram, "network"), "msg_top": int(conn.bitfield_msg.current_seqnum),
                       "again": False, "genuine": False, "msgseqs": []}
        self.before = (snapshot(conn, (e.delivered_n, e.callbacks_n)), conn.stats.dropped)
        self.dec = decode_datagram(datagram, conn.session_key_bytes)
        self.key_before = conn.session_key_bytes

    def after_recv(self, e, datagram, res):
        conn = e.conn
        snap0, dropped0 = self.before
        snap1 = snapshot(conn, (e.delivered_n, e.callbacks_n))
        dec = self.dec
        G = self.tap.genuine_for(e, self.key_before, datagram)
        if G is None:
            # not produced by the honest peer for this session: C01 territory
            self.c.inc("recv_forged")
            self.tap.fan("forged_recv", e, datagram, res, snap0, snap1, dropped0, dec, self.key_before)
            return
        if len(G) != len(datagram):
            self.c.inc("recv_genuine_extended")
            dec = decode_datagram(G, self.key_before)
        if not dec.ok:
            self.c.inc("recv_genuine_undecodable")
            return
        self.c.inc("recv_genuine")
        e.last_recv["genuine"] = True
        e.last_recv["msgseqs"] = [m[0] for m in dec.msgs]
        e.last_recv["again"] = bool(res) and (e.unwrap_peer(dec.seq) in e.acc)
        if res:
            self.tap.fan("recv_judged", e)
            # every application message of an accepted datagram gets its own verdict: a message that was never looked at (the loop
            # over the datagram's messages ended early) is as good as flagged duplicate
            got_v = list(getattr(e, "verdicts_now", []) or [])
            seen = getattr(e, "msg_seen", set())
            still_open = getattr(conn.status, "value", 0) == 2
            for mseq, mtype, mpl in dec.msgs:
                if mtype in (6, 7):
                    if mseq in got_v:
                        got_v.remove(mseq)
                    elif still_open and mseq not in seen and e.last_recv["msg_top"] and ring_diff(e.last_recv["msg_top"], mseq) < 256:
                        self.report("C08", "message-false-duplicate", "message seq %d (type %d) of an accepted datagram with %d messages was never looked at although it was not received before" % (
                            mseq, mtype, len(dec.msgs)))
                        break
        if res and snap0 != snap1:
            self.c.inc("recv_genuine_changed_state")
        u = e.unwrap_peer(dec.seq)
        in_window = e.acc_top is not None and e.acc_top - 32 <= u <= e.acc_top
        was = u in e.acc
        if res:
            self.c.inc("recv_accepted")
            if was and in_window:
                self.report("C08", "duplicate-not-flagged", "datagram seq %d accepted although it was accepted before and is inside the 32-window" % dec.seq)
            if was:
                self.c.inc("recv_accepted_again")
                e.last_recv["again"] = True
                behind = e.acc_top - u
                self.report("C04", "old-datagram-accepted-again" if not in_window else "duplicate-accepted-inside-window",
                            "a copy of datagram seq %d that was accepted before (%d datagrams behind the newest, origin %s) was accepted again; changed %s" % (
                                dec.seq, behind, self.world.origins.get(datagram, "network"), snap_diff(snap0, snap1)),
                            {"behind": behind})
                self.tap.fan("accepted_again", e, datagram, dec, u, in_window, snap0, snap1)
            e.acc.add(u)
            if e.acc_top is None or u > e.acc_top:
                e.acc_top = u
            if len(e.acc) > 4096:
                lo = e.acc_top - 2048
                e.acc = {x for x in e.acc if x >= lo}
            self.tap.fan("accepted", e, dec, u)
        else:
            self.c.inc("recv_rejected")
            if not was and e.acc_top is not None and u < e.acc_top - 32:
                # never accepted, but older than the window: it can neither be checked nor acked; dropping it
                # whole is not a duplicate verdict (C08 is silent outside the window)
                self.c.inc("recv_rejected_older_than_window")
                if snap0 != snap1:
                    self.report("C04", "stale-datagram-has-effect", "datagram seq %d older than the window was rejected but changed %s" % (
                        dec.seq, snap_diff(snap0, snap1)))
            elif not was:
                self.report("C08", "false-duplicate", "genuine datagram seq %d (type %s) rejected although it was never accepted (window top %s)" % (
                    dec.seq, PKT_NAMES.get(dec.ptype), ring(e.acc_top) if e.acc_top else None))
            else:
                self.c.inc("wire_duplicates_presented")
                self.c.inc("duplicates_dropped")
                # C04: dropped whole - counted, no other effect
                if conn.stats.dropped != dropped0 + 1:
                    self.report("C04", "duplicate-not-counted", "duplicate datagram: stats.dropped went %d -> %d" % (dropped0, conn.stats.dropped))
                if snap0 != snap1:
                    self.report("C04", "duplicate-has-effect", "duplicate datagram seq %d changed %s" % (dec.seq, snap_diff(snap0, snap1)))


class ResolutionMonitor(object):
    """C07: reference resolution model.  A datagram named by an accepted inbound (ack, ack_bits)
    must be resolved 'acked' at that moment; one never named must time out within the window."""

    def __init__(self, world, tap, report, dt):
        self.world = world
        self.tap = tap
        self.report = report
        self.c = world.counters
        self.dt = dt
        self.in_recv = None
        self.named_now = None
        tap.listeners.append(self)
        world.tick_hooks.append(self.on_tick)

    def before_recv(self, e, datagram):
        self.in_recv = e
        self.resolved_in_recv = []

    def resolved(self, e, seq, kind):
        w = self.world
        u = e.unwrap_own(seq)
        rec = e.emitted.get(u)
        self.c.inc("resolved_" + kind)
        if rec is None:
            self.c.inc("resolved_unknown_emission")
            return
        if rec["resolved"] is not None:
            self.report("C07", "resolved-twice", "datagram seq %d resolved twice: %s then %s" % (seq, rec["resolved"][0], kind))
            return
        rec["resolved"] = (kind, w.clock.now)
        e.pending.discard(u)
        timeout = e.conn.outgoing_timeout
        age = w.clock.now - rec["t"]
        if kind == "timeout":
            if age < timeout - EPS:
                self.report("C07", "timeout-too-early", "datagram seq %d timed out after %.4fs, message timeout is %.3fs" % (seq, age, timeout))
            slack = e.conn.send_interval + 2 * self.dt * (1 + self.world.jitter) + EPS
            # (a half-open server-side connection is only looked after while the server loop runs: the idle loop sleeps until
            #  a datagram arrives - lateness is judged for connections the loop is driving)
            driven = e.role == "client" or w.ctxt.connections.get(getattr(e.conn, "addr", None)) is e.conn
            # (an update() that ends in an OSError from sendto() skips its look at the timeouts: one frame of lateness per fault)
            if driven and e.role == "client" and any(cl.udp.conn is e.conn and cl.sock.fail_rate for cl in w.clients):
                slack += 4 * self.dt * (1 + self.world.jitter)
            if age > timeout + slack and not rec.get("named") and driven:
                # late detection is only judged at the tick hook (outages of ticks do not exist here)
                self.report("C07", "timeout-too-late", "datagram seq %d timed out after %.4fs (> %.3f + %.4f)" % (seq, age, timeout, slack))
            if rec.get("named"):
                self.report("C07", "acked-datagram-timed-out", "datagram seq %d was named by an accepted ack field at t-%.3f but resolved as timed out" % (
                    seq, w.clock.now - rec["named"]))
        else:
            if self.in_recv is not e:
                self.report("C07", "ack-outside-receive", "datagram seq %d resolved acked outside the processing of an inbound datagram" % seq)
            else:
                self.resolved_in_recv.append(u)

    def accepted(self, e, dec, u_peer):
        """an inbound datagram was accepted by e: which of e's pending datagrams does it name?"""
        w = self.world
        if e.closed or getattr(e.conn.status, "value", 0) in (4, 5):
            # the application closed this end (disconnect() abandons everything pending): C07 speaks of open connections
            e.pending.clear()
            self.c.inc("acks_after_close_not_judged")
            return
        named = set()
        top = e.unwrap_own(dec.ack) if dec.ack != 0 else None
        if top is not None:
            named.add(top)
            for d in range(1, 33):
                if dec.ack_bits & (0x80000000 >> (d - 1)):
                    named.add(top - d)
        self.named_now = named
        acked_now = set(self.resolved_in_recv)
        for u in list(e.pending):
            rec = e.emitted.get(u)
            if rec is None:
                continue
            if u in named:
                rec["named"] = w.clock.now
                # must have been resolved acked during this very receive
                self.report("C07", "named-datagram-not-acked", "datagram seq %d is named by the accepted ack field (ack=%d bits=%08x) but stays pending" % (
                    rec["seq"], dec.ack, dec.ack_bits))
        for u in acked_now:
            if u not in named:
                rec = e.emitted.get(u)
                self.report("C07", "ack-without-naming", "datagram seq %s resolved acked but the accepted datagram's ack field (ack=%d bits=%08x) does not name it" % (
                    rec and rec["seq"], dec.ack, dec.ack_bits))
            else:
                self.c.inc("acks_matched_model")

    def forged_recv(self, e, datagram, res, snap0, snap1, dropped0, dec, key0):
        if self.resolved_in_recv:
            self.report("C07", "forged-ack-resolved-send", "a datagram that is not from the honest peer resolved %d pending datagrams (%s)" % (
                len(self.resolved_in_recv), self.world.origins.get(datagram, "?")))

    def after_recv(self, e, datagram, res):
        if not res and self.resolved_in_recv:
            self.report("C07", "ack-from-rejected-datagram", "a rejected datagram resolved %d pending datagrams" % len(self.resolved_in_recv))
        self.in_recv = None

    def on_tick(self, world):
        # pending too long?  (only while the connection is open and being driven)
        for e in self.tap.ends.values():
            conn = e.conn
            if e.closed or getattr(conn.status, "value", 0) != 2:
                continue
            st = conn.stats
            if st.assembled != st.acked + st.timeouts + len(conn.pending_acks):
                if not getattr(e, "_acct_reported", False):
                    e._acct_reported = True
                    self.report("C07", "resolution-accounting", "assembled %d != acked %d + timeouts %d + pending %d" % (
                        st.assembled, st.acked, st.timeouts, len(conn.pending_acks)))
            if not e.pending:
                continue
            driven = e.role == "server" and world.ctxt.connections.get(conn.addr) is conn or (e.role == "client" and getattr(e, "driven", True))
            if not driven:
                continue
            limit = conn.outgoing_timeout + conn.send_interval + 3 * self.dt * (1 + world.jitter) + EPS
            for u in list(e.pending):
                rec = e.emitted.get(u)
                if rec is None:
                    e.pending.discard(u)
                    continue
                if world.clock.now - rec["t"] > limit:
                    e.pending.discard(u)
                    self.report("C07", "never-resolved", "datagram seq %d emitted %.3fs ago is neither acked nor timed out (timeout %.3f)" % (
                        rec["seq"], world.clock.now - rec["t"], conn.outgoing_timeout))


class BuildMonitor(object):
    """C09: first-fit maximality and no raise in packet construction / encoding; codec round trip"""

    def __init__(self, world, tap, report):
        self.world = world
        self.tap = tap
        self.report = report
        self.c = world.counters
        tap.listeners.append(self)

    def build_raised(self, e, before, ex):
        self.report("C09", "build-raised", "_build_packet raised %r with %d messages queued" % (ex, len(before)))

    def built(self, e, before, pkt):
        from mpgameserver.connection import Packet
        cap0 = Packet.MTU - 28 - 20 - 16
        for m in before:
            if len(m.payload) + 2 > cap0:
                if not getattr(e, "_unsendable_reported", False):
                    e._unsendable_reported = True
                    self.report("C09", "queued-message-can-never-fit", "a protocol message of %d bytes (type %s) sits in the send queue but the datagram capacity at MTU %d is %d" % (
                        len(m.payload), m.type, Packet.MTU, cap0 - 2), {"len": len(m.payload)})
        if pkt is None:
            return
        self.c.inc("packets_built")
        conn = e.conn
        n = len(pkt.msgs)
        cap = Packet.MTU - 28 - 20 - 16
        used = sum(len(m.payload) for m in pkt.msgs)
        if n > 255:
            self.report("C09", "more-than-255-messages", "%d messages packed into one datagram (the count field is one byte)" % n)
        total = used + (0 if n == 0 else 2 if n == 1 else 5 * n)
        if total > cap:
            self.report("C09", "payload-exceeds-capacity", "packed payload of %d bytes exceeds the capacity %d" % (total, cap))
        waiting = conn.outgoing_messages
        if waiting and n < 255:
            still = set(id(m) for m in waiting)
            for m in before:
                if id(m) in still:
                    need = used + len(m.payload) + (2 if n + 1 == 1 else 5 * (n + 1))
                    if need <= cap:
                        self.report("C09", "packer-leaves-fitting-message",
                                    "message of %d bytes left waiting although the datagram (%d messages, %d payload bytes) had room: %d <= %d" % (
                                        len(m.payload), n, used, need, cap), {"len": len(m.payload), "n": n, "used": used})
                        break
            self.c.inc("maximality_checked")

    def encode_raised(self, pkt, key, ex):
        self.report("C09", "encode-raised", "Packet.to_bytes raised %r for a packet with %d messages" % (ex, len(pkt.msgs)))

    def encoded(self, pkt, key, out):
        import mpgameserver.connection as C
        self.c.inc("packets_encoded")
        hdr = pkt.hdr
        # decode with the real decoder and with the monitor's own; both must agree with what went in
        try:
            is_server_receiver = not hdr.isServer
            h2 = C.PacketHeader.from_bytes(is_server_receiver, out)
            use_key = key if (key and hdr.pkt_type != C.PacketType.SERVER_HELLO) else None
            p2 = self.tap._orig_from_bytes(h2, use_key, out) if hasattr(self.tap, "_orig_from_bytes") else C.Packet.from_bytes(h2, use_key, out)
        except Exception as ex:
            self.report("C09", "roundtrip-raised", "decoding an encoded %s packet raised %r" % (hdr.pkt_type, ex))
            return
        want = [(int(m.seq), m.type.value if len(pkt.msgs) > 1 else hdr.pkt_type.value, bytes(m.payload)) for m in pkt.msgs]
        got = [(int(m.seq), m.type.value, bytes(m.payload)) for m in p2.msgs]
        if got != want or (h2.seq, h2.ack, h2.ack_bits, h2.ctime, h2.pkt_type.value, h2.count, h2.length) != (
                hdr.seq, hdr.ack, hdr.ack_bits, hdr.ctime, hdr.pkt_type.value, len(pkt.msgs), len(pkt.msg)):
            self.report("C09", "roundtrip-differs", "packet %s with %d messages does not decode to itself" % (hdr.pkt_type, len(pkt.msgs)))
        dec = decode_datagram(out, use_key)
        if not dec.ok or [(s, t, p) for s, t, p in dec.msgs] != want or dec.length != len(pkt.msg) or dec.count != len(pkt.msgs):
            self.report("C09", "wire-format-differs", "independent decoder disagrees with the encoder for %s with %d messages: %s" % (
                hdr.pkt_type, len(pkt.msgs), dec.error))
        self.c.inc("roundtrips_checked")


class AuthMonitor(object):
    """C01: a datagram that was not produced by the honest peer under this session's key must leave the
    endpoint's semantic snapshot unchanged (stats.dropped may rise).  Before a key exists only the single
    handshake hello of the kind the role expects may be processed, and never an application message."""

    def __init__(self, world, tap, report):
        self.world = world
        self.tap = tap
        self.report = report
        self.c = world.counters
        self.by_class = Counter()
        self.effects = Counter()
        tap.listeners.append(self)

    def forged_recv(self, e, datagram, res, snap0, snap1, dropped0, dec, key0):
        origin = self.world.origins.get(datagram, "unlabelled")
        cls = origin.split("@")[0]
        phase = self.world.phase
        self.by_class.inc("%s|%s|%s" % (e.role, "keyed" if key0 is not None else "prekey", cls))
        self.c.inc("c01_forged_reached_recv")
        if key0 is not None:
            self.c.inc("c01_forged_keyed")
            if snap0 != snap1 or res:
                changed = snap_diff(snap0, snap1)
                mech = classify_c01(dec, changed, key0, e.role)
                self.effects.inc(mech)
                self.report("C01", mech, "%s endpoint holding a key: a %s datagram (%s, monitor decode: form=%s type=%s count=%s) was %s and changed %s" % (
                    e.role, origin, "phase " + str(phase), dec.form, PKT_NAMES.get(dec.ptype), dec.count,
                    "accepted" if res else "rejected", changed), {"origin": origin, "role": e.role, "phase": phase})
            return
        # ---- before a key exists
        self.c.inc("c01_forged_prekey")
        expected = 1 if e.role == "server" else 2
        is_hello = dec.ok and dec.form == "crc" and dec.count == 1 and dec.ptype == expected
        delivered_changed = snap0[0] != snap1[0] or snap0[-2] != snap1[-2]
        if delivered_changed:
            self.effects.inc("prekey-application-message-delivered")
            self.report("C01", "prekey-application-message-delivered",
                        "%s endpoint without a key queued/delivered an application message from an unencrypted %s datagram (type=%s count=%s)" % (
                            e.role, origin, PKT_NAMES.get(dec.ptype), dec.count), {"origin": origin, "role": e.role, "phase": phase})
            return
        if is_hello:
            self.c.inc("c01_prekey_hello_not_judged")      # anyone may say hello; whether it is accepted is C02's business
            return
        if snap0 != snap1 or res:
            changed = snap_diff(snap0, snap1)
            self.effects.inc("prekey-non-hello-processed")
            self.report("C01", "prekey-non-hello-processed",
                        "%s endpoint without a key processed a %s datagram that is not the single hello it expects (type=%s count=%s form=%s): %s changed %s" % (
                            e.role, origin, PKT_NAMES.get(dec.ptype), dec.count, dec.form, "accepted" if res else "rejected", changed),
                        {"origin": origin, "role": e.role, "phase": phase})


def classify_c01(dec, changed, key0, role):
    """mechanism label from the structure of the witness"""
    if dec.ok and dec.form == "crc" and dec.ptype in (1, 2):
        return "hello-typed-plaintext-accepted-on-keyed-connection"
    if dec.ok and dec.form == "crc":
        return "plaintext-accepted-on-keyed-connection"
    return "unauthenticated-datagram-has-effect"
