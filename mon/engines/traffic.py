"""Traffic scenarios on the lockstep engine with all monitors attached.  Used by
C04, C05, C06, C07, C08 (wire part) and C09: one scenario run yields violations
tagged per property; each property module keeps its own."""
import random

from mon.core.util import Counter, h64, short
from mon.engines import lockstep as L
from mon.engines.monitors import (Tap, Reporter, AppTracker, WireMonitor, RecvMonitor, ResolutionMonitor, BuildMonitor, EPS)
from mon.engines.hooks import BitFieldMonitor

HORIZON = 45.0       # virtual seconds after the network heals (C05 bounded-progress form; ~40 retry rounds)


class Run(object):
    """a World with every monitor installed"""

    def __init__(self, rng, mtu=1500, dt=1 / 60, jitter=0.0, ctxt_setup=None, nclients=1, bitfield=True, check_nonce=True,
                 keep_wire=False, blocklist=None, light=False, blocklist_after_construction=False):
        import mpgameserver.connection as C
        self.C = C
        self.rng = rng
        self.mtu = mtu
        C.Packet.setMTU(mtu)
        self.report = Reporter()
        self.world = L.World(rng, dt=dt, jitter=jitter, ctxt_setup=ctxt_setup, blocklist=blocklist,
                             blocklist_after_construction=blocklist_after_construction)
        self.world.keep_wire = keep_wire
        self.c = self.world.counters
        self.tap = Tap(self.world).install()
        self.app = AppTracker(self.world, self.tap, self.report)
        if light:
            # volume runs (C03): only the wire monitor; no per-receive snapshots, no genuine registry
            self.tap.keep_genuine = False
            self.recvmon = self.resmon = self.buildmon = None
            bitfield = False
        else:
            self.recvmon = RecvMonitor(self.world, self.tap, self.report)
            self.resmon = ResolutionMonitor(self.world, self.tap, self.report, dt)
        self.wiremon = WireMonitor(self.world, self.tap, self.report, check_nonce=check_nonce, check_acks=not light)
        if not light:
            self.buildmon = BuildMonitor(self.world, self.tap, self.report)
        self.bfmon = None
        if bitfield:
            self.bfmon = BitFieldMonitor(lambda mech, msg: self.report("C08", mech, msg), self.c, sweep_every=0).install()
        self.closed = False
        self.void = []               # reasons why liveness obligations are void (connection legitimately closed)
        self.world.start()

    def close(self):
        if self.closed:
            return
        self.closed = True
        try:
            self.world.stop()
        finally:
            self.tap.uninstall()
            if self.bfmon:
                self.bfmon.uninstall()
            self.C.Packet.setMTU(1500)

    def __enter__(self):
        return self

    def __exit__(self, *a):
        self.close()

    # --- helpers
    def sconn(self, c):
        return self.world.ctxt.connections.get(c.addr)

    def open(self, c):
        """is the connection of client c open at both ends?"""
        sc = self.sconn(c)
        return (c.udp.conn is not None and getattr(c.udp.conn.status, "value", 0) == 2 and sc is not None
                and getattr(sc.status, "value", 0) == 2)

    def quiescent(self, c):
        sc = self.sconn(c)
        conns = [c.udp.conn] + ([sc] if sc is not None else [])
        for conn in conns:
            if conn.outgoing_messages or conn.pending_retry_msg or conn.pending_callbacks:
                return False
        return True

    def settle(self, clients, min_ticks=30, horizon=HORIZON):
        """healed network: run until every connection is quiescent for min_ticks, or the horizon"""
        w = self.world
        t_heal = w.clock.now
        calm = 0
        n = 0
        # per client: did it ever empty its socket during the healed period, how far behind the server's newest datagram is
        # it, did any acknowledgement still arrive in time (see receiver_livelock below)
        self.backlog_trace = trace = {id(c): {"min_backlog": None, "lags": [], "acked": []} for c in clients}
        while w.clock.now - t_heal < horizon:
            w.step()
            n += 1
            for c in clients:
                tr = trace[id(c)]
                b = len(c.sock.fifo)
                if w.clock.now - t_heal > 2.0:
                    tr["min_backlog"] = b if tr["min_backlog"] is None else min(tr["min_backlog"], b)
                if n % 30 == 0:
                    sc, cc = self.sconn(c), c.udp.conn
                    if sc is not None and cc is not None:
                        from mon.models.ring import ring_diff
                        period = w.dt / max(1, getattr(c, "updates_per_step", 1))
                        tr["lags"].append((w.clock.now - t_heal, ring_diff(int(sc.seq_sending), int(cc.bitfield_pkt.current_seqnum)) * period, sc.outgoing_timeout))
                        tr["acked"].append((w.clock.now - t_heal, sc.stats.acked, cc.stats.acked))
            if all(self.quiescent(c) for c in clients):
                calm += 1
                if calm >= min_ticks:
                    return w.clock.now - t_heal
            else:
                calm = 0
            if n % 120 == 0 and w.clock.now - t_heal > 20.0:
                # not quiescent after 20 s: if every guaranteed message is already delivered, the rest of the
                # horizon cannot change a delivery verdict (the run stays 'not quiescent'); saves wall-clock in
                # the livelock where the client reads one datagram per update() and never catches up
                if all(self.app.deliveries.get(pid) for pid, rec in self.app.sends.items()
                       if rec["retry"] == -1 and not rec.get("small") and rec["refused"] is None and rec["status_at_send"] == 2):
                    self.c.inc("settle_stopped_early_all_delivered")
                    return None
        return None


def sizes_for(C, r, tier, how="boundary"):
    """payload lengths: 0-3, around the single-datagram limit, around multiples of the fragment
    size, lengths whose last fragment is near the datagram capacity, random up to 64 KiB"""
    P = C.Packet
    maxp, frag = P.MAX_PAYLOAD_SIZE, P.MAX_FRAGMENT_SIZE
    out = [0, 1, 2, 3, 11, 16, 17]
    out += list(range(maxp - 12, maxp + 13))
    for k in (1, 2, 3):
        out += list(range(k * frag - 12, k * frag + 13))
    tail_edge = maxp - P.FRAGMENT_OVERHEAD            # the last fragment may grow up to here
    for k in (1, 2):
        out += list(range(k * frag + tail_edge - 12 - frag if k > 1 else tail_edge - 12, (k - 1) * frag + tail_edge + 13))
        out += [k * frag + d for d in range(tail_edge - frag - 12, tail_edge - frag + 13) if k * frag + d > maxp]
    out = sorted({x for x in out if x >= 0})
    return out


def random_size(C, r, big=0.02, limit=20000):
    P = C.Packet
    maxp, frag = P.MAX_PAYLOAD_SIZE, P.MAX_FRAGMENT_SIZE
    x = r.random()
    if x < 0.25:
        return r.choice([0, 1, 2, 3, 11, 12, 16, 17, 32, 64])
    if x < 0.45:
        return r.randint(0, 300)
    if x < 0.6:
        return maxp + r.randint(-12, 12)
    if x < 0.75:
        return r.choice([1, 2, 3]) * frag + r.randint(-12, 12)
    if x < 0.85:
        return r.randint(maxp + 1, 6 * frag)
    if x < 1 - big:
        return r.randint(0, maxp)
    return r.randint(6 * frag, limit)


NET_PROFILES = {
    "clean": dict(loss=0.0, dup=0.0, delay=(0.004, 0.004)),
    "lossy": dict(loss=0.25, dup=0.0, delay=(0.002, 0.03)),
    "dup": dict(loss=0.0, dup=0.5, delay=(0.002, 0.05)),
    "reorder": dict(loss=0.02, dup=0.1, delay=(0.002, 0.02), reorder=0.4, reorder_extra=(0.02, 0.4)),
    "slow": dict(loss=0.05, dup=0.05, delay=(0.12, 0.35)),                 # round trip > resend interval (0.1 s)
    "very-slow": dict(loss=0.0, dup=0.1, delay=(0.55, 0.75)),               # round trip > message timeout (1 s)
    "acks-lost": dict(),                                                    # set per direction below
    "hostile": dict(loss=0.3, dup=0.4, delay=(0.0, 0.2), reorder=0.5, reorder_extra=(0.0, 1.5)),
}


def set_profile(net, name, r):
    if name == "acks-lost":
        # data gets through one way, (almost) nothing comes back
        a, b = L.Policy(loss=0.02, delay=(0.005, 0.02)), L.Policy(loss=0.85, delay=(0.005, 0.02))
        if r.random() < 0.5:
            a, b = b, a
        net.set(c2s=a, s2c=b)
    else:
        net.set(c2s=L.Policy(**NET_PROFILES[name]), s2c=L.Policy(**NET_PROFILES[name]))


def final_checks(run, clients, healed_for, horizon=HORIZON):
    """C05 / C07 end-of-run obligations and C09 conservation"""
    app, rep, w = run.app, run.report, run.world
    from mpgameserver.connection import Packet
    c = run.c
    for cl in clients:
        if not run.open(cl):
            run.void.append("connection of %s not open at the end" % (cl.addr,))
    open_addrs = {id(cl.udp.conn) for cl in clients if run.open(cl)} | {id(run.sconn(cl)) for cl in clients if run.open(cl)}
    for pid, rec in app.sends.items():
        conn = rec["conn"]
        guaranteed = rec["retry"] == -1
        delivered = rec.get("delivered", 0) if rec.get("small") else len(app.deliveries.get(pid, []))
        if rec["refused"] is not None:
            if rec.get("expect_refusal"):
                c.inc("refusals_expected")
                if rec.get("queued_despite_raise"):
                    rep("C06", "oversize-partially-queued", "send() of %d bytes raised but queued %d messages" % (rec["len"], rec["queued_despite_raise"]))
                continue
            rep("C05" if guaranteed else "C09", "send-api-raised:%s" % rec["api"],
                "%s %s(len=%d, retry=%d) raised %s" % (rec["side"], rec["api"], rec["len"], rec["retry"], rec["refused"]),
                {"api": rec["api"], "side": rec["side"], "len": rec["len"]})
            continue
        if rec.get("expect_refusal"):
            rep("C06", "oversize-accepted", "send() of %d bytes (above the fragmentation limit) did not raise" % rec["len"])
        if rec["status_at_send"] != 2:
            continue
        alive = id(conn) in open_addrs
        if guaranteed:
            c.inc("guaranteed_sends")
            if delivered:
                c.inc("guaranteed_delivered")
            elif alive and healed_for is None:
                # horizon reached without quiescence, still undelivered
                rep("C05", stuck_or_livelock(run, rec, clients), "guaranteed message %r (%d bytes, api %s, from %s) undelivered %.0fs after the network healed; %s" % (
                    pid, rec["len"], rec["api"], rec["side"], horizon, where_stuck(run, rec)), {"len": rec["len"], "api": rec["api"], "mtu": run.mtu})
            elif alive:
                rep("C05", classify_stuck(run, rec), "guaranteed message %r (%d bytes, api %s, from %s) never delivered although the sender is quiescent; %s" % (
                    pid, rec["len"], rec["api"], rec["side"], where_stuck(run, rec)), {"len": rec["len"], "api": rec["api"], "mtu": run.mtu})
            else:
                c.inc("guaranteed_void_connection_closed")
        # ---- C07 callback counts
        if rec["with_cb"] and rec["retry"] in (0, -1):
            n = len(rec["cb"])
            fragmented = rec.get("fragmented", rec["len"] > Packet.MAX_PAYLOAD_SIZE)
            if n > 1:
                rep("C07", "callback-fired-%s" % ("repeatedly-guaranteed" if guaranteed else "repeatedly"),
                    "callback of a %s send (%d bytes%s) fired %d times: %s" % (
                        "guaranteed" if guaranteed else "retry-none", rec["len"], ", fragmented" if fragmented else "", n,
                        [(round(t - rec["t"], 3), v) for t, v, _ in rec["cb"][:8]]), {"len": rec["len"], "retry": rec["retry"]})
            elif n == 0 and alive and healed_for is None:
                if rec.get("nmsgs") and classify_stuck(run, rec) == "never-leaves-send-queue":
                    # not a question of acks or timing: a part of the message sits in the send queue and never reached the wire
                    rep("C07", "client-reads-one-datagram-per-update-livelock" if receiver_livelock(run, rec, clients) else "callback-never-fired-message-never-sent", "callback of a %s send (%d bytes) never fired %.0fs after the network healed: %s" % (
                        "guaranteed" if guaranteed else "retry-none", rec["len"], horizon, where_stuck(run, rec)), {"len": rec["len"], "retry": rec["retry"]})
                else:
                    c.inc("callbacks_unresolved_not_quiescent")
            elif n == 0 and alive:
                rep("C07", "callback-never-fired%s" % ("-fragmented" if fragmented else ""),
                    "callback of a %s send (%d bytes%s) never fired although the connection stayed open and the sender is quiescent" % (
                        "guaranteed" if guaranteed else "retry-none", rec["len"], ", fragmented" if fragmented else ""),
                    {"len": rec["len"], "retry": rec["retry"]})
            elif n == 1:
                c.inc("callbacks_exactly_once")
                if guaranteed and rec["cb"][0][1] is not True:
                    rep("C07", "guaranteed-callback-false", "callback of a guaranteed send fired with %r" % (rec["cb"][0][1],))
        # ---- C07 truthfulness
        for t, value, peer_has in rec["cb"]:
            if value is True:
                c.inc("callbacks_true")
                if not peer_has:
                    mech = "success-before-acceptance%s" % ("-fragmented" if rec.get("fragmented", rec["len"] > Packet.MAX_PAYLOAD_SIZE) else "")
                    if rec.get("fragmented", rec["len"] > Packet.MAX_PAYLOAD_SIZE) and not delivered and expired_signature(run, rec):
                        mech = "reassembly-context-expired-while-sender-retries"
                    rep("C07", mech,
                        "callback(True) for message %r (%d bytes) at t+%.3f but the peer application had not received it" % (
                            pid, rec["len"], t - rec["t"]), {"len": rec["len"], "retry": rec["retry"]})
            else:
                c.inc("callbacks_false")
                if t - rec["t"] < conn.outgoing_timeout - EPS:
                    rep("C07", "failure-before-timeout", "callback(False) %.3fs after send(), message timeout %.3f" % (t - rec["t"], conn.outgoing_timeout))
        # ---- C09 conservation: accepted by send() => on the wire or still queued
        if rec.get("nmsgs"):
            first = rec["msgseq_first"]
            missing = 0
            queued = {int(m.seq) for m in conn.outgoing_messages}
            for k in range(rec["nmsgs"]):
                s = (first - 1 + k) % 65535 + 1
                if (id(conn), s) not in run.wiremon.msg_on_wire and s not in queued:
                    missing += 1
            if missing and (alive or rec["t"] < w.clock.now - 5):
                if id(conn) in open_addrs:
                    rep("C09", "queued-message-lost", "%d of %d protocol messages of send(len=%d) are neither on the wire nor queued" % (
                        missing, rec["nmsgs"], rec["len"]), {"len": rec["len"]})
            else:
                c.inc("conservation_checked")


def receiver_livelock(run, rec, clients):
    """known mechanism (finding F3): UdpClient.update() reads ONE datagram per call.  Once a burst (a stalled link that flushes)
    leaves the client's socket with a backlog worth more than the server's message timeout, and the server keeps sending one
    datagram per client frame, the client never catches up: every acknowledgement it reads is older than the timeout, both
    ends resolve every datagram as timed out, retransmissions take precedence over fresh messages and the send queues grow for
    ever.  Signature, from the trace of the healed period: the client's socket was NEVER empty, its read lag was at least 90 %
    of the server's message timeout at every sample, and neither end saw a single datagram acknowledged in the second half."""
    tr = None
    for c in clients:
        if rec["conn"] is c.udp.conn or rec["conn"] is run.sconn(c):
            tr = getattr(run, "backlog_trace", {}).get(id(c))
    if not tr or not tr["min_backlog"] or len(tr["lags"]) < 10:
        return False
    if any(lag < 0.9 * timeout for t, lag, timeout in tr["lags"] if t > 3.0):
        return False
    half = [a for a in tr["acked"] if a[0] >= tr["acked"][-1][0] / 2]
    return len(half) >= 2 and half[0][1:] == half[-1][1:]


def stuck_or_livelock(run, rec, clients):
    mech = classify_stuck(run, rec)
    if mech != "reassembly-context-expired-while-sender-retries" and receiver_livelock(run, rec, clients):
        return "client-reads-one-datagram-per-update-livelock"
    return mech


def where_stuck(run, rec):
    conn = rec["conn"]
    first, n = rec.get("msgseq_first"), rec.get("nmsgs", 0)
    if not n:
        return "send() queued nothing"
    seqs = {(first - 1 + k) % 65535 + 1 for k in range(n)}
    queued = [int(m.seq) for m in conn.outgoing_messages if int(m.seq) in seqs]
    on_wire = [s for s in seqs if (id(conn), s) in run.wiremon.msg_on_wire]
    retry = [int(s) for s in conn.pending_retry_msg if int(s) in seqs]
    return "%d/%d protocol messages reached the wire, %d still in the send queue, %d awaiting resend" % (len(on_wire), n, len(queued), len(retry))


def classify_stuck(run, rec):
    """mechanism label for an undelivered guaranteed message, from where it is stuck"""
    from mpgameserver.connection import Packet
    conn = rec["conn"]
    first, n = rec.get("msgseq_first"), rec.get("nmsgs", 0)
    if not n:
        return "guaranteed-not-queued"
    seqs = {(first - 1 + k) % 65535 + 1 for k in range(n)}
    queued = [m for m in conn.outgoing_messages if int(m.seq) in seqs]
    on_wire = [s for s in seqs if (id(conn), s) in run.wiremon.msg_on_wire]
    if queued and len(on_wire) < n:
        return "never-leaves-send-queue"
    if rec.get("fragmented", rec["len"] > Packet.MAX_PAYLOAD_SIZE):
        if expired_signature(run, rec):
            return "reassembly-context-expired-while-sender-retries"
        return "fragmented-guaranteed-undelivered"
    return "guaranteed-undelivered"


def expired_signature(run, rec):
    """known mechanism (finding): EVERY fragment of the message reached the receiver with a proper header,
    but not within the lifetime of one reassembly context, because an incomplete context was purged by age
    while the sender was still retrying a lost fragment"""
    peer = peer_conn(run, rec)
    if peer is None or rec.get("frag_id") is None:
        return False
    if (id(peer), rec["frag_id"]) in run.tap.purged_before_store:
        # the context was thrown away while its own arriving fragment had not been stored yet: NOT the known
        # mechanism (the library stores first and purges afterwards, so a completing fragment always completes)
        return False
    exp = [x for x in run.tap.expired_contexts.get((id(peer), rec["frag_id"]), []) if x[0] >= rec["t"]]
    n_frag = rec["nmsgs"]
    got = set()
    for t, idx, count in exp:
        if count == n_frag:
            got |= set(idx)
    cur = peer.received_fragments.get(rec["frag_id"])
    if cur is not None and cur.frag_count == n_frag:
        got |= {i for i, f in enumerate(cur.fragments) if f is not None}
    return any(0 < len(idx) < count for t, idx, count in exp) and got == set(range(n_frag))


def peer_conn(run, rec):
    conn = rec["conn"]
    if rec["side"] == "client":
        return run.tap.server_by_addr.get(conn.addr) if False else _server_peer(run, conn)
    for cl in run.world.clients:
        if cl.udp.conn is not None and run.tap.server_by_addr.get(cl.addr) is conn:
            return cl.udp.conn
    return None


def _server_peer(run, client_conn):
    for cl in run.world.clients:
        if cl.udp.conn is client_conn:
            return run.tap.server_by_addr.get(cl.addr)
    return None


def storm(run, r, clients, ticks, rate, profile_seq, retry_modes=(0, 1, -1), apis=True, size_fn=None, fills=("random",),
          server_sends=True, per_tick_max=3, allow_best_effort_fragments=False):
    """seeded mixed traffic while the network profile changes every few dozen ticks"""
    C = run.C
    w = run.world
    app = run.app
    size_fn = size_fn or (lambda: random_size(C, r))
    seg = max(1, ticks // max(1, len(profile_seq)))
    # schedule: (start tick, profile).  A round trip longer than the message timeout makes every guaranteed
    # message re-queue a copy per timed-out datagram (quadratic backlog): such phases are kept short.
    sched, t0 = [], 0
    for name in profile_seq:
        sched.append((t0, name))
        t0 += min(seg, 100) if name == "very-slow" else seg
        if name == "very-slow":
            sched.append((t0, "clean"))
            t0 += 90
    ticks = max(ticks, t0)
    sched = dict(sched)
    for t in range(ticks):
        if t in sched:
            name = sched[t]
            set_profile(w.net, name, r)
            run.c.inc("profile_" + name)
        k = 0
        while r.random() < rate and k < per_tick_max:
            k += 1
            cl = r.choice(clients)
            from_server = server_sends and r.random() < 0.5
            retry = r.choice(retry_modes)
            api = "send"
            if retry == -1 and apis and r.random() < 0.5:
                api = "send_guaranteed"
            size = size_fn()
            if retry == 1 and size > C.Packet.MAX_PAYLOAD_SIZE and not allow_best_effort_fragments:
                # BEST_EFFORT + fragmentation re-queues a fresh BEST_EFFORT message for every timed-out copy of a
                # fragment; under sustained loss the send queue grows exponentially (observation, outside C01-C20)
                size = r.randint(0, C.Packet.MAX_PAYLOAD_SIZE)
            # application-level flow control: do not pile up behind a long send queue
            q = run.sconn(cl) if from_server else cl.udp.conn
            if q is not None and len(q.outgoing_messages) > 48:
                run.c.inc("sends_skipped_queue_full")
                continue
            if from_server:
                sc = run.sconn(cl)
                if sc is None:
                    continue
                app.send(sc, "server", size, retry, api=api, with_cb=r.random() < 0.8, fill=r.choice(fills))
            else:
                if cl.udp.conn is None:
                    continue
                app.send(cl, "client", size, retry, api=api, with_cb=r.random() < 0.8, fill=r.choice(fills))
        w.step()
