"""Reference arithmetic on the sequence ring 1..65535 and a shadow model of the
receive window (BitField).  Independent of the code under test: plain integers."""

MAXSEQ = 65535
HALF = 32767


def ring(u):
    """unwrapped index (any int, 1 = first) -> sequence number 1..65535"""
    return (u - 1) % MAXSEQ + 1


def ring_add(a, k):
    return (a - 1 + k) % MAXSEQ + 1


def ring_diff(a, b):
    """signed distance d in -32767..32767 with ring_add(b, d) == a"""
    return (a - b + HALF) % MAXSEQ - HALF


class ShadowWindow(object):
    """set-of-received model of a BitField of width nbits"""

    def __init__(self, nbits):
        self.nbits = nbits
        self.top = None           # unwrapped index of the newest inserted
        self.seen = set()         # unwrapped indices inserted

    def unwrap(self, seq):
        if self.top is None:
            return int(seq) + 10 * MAXSEQ      # arbitrary positive lap
        return self.top + ring_diff(int(seq), ring(self.top))

    def in_window(self, u):
        return self.top is not None and self.top - self.nbits <= u <= self.top

    def expect_duplicate(self, seq):
        if self.top is None:
            return False
        u = self.unwrap(seq)
        return u in self.seen and self.in_window(u)

    def insert(self, seq):
        u = self.unwrap(seq)
        self.seen.add(u)
        if self.top is None or u > self.top:
            self.top = u
        # forget what can never matter again (keeps the set small in long runs)
        if len(self.seen) > 4 * self.nbits + 64:
            lo = self.top - self.nbits - 1
            self.seen = {x for x in self.seen if x >= lo}
        return u

    def expected_bits(self):
        bits = 0
        for d in range(1, self.nbits + 1):
            if (self.top - d) in self.seen:
                bits |= 1 << (self.nbits - d)
        return bits

    def expected_contains(self, seq):
        u = self.unwrap(seq)
        return self.in_window(u) and u in self.seen
