"""Generators and canonical forms for the serializer properties (C13, C14, C15)."""
import math
import struct

INT_EDGES = [0, 1, -1, 0x7F, 0x80, -0x7F, -0x80, -0x81, 0x7FFF, 0x8000, -0x7FFF, -0x8000, -0x8001, 0x7FFFFFFF, 0x80000000,
             -0x7FFFFFFF, -0x80000000, -0x80000001, 2 ** 63 - 1, -(2 ** 63), 2 ** 62, 255, 256, 65535, 65536, 2 ** 32 - 1, 2 ** 32]
FLOATS = [0.0, -0.0, 1.0, -1.5, 0.1, 3.4028234663852886e38, -3.4028234663852886e38, 1e-45, 1.17549435e-38, float("inf"), float("-inf"),
          float("nan"), 2.5, 1e10, 123456.789, 2 ** 24 + 1.0]
STRS = ["", "a", "hello", "é", "中文", "\U0001F600", "a\x00b", " " * 5, "\n\t", "x" * 300, "ß" * 200, "ࠀ￿", "q" * 127, "q" * 128]


def f32(x):
    """the float32 value x becomes on the wire (raises OverflowError like struct does when out of range)"""
    return struct.unpack(">f", struct.pack(">f", x))[0]


def fkey(x):
    """comparison key for a float at float32 precision, NaN- and sign-of-zero-aware"""
    return ("f", struct.pack(">f", x))


def canon(v, round32=False):
    """tag every node with its exact type: bool != int, tuple -> seq, float by float32 bit pattern,
    Serializable by class and fields, enum by class and value"""
    from mpgameserver.serializable import Serializable, SerializableEnum
    t = type(v)
    if v is None:
        return ("none",)
    if t is bool:
        return ("bool", v)
    if t is int:
        return ("int", v)
    if t is float:
        return fkey(v)
    if t is str:
        return ("str", v)
    if t is bytes:
        return ("bytes", v)
    if t in (list, tuple):
        return ("seq", tuple(canon(x, round32) for x in v))
    if t is dict:
        # (keys that are distinct doubles but one float32 are one key on the wire: the later entry stands, as in any dict)
        m = {}
        for k, x in v.items():
            m[canon(k, round32)] = canon(x, round32)
        return ("map", tuple(sorted(m.items(), key=repr)))
    if t is set:
        return ("set", tuple(sorted(set(canon(x, round32) for x in v), key=repr)))
    if isinstance(v, SerializableEnum):
        return ("enum", type(v).__name__, canon(v.value, round32))
    if isinstance(v, Serializable):
        return ("obj", type(v).__name__, tuple((f, canon(getattr(v, f), round32)) for f in v._fields))
    return ("unsupported", t.__name__, repr(v)[:40])


def only_supported(v, registry_classes, depth=0):
    """C14: a decoded value is composed only of supported builtins and registered classes"""
    from mpgameserver.serializable import Serializable, SerializableEnum
    if depth > 2000:
        return True
    t = type(v)
    if v is None or t in (bool, int, float, str, bytes):
        return True
    if t in (list, tuple):
        return all(only_supported(x, registry_classes, depth + 1) for x in v)
    if t is set:
        return all(only_supported(x, registry_classes, depth + 1) for x in v)
    if t is dict:
        return all(only_supported(k, registry_classes, depth + 1) and only_supported(x, registry_classes, depth + 1) for k, x in v.items())
    if t in registry_classes:
        if isinstance(v, SerializableEnum):
            return only_supported(v.value, registry_classes, depth + 1)
        return all(only_supported(getattr(v, f, None), registry_classes, depth + 1) for f in v._fields)
    if (t.__module__ or "").startswith("mpgameserver."):
        # an object of the library itself, built by a registered class's own deserialize() (e.g. the public
        # key inside a handshake message): part of that registered class, not a foreign type
        return True
    return False


class ValueGen(object):
    """recursive, boundary-biased generator of values of the supported grammar"""

    def __init__(self, r, classes=(), enums=()):
        self.r = r
        self.classes = list(classes)      # Serializable subclasses with a .make(gen, depth) helper
        self.enums = list(enums)

    def integer(self):
        r = self.r
        x = r.random()
        if x < 0.5:
            e = r.choice(INT_EDGES)
            return max(-(2 ** 63), min(2 ** 63 - 1, e + r.choice([-1, 0, 0, 1])))
        if x < 0.8:
            return r.randint(-300, 300)
        return r.randint(-(2 ** 63), 2 ** 63 - 1)

    def floating(self):
        r = self.r
        if r.random() < 0.6:
            return r.choice(FLOATS)
        return f32(r.uniform(-1e6, 1e6)) if r.random() < 0.5 else r.uniform(-1e30, 1e30)

    def string(self):
        r = self.r
        if r.random() < 0.6:
            return r.choice(STRS)
        if r.random() < 0.02:
            return "q" * r.choice([32767, 32768, 70000])
        n = r.choice([1, 5, 126, 127, 128, 129, 255, 256, 300])
        return "".join(chr(r.choice([r.randrange(32, 127), r.randrange(0xA0, 0x800), r.randrange(0x800, 0xD800), r.randrange(0x10000, 0x10400)]))
                       for _ in range(r.randint(0, n)))

    def binary(self):
        r = self.r
        n = r.choice([0, 1, 2, 127, 128, 129, 255, 256, 300, r.randint(0, 400)] + ([32767, 32768, 70000] if r.random() < 0.05 else []))
        return r.randbytes(n)

    def scalar(self):
        k = self.r.randrange(7)
        if k == 0:
            return self.r.random() < 0.5
        if k == 1:
            return self.integer()
        if k == 2:
            return self.floating()
        if k == 3:
            return self.string()
        if k == 4:
            return self.binary()
        if k == 5:
            return None
        if self.enums:
            e = self.r.choice(self.enums)
            return self.r.choice(e._members)
        return self.integer()

    def hashable(self, family, depth):
        """keys / set members: one family per container so that no cross-type == collisions arise"""
        r = self.r
        if family == "int":
            return self.integer()
        if family == "str":
            return self.string()
        if family == "bytes":
            return self.binary()
        if family == "float":
            x = self.floating()
            try:
                return f32(x)            # exactly representable: distinct keys stay distinct on the wire
            except OverflowError:
                return 1.0
        if family == "bool":
            return r.random() < 0.5
        if family == "enum" and self.enums:
            e = self._enum_for_container
            return r.choice(e._members)
        if family == "tuple":
            return tuple(self.hashable(r.choice(["int", "str"]), depth + 1) for _ in range(r.randint(0, 3)))
        if family == "object" and self.classes:
            # an instance of a user class as dictionary key / set member (instances hash by identity), with whatever fields -
            # lists, sets, dicts included - its class has
            return r.choice(self.classes)._make(self, max(depth, 3))
        return self.integer()

    def value(self, depth=0):
        r = self.r
        x = r.random()
        if depth >= 6 or x < 0.45:
            return self.scalar()
        n = r.choice([0, 1, 2, 3, 4]) if depth else r.choice([0, 1, 2, 3, 5, 8, 8, 127, 128, 129, 300])
        if x < 0.60:
            return [self.value(depth + 1) for _ in range(n)]
        if x < 0.68:
            return tuple(self.value(depth + 1) for _ in range(n))
        fams = ["int", "str", "bytes", "float", "bool", "tuple"] + (["enum"] if self.enums else []) + (["object"] if self.classes and depth < 3 else [])
        if x < 0.80:
            fam = r.choice(fams)
            if fam == "enum":
                self._enum_for_container = r.choice(self.enums)
            d = {}
            for _ in range(min(n, 40)):
                k = self.hashable(fam, depth)
                if fam == "float" and k != k:
                    continue                      # NaN keys never compare equal: not a meaningful dictionary key
                d[k] = self.value(depth + 1)
            return d
        if x < 0.88:
            fam = r.choice(fams)
            if fam == "enum":
                self._enum_for_container = r.choice(self.enums)
            s = set()
            for _ in range(min(n, 40)):
                k = self.hashable(fam, depth)
                if fam == "float" and k != k:
                    continue
                s.add(k)
            return s
        if self.classes:
            cls = r.choice(self.classes)
            return cls._make(self, depth + 1)
        return [self.value(depth + 1) for _ in range(n)]


_COUNTER = [0]


def make_classes(r, tag, n_classes=6, n_enums=3):
    """user Serializable classes with random field mixes, nested classes, enums with int/str values.
    Names are unique process-wide (the registry refuses duplicates)."""
    from mpgameserver.serializable import Serializable, SerializableEnum
    enums, classes = [], []
    for i in range(n_enums):
        _COUNTER[0] += 1
        kind = r.choice(["int", "str", "int"])
        names = ["RED", "GREEN", "BLUE", "ALPHA", "OMEGA"][:r.randint(1, 5)]
        ns = {}
        for j, nm in enumerate(names):
            ns[nm] = (j + 1) * r.choice([1, 7, 300, -5]) if kind == "int" else nm.lower() + str(j)
        E = type("E%s_%d" % (tag, _COUNTER[0]), (SerializableEnum,), ns)
        E._members = [getattr(E, nm) for nm in names]
        enums.append(E)
    for i in range(n_classes):
        _COUNTER[0] += 1
        nf = r.randint(0, 6)
        ns = {"__annotations__": {}}
        fields = []
        import typing
        for j in range(nf):
            fname = r.choice(["a", "b", "value", "x", "name", "items", "Data", "z9"]) + str(j)
            # defaults and annotations of every documented kind: a field left at / set to None must come back as None
            default, ann = r.choice([(None, object), (None, object), (7, int), ("red", str), (1.5, float), (True, bool), (None, list), (None, dict),
                                     (None, typing.List[int]), (None, typing.Dict[str, int]), (b"x", bytes)])
            ns[fname] = default
            ns["__annotations__"][fname] = ann
            fields.append(fname)
        C = type("S%s_%d" % (tag, _COUNTER[0]), (Serializable,), ns)

        def _make(gen, depth, _C=C, _fields=tuple(fields)):
            o = _C()
            for f in _fields:
                x = gen.r.random()
                if x < 0.25:
                    setattr(o, f, None)
                    gen.none_fields = getattr(gen, "none_fields", 0) + 1
                elif x < 0.35:
                    pass                                  # left at what the constructor made of the default
                else:
                    setattr(o, f, gen.value(depth + 1) if depth < 5 else gen.scalar())
            return o
        C._make = staticmethod(_make)
        classes.append(C)
        if i % 4 == 1:
            # a class with its own wire format (documented: "a specialization of serialize/deserialize"): it nests another
            # object by calling that object's dumpb() from inside its own serialize() - a re-entrant use of the encoder
            _COUNTER[0] += 1
            from mpgameserver import serializable as _S

            def _ser(self, stream, **kwargs):
                _S.serialize_value(stream, self.tag)
                inner = self.body.dumpb() if self.body is not None else b""
                _S.serialize_value(stream, inner)
                _S.serialize_value(stream, self.tail)

            def _deser(self, stream, _ret=(r.random() < 0.5), **kwargs):
                self.tag = _S.deserialize_value(stream, **kwargs)
                inner = _S.deserialize_value(stream, **kwargs)
                self.body = _S.Serializable.loadb(inner) if inner else None
                self.tail = _S.deserialize_value(stream, **kwargs)
                # (every other such class fills itself in place and returns nothing, as a plain method would)
                return self if _ret else None
            Env = type("SE%s_%d" % (tag, _COUNTER[0]), (Serializable,), {"__annotations__": {"tag": int, "body": object, "tail": str}, "tag": 0, "body": None, "tail": "",
                                                                   "serialize": _ser, "deserialize": _deser})

            def _make_env(gen, depth, _E=Env, _inner=C):
                o = _E()
                o.tag = gen.integer()
                o.body = _inner._make(gen, depth + 1) if gen.r.random() < 0.85 else None
                o.tail = gen.string()
                return o
            Env._make = staticmethod(_make_env)
            classes.append(Env)
        if i % 3 == 0:
            # a class hierarchy: a subclass of a user class, with fields of its own (the library encodes the fields a class
            # declares itself, under the subclass's own type id)
            _COUNTER[0] += 1
            sns = {"__annotations__": {"sub_n": int, "sub_s": str, "sub_v": object}, "sub_n": 0, "sub_s": "", "sub_v": None}
            Sub = type("SS%s_%d" % (tag, _COUNTER[0]), (C,), sns)

            def _make_sub(gen, depth, _S=Sub):
                o = _S()
                o.sub_n = gen.integer()
                o.sub_s = gen.string()
                o.sub_v = gen.value(depth + 1) if depth < 5 else gen.scalar()
                return o
            Sub._make = staticmethod(_make_sub)
            classes.append(Sub)
    return classes, enums


def make_header_classes(r, tag, inner_classes=(), n_classes=4, n_enums=2):
    """user classes / enums that customise the documented ``serialize_header(stream)`` hook CONSISTENTLY: whatever the header
    writes after the two-byte type id (a format version of 1-4 raw bytes, an encoded schema value), the class's own
    ``deserialize()`` reads back and checks before it reads the body.  Such a class is an ordinary member of the supported grammar:
    it round-trips alone and wherever a value may stand (element, key, member, field of another message).
    Returns (classes, enums) shaped like make_classes' (classes carry ._make(gen, depth), enums carry ._members)."""
    from mpgameserver import serializable as _S
    Serializable, SerializableEnum = _S.Serializable, _S.SerializableEnum
    import typing

    def hooks(base, kind):
        if kind == "raw":
            extra = r.randbytes(r.randint(1, 4))

            def _hdr(self, stream, _extra=extra, _base=base):
                _base.serialize_header(self, stream)
                stream.write(_extra)

            def _deser(self, stream, _extra=extra, _base=base, **kwargs):
                got = stream.read(len(_extra))
                if got != _extra:
                    raise ValueError("%s: unsupported format version %r" % (type(self).__name__, got))
                return _base.deserialize(self, stream, **kwargs)
        else:
            # the header extension is itself an encoded value (a schema name, a revision number, a (major, minor) pair)
            extra = r.choice(["v2", "schema-é", 3, 70000, -1, (1, 4), b"\x00\x01", None, True])
            want = canon(extra)

            def _hdr(self, stream, _extra=extra, _base=base):
                _base.serialize_header(self, stream)
                _S.serialize_value(stream, _extra)

            def _deser(self, stream, _want=want, _base=base, **kwargs):
                got = _S.deserialize_value(stream)
                if canon(got) != _want:
                    raise ValueError("%s: unsupported format revision %r" % (type(self).__name__, got))
                return _base.deserialize(self, stream, **kwargs)
        return _hdr, _deser

    enums, classes = [], []
    for i in range(n_enums):
        _COUNTER[0] += 1
        kind = "int" if i % 2 == 0 else "str"
        names = ["NORTH", "EAST", "SOUTH", "WEST"][:r.randint(2, 4)]
        ns = {}
        for j, nm in enumerate(names):
            ns[nm] = (j + 1) * r.choice([1, 9, 400, -3]) if kind == "int" else nm.lower() + str(j)
        ns["serialize_header"], ns["deserialize"] = hooks(SerializableEnum, "raw" if r.random() < 0.6 else "value")
        E = type("EH%s_%d" % (tag, _COUNTER[0]), (SerializableEnum,), ns)
        E._members = [getattr(E, nm) for nm in names]
        enums.append(E)
    for i in range(n_classes):
        _COUNTER[0] += 1
        shape = i % 4
        base = Serializable
        ns = {"__annotations__": {}}
        fields = []
        if shape == 3 and inner_classes:
            # the hook overridden in a subclass of an ordinary user class (own fields only are encoded, under the subclass's id)
            plain = [c for c in inner_classes if "serialize" not in c.__dict__ and "deserialize" not in c.__dict__ and c.__mro__[1] is Serializable]
            if plain:
                base = r.choice(plain)
        for j in range(r.randint(0 if shape != 1 else 1, 5)):
            fname = r.choice(["h", "rev", "payload", "k", "Name", "items"]) + str(j)
            default, ann = r.choice([(None, object), (None, object), (0, int), ("", str), (0.5, float), (False, bool), (None, list), (None, dict),
                                     (None, typing.List[int]), (b"", bytes)])
            ns[fname] = default
            ns["__annotations__"][fname] = ann
            fields.append(fname)
        ns["serialize_header"], ns["deserialize"] = hooks(base, "raw" if i % 2 == 0 else "value")
        C = type("SH%s_%d" % (tag, _COUNTER[0]), (base,), ns)

        def _make(gen, depth, _C=C, _fields=tuple(fields), _enums=tuple(enums), _peers=tuple(classes), _shape=shape):
            o = _C()
            for k, f in enumerate(_fields):
                x = gen.r.random()
                if _shape == 1 and k == 0 and _peers and depth < 5:
                    # a header-customising object as a FIELD of another header-customising message
                    setattr(o, f, gen.r.choice(_peers)._make(gen, depth + 1))
                elif x < 0.15:
                    setattr(o, f, None)
                elif x < 0.25:
                    pass
                elif x < 0.40 and _enums:
                    setattr(o, f, gen.r.choice(gen.r.choice(_enums)._members))
                else:
                    setattr(o, f, gen.value(depth + 1) if depth < 5 else gen.scalar())
            return o
        C._make = staticmethod(_make)
        classes.append(C)
    return classes, enums


def custom_header_depths(v, depth=0, out=None):
    """the nesting depths (0 = the value itself) at which v holds an instance of a class / enum whose serialize_header is not the
    library's own"""
    from mpgameserver.serializable import Serializable, SerializableEnum
    if out is None:
        out = set()
    if depth > 12:
        return out
    t = type(v)
    if t in (list, tuple, set):
        for x in v:
            custom_header_depths(x, depth + 1, out)
    elif t is dict:
        for k, x in v.items():
            custom_header_depths(k, depth + 1, out)
            custom_header_depths(x, depth + 1, out)
    elif isinstance(v, SerializableEnum):
        if t.serialize_header is not SerializableEnum.serialize_header:
            out.add(depth)
    elif isinstance(v, Serializable):
        if t.serialize_header is not Serializable.serialize_header:
            out.add(depth)
        for f in t._fields:
            custom_header_depths(getattr(v, f, None), depth + 1, out)
    return out


def out_of_domain(r):
    """values the statement requires to be refused"""
    class IntSub(int):
        pass

    class BytesSub(bytes):
        pass

    class StrSub(str):
        pass
    big = 2 ** 20 + 1
    return [
        ("int-2^63", 2 ** 63), ("int--2^63-1", -(2 ** 63) - 1), ("int-2^64", 2 ** 64), ("int-huge", 10 ** 30), ("int-neg-huge", -(10 ** 30)),
        ("str-too-long", "a" * big), ("str-too-long-utf8", "é" * (2 ** 19 + 1)), ("bytes-too-long", b"\x00" * big),
        ("list-too-long", [0] * 16385), ("tuple-too-long", (0,) * 16385), ("dict-too-long", {i: 0 for i in range(16385)}),
        ("set-too-long", set(range(16385))),
        ("bytearray", bytearray(b"abc")), ("int-subclass", IntSub(5)), ("bytes-subclass", BytesSub(b"x")), ("str-subclass", StrSub("x")),
        ("complex", 1 + 2j), ("frozenset", frozenset([1])), ("object", object()), ("function", len), ("range", range(3)),
        ("float-too-large", 1e39), ("float-too-large-neg", -1e39),
        ("nested-unsupported", [1, [2, {3: bytearray(b"x")}]]), ("nested-too-big-int", {"k": [1, 2, 2 ** 63]}),
        ("memoryview", memoryview(b"abc")), ("type", int),
    ]


POISON = "\x00poisoned-by-an-earlier-consumer"


def poison(v, depth=0):
    """what an application may do with a decoded value: change it in place.  Every mutable container reachable from v gets
    a foreign element.  If the decoder hands out shared objects (a cached empty list, a class-level default), the NEXT
    decoded value that should be equal to its source is not."""
    if depth > 8:
        return
    if isinstance(v, list):
        for x in v:
            poison(x, depth + 1)
        v.append(POISON)
    elif isinstance(v, dict):
        for x in list(v.values()):
            poison(x, depth + 1)
        v[POISON] = POISON
    elif isinstance(v, set):
        v.add(POISON)
    elif isinstance(v, bytearray):
        v.extend(b"\x00poison")
    elif hasattr(v, "__dict__") and hasattr(type(v), "_fields") or (hasattr(v, "__dict__") and type(v).__module__ != "builtins" and not isinstance(v, type)):
        try:
            for x in list(vars(v).values()):
                poison(x, depth + 1)
        except TypeError:
            pass


def boundary_strings(r, shard, nshards):
    """long strings whose multi-byte characters straddle power-of-two byte offsets (readers/writers that work in blocks)"""
    out = []
    wide = ["\u00e9", "\u4e2d", "\U0001f600", "\ufeff"]
    cases = [(B, k, j, w) for B in (1024, 4096, 8192, 16384, 32768, 65536, 131072) for k in (1, 2, 3) for j in (0, 1, 2, 3) for w in wide]
    for i, (B, k, j, w) in enumerate(cases):
        if i % nshards != shard % nshards:
            continue
        n = B * k - j
        if n < 0 or n + 8 > 2 ** 20:
            continue
        out.append(("str-%d-bytes-before-%d-byte-char" % (n, len(w.encode("utf-8"))), "a" * n + w + "z" * r.randint(0, 5)))
    # runs of 3-byte characters (never aligned to a power of two) across several blocks
    if shard % 4 == 0:
        out.append(("str-3-byte-run-200KiB", "\u4e2d" * 70000))
        out.append(("str-mixed-run-150KiB", ("a\u00e9\u4e2d\U0001f600" * 15000)))
    return out


# ----- attribute names of generated classes (additive: used by C15; nothing above depends on it)
# The library takes as a field every class attribute whose name does not start with "_", is not "type_id" and whose class-level
# value is not callable - the documentation puts no other condition on the name.  So the domain is: every Python identifier a
# class body can bind (no keywords) that does not start with "_", is not "type_id" and does not hide a member of Serializable.
FIELD_NAME_POOLS = {
    "lower": ["a", "val", "items", "name", "position", "facing", "score", "health", "msg", "data", "keys", "values", "fields", "record", "kind"],
    "single-lower": list("abcdefghijklmnopqrstuvwxyz"),
    "single-upper": list("ABCDEFGHIJKLMNOPQRSTUVWXYZ"),
    "all-upper": ["ID", "HP", "MP", "XP", "POS", "TAGS", "UID", "RGB", "FPS", "TTL", "DX", "DY", "URL", "OK", "NAME"],
    "all-upper-snake": ["SCORE_BY_ID", "MAX_SPEED", "PLAYER_ID", "ROOM_NAME", "IS_READY", "POS_X", "POS_Y", "TEAM_A", "N_COUNT"],
    "all-upper-digit": ["X1", "Y2", "P2", "HP2", "V0", "IPV4", "P1_SCORE", "SLOT_3", "UTF8", "MD5"],
    "leading-upper": ["Name", "Position", "PlayerId", "Score", "Items", "Xpos", "Ypos", "HPmax", "IsReady", "RoomName", "Data2", "Player_Id"],
    "mixed-case": ["playerId", "roomName", "isReady", "maxHP", "posX", "posY", "nPlayers", "rgbA", "x_Max", "tagsByID"],
    "lower-snake-digit": ["player_id", "room_name", "v_1", "a1b2", "x__y", "slot_3", "p2_score", "utf8", "n_0", "is_ready2", "x1", "y_2"],
    "trailing-underscore": ["id_", "class_", "type_", "from_", "X_", "ID_", "list_", "name__", "Pass_", "in_"],
    "builtin-like": ["id", "type", "len", "list", "dict", "set", "str", "int", "min", "max", "hash", "next", "cls", "json", "object", "input"],
    "non-ascii": ["größe", "名前", "Ω", "ÉTAT", "naïve", "Ünit", "позиция", "ΔX"],
}


def name_family(name):
    """structural class of an attribute name (for coverage counters and messages)"""
    if not name.isascii():
        return "non-ascii-upper" if name.isupper() else "non-ascii"
    if len(name) == 1:
        return "single-upper" if name.isupper() else "single-lower"
    if name.endswith("_"):
        return "trailing-underscore"
    if name.isupper():
        return "all-upper-digit" if any(ch.isdigit() for ch in name) else ("all-upper-snake" if "_" in name else "all-upper")
    if name.islower():
        return "lower-snake-digit" if ("_" in name or any(ch.isdigit() for ch in name)) else "lower"
    return "leading-upper" if name[0].isupper() else "mixed-case"


def is_field_name(name):
    """is `name` in the domain of attribute names the unchanged library documents/accepts as a field of a Serializable class"""
    import keyword
    from mpgameserver.serializable import Serializable
    return (isinstance(name, str) and name.isidentifier() and not keyword.iskeyword(name) and not name.startswith("_")
            and name != "type_id" and not hasattr(Serializable, name))


def field_names(r, n, taken=()):
    """n distinct field names, each from a family of FIELD_NAME_POOLS drawn uniformly (a name already used in the class gets
    another draw, then a digit - which keeps an upper-case name upper-case and a lower-case one lower-case)"""
    used = set(taken)
    out = []
    fams = sorted(FIELD_NAME_POOLS)
    while len(out) < n:
        fam = r.choice(fams)
        name = r.choice(FIELD_NAME_POOLS[fam])
        if name in used or not is_field_name(name):
            name = r.choice(FIELD_NAME_POOLS[fam])
        k = 0
        base = name
        while name in used or not is_field_name(name):
            k += 1
            name = "%s%d" % (base, k)
        used.add(name)
        out.append(name)
    return out
