"""C01 - only datagrams authenticated under the session key can affect a connection.

Honest sessions run on the lockstep engine (real server loop, real UdpClient) over
a mildly lossy network; at seeded points the adversary presents datagrams to the
client (socket FIFO -> UdpClient.update) and to the server (real
TwistedServer.datagramReceived, spoofed from the honest client's address or from
fresh addresses).  Around every _recv_datagram the AuthMonitor compares the
endpoint's semantic snapshot (delivered messages, reassembly contexts, send
resolution, key, token, status, liveness clock, both receive windows): for a datagram
that is not a prefix-extension of a genuine datagram of this session it must be
unchanged.  Genuine datagrams are the positive control (they must change it).

A prefix-extension D = G + X of a genuine datagram G (an on-path attacker appends bytes
to a datagram in flight: well-formed CRC packets of every type x count, packets sealed
under his own key, random bytes) is judged by the ExtensionMonitor: the peer produced G
and nothing else, so processing D must be processing G - every message dispatched during
the receive is one of G's messages, the receive windows move to G's numbers only, only
sends named by G's ack fields resolve, and before a key exists (G = the hello) no
application message is queued.

The window between key agreement and the first encrypted datagram of the peer is a
connection state of its own: the client (server hello delivered, every later server
datagram withheld) and the server's half-open connection (challenge response withheld)
are presented the forgery classes plus the session's own genuine hello body under fresh
headers.
"""
import struct

from mon.core.merge import merge, need
from mon.core.util import Counter, h64, rng
from mon.engines import adversary as A
from mon.engines import lockstep as L
from mon.engines import traffic as T
from mon.engines.monitors import AuthMonitor, snapshot, snap_diff
from mon.models.ring import ring_add

ID = "C01"
LEVEL = "fault_enumeration"
SHARD_TIMEOUT = {"quick": 600, "thorough": 3000}


def plan(tier, seed):
    if tier == "quick":
        return [{"tier": tier, "seed": seed, "shard": i, "n": 2, "subprocess": True} for i in range(12)]
    return [{"tier": tier, "seed": seed, "shard": i, "n": 140, "subprocess": True} for i in range(32)]


class ExtensionMonitor(object):
    """D = G + X: G is a datagram recorded at the honest peer's tap for this session, X are appended bytes the peer never
    produced.  Authentic is G, not D: whatever the endpoint does with D must be explained by G alone (the monitor's own decode
    of G says which messages, sequence numbers and ack fields those are)."""

    def __init__(self, run):
        self.run = run
        self.w = run.world
        self.tap = run.tap
        self.c = run.c
        self.cur = None
        self.judged = Counter()
        run.tap.listeners.append(self)
        CB = run.C.ConnectionBase
        self._CB = CB
        self._prev = CB._recv_message
        mon = self

        def _recv_message(conn, pkt_typ, msgseq, msg, _o=self._prev):
            cur = mon.cur
            if cur is not None and cur["conn"] is conn:
                cur["msgs"].append((int(msgseq), getattr(pkt_typ, "value", pkt_typ), bytes(msg)))
            return _o(conn, pkt_typ, msgseq, msg)
        CB._recv_message = _recv_message

    def close(self):
        self._CB._recv_message = self._prev

    def before_recv(self, e, datagram):
        conn = e.conn
        key = conn.session_key_bytes
        G = self.tap.genuine_for(e, key, datagram)
        if G is None or len(G) == len(datagram):
            self.cur = None
            return
        self.cur = {"conn": conn, "G": G, "key": key, "msgs": [], "acked": [],
                    "snap": snapshot(conn, (e.delivered_n, e.callbacks_n))}

    def resolved(self, e, seq, kind):
        cur = self.cur
        if cur is not None and cur["conn"] is e.conn and kind == "acked":
            cur["acked"].append(int(seq))

    def after_recv(self, e, datagram, res):
        cur, self.cur = self.cur, None
        if cur is None or cur["conn"] is not e.conn:
            return
        conn = e.conn
        G, key = cur["G"], cur["key"]
        dec = L.decode_datagram(G, key)
        if not dec.ok:
            self.c.inc("c01_extended_genuine_undecodable")
            return
        keystate = "keyed" if key is not None else "hello"
        self.judged.inc("%s|%s" % (e.role, keystate))
        self.c.inc("c01_extended_%s_judged_%s" % (keystate, e.role))
        if res:
            self.c.inc("c01_extended_genuine_accepted")
        snap0 = cur["snap"]
        snap1 = snapshot(conn, (e.delivered_n, e.callbacks_n))
        origin = self.w.origins.get(datagram, "network")
        problems = []
        # (1) every message dispatched during this receive is one of G's
        allowed = [(int(s), int(t), bytes(p)) for s, t, p in dec.msgs]
        foreign = []
        for m in cur["msgs"]:
            if m in allowed:
                allowed.remove(m)
            else:
                foreign.append(m)
        if foreign:
            problems.append("dispatched %d message(s) that are not in the genuine datagram (first: seq %d type %d, %d bytes)" % (
                len(foreign), foreign[0][0], foreign[0][1], len(foreign[0][2])))
        # (2) the receive windows move to G's numbers only
        pk0, pk1 = snap0[11][0], snap1[11][0]
        if pk1 != pk0 and pk1 != dec.seq:
            problems.append("datagram window top went %d -> %d, the genuine datagram is seq %d" % (pk0, pk1, dec.seq))
        mg0, mg1 = snap0[12][0], snap1[12][0]
        if mg1 != mg0 and mg1 not in [int(s) for s, _t, _p in dec.msgs]:
            problems.append("message window top went %d -> %d, the genuine datagram carries message seqs %s" % (mg0, mg1, [int(s) for s, _t, _p in dec.msgs][:4]))
        # (3) only sends named by G's ack fields resolve
        named = set()
        if dec.ack:
            named.add(dec.ack)
            for d in range(1, 33):
                if dec.ack_bits & (0x80000000 >> (d - 1)):
                    named.add(ring_add(dec.ack, -d))
        stray = [s for s in cur["acked"] if s not in named]
        if stray:
            problems.append("resolved pending datagram(s) %s as acked, the genuine header names ack=%d bits=%08x" % (stray[:4], dec.ack, dec.ack_bits))
        # (4) a rejected datagram has no effect at all (stats.dropped is not part of the snapshot)
        if not res and snap0 != snap1:
            problems.append("was rejected but changed %s" % snap_diff(snap0, snap1))
        # (5) before a key exists nothing but the hello is processed: no application message is queued or delivered
        delivered = snap0[0] != snap1[0] or snap0[-2] != snap1[-2]
        if key is None and delivered:
            self.run.report("C01", "prekey-application-message-delivered",
                            "%s endpoint without a key queued/delivered %d application message(s) while processing a genuine hello with %d appended bytes (%s): %s" % (
                                e.role, len(snap1[0]) - len(snap0[0]), len(datagram) - len(G), origin, "; ".join(problems) or "incoming_messages changed"),
                            {"origin": origin, "role": e.role, "phase": self.w.phase})
        elif problems:
            self.run.report("C01", "bytes-appended-to-genuine-datagram-processed",
                            "%s endpoint (%s): a genuine %s datagram with %d appended bytes (%s) - %s; changed %s" % (
                                e.role, "holding a key" if key is not None else "without a key", L.PKT_NAMES.get(dec.ptype), len(datagram) - len(G), origin,
                                "; ".join(problems), snap_diff(snap0, snap1)),
                            {"origin": origin, "role": e.role, "phase": self.w.phase})


class Attack(object):
    def __init__(self, run, r, out):
        self.run = run
        self.w = run.world
        self.r = r
        self.out = out
        self.injected = Counter()
        import os
        self.attacker_key = bytes(r.randrange(256) for _ in range(16))

    def to_server(self, addr, d, origin):
        self.w.net.inject("c2s", addr, d, origin)
        self.injected.inc("server|" + origin.split("@")[0].split(":")[0])

    def to_client(self, cl, d, origin):
        self.w.net.inject("s2c", cl.addr, d, origin)
        self.injected.inc("client|" + origin.split("@")[0].split(":")[0])

    def continuity(self, cl, sc0, label):
        """world-level oracle: attacker datagrams must not make the server retire / replace the established
        connection object of the victim (that would change its key, status and liveness without any authentic input)"""
        w = self.w
        cur = w.ctxt.connections.get(cl.addr)
        if sc0 is not None and cur is not sc0 and not getattr(self, "_continuity_reported", False):
            self._continuity_reported = True
            self.run.report("C01", "established-connection-replaced-by-unauthenticated-datagram",
                            "after presenting %s datagrams from the victim's address the server's connection object for %s is %s (phase %s)" % (
                                label, cl.addr, "gone" if cur is None else "a different object", w.phase),
                            {"origin": label, "role": "server", "phase": w.phase})
        self.run.c.inc("c01_continuity_checks")

    def present(self, items, target, cl, per_tick=2, keep_traffic=None):
        """items: list of (label, datagram); target 'server' (spoofed from cl.addr) or 'client'"""
        i = 0
        sc0 = self.run.sconn(cl) if target == "server" else None
        for label, d in items:
            if target == "server":
                self.to_server(cl.addr, d, label)
            else:
                self.to_client(cl, d, label)
            i += 1
            if i % per_tick == 0:
                if keep_traffic:
                    keep_traffic()
                self.w.step()
                if sc0 is not None:
                    self.continuity(cl, sc0, label.split("@")[0])
        self.w.step(3)
        if sc0 is not None:
            self.continuity(cl, sc0, "the last batch of")

    def genuine(self, direction, addr, n=3, pick="short", types=None):
        """recorded genuine datagrams of one flow"""
        cand = [d for (_, t, dr, a, d) in self.w.wire if dr == direction and a == addr]
        if types:
            cand = [d for d in cand if d[12] in types]
        if not cand:
            return []
        if pick == "short":
            cand = sorted(cand[-200:], key=len)[:max(n * 3, 6)]
        self.r.shuffle(cand)
        return cand[:n]

    def appendix(self, direction, cl):
        """what an on-path attacker appends behind a genuine datagram travelling in `direction`: a well-formed CRC packet (every
        type x count, application messages inside, numbers that are fresh for the target and ack fields naming what it has
        pending), a packet sealed under the attacker's key, or random bytes"""
        r = self.r
        now = self.w.clock.now
        tconn = cl.udp.conn if direction == "s2c" else self.w.server_conn(cl.addr)
        pend = sorted(int(s) for s in tconn.pending_acks) if tconn is not None else []
        ack = pend[-1] if pend and r.random() < 0.8 else r.randint(1, 65535)
        bits = r.choice([0, 0xFFFFFFFF, r.getrandbits(32)])
        if tconn is not None:
            fresh = (int(tconn.bitfield_pkt.current_seqnum) + r.randint(2, 30)) % 65535 + 1
            msgseq = (int(tconn.bitfield_msg.current_seqnum) + r.randint(2, 40)) % 65535 + 1
        else:
            fresh, msgseq = r.randint(2, 60000), r.randint(2, 60000)
        app = L.make_payload(99, r.randrange(1 << 30), r.choice([12, 40, 200]))
        roll = r.random()
        if roll < 0.75:
            forged = A.Forger(r, direction).forged(now, fresh, ack, bits, msgseq, app)
            if roll < 0.5:
                # the deciding family: packets that carry application messages
                forged = [x for x in forged if x[0].split("=")[1][0] in "67" and x[0].endswith(("count=1", "count=2", "count=3"))]
            label, x = r.choice(forged)
            return "crc-packet," + label.split(":", 1)[1], x
        if roll < 0.87:
            ptype = r.choice((3, 4, 5, 6, 7))
            return "attacker-key-packet,type=%d" % ptype, A.seal(self.attacker_key, direction, ptype, fresh, ack, bits, [(msgseq, ptype, app)], int(now))
        k = r.choice((1, 4, 16, 64, 200))
        return "random+%d" % k, r.randbytes(k)

    def extender(self, cl, p_other):
        """a network filter: the on-path attacker appends to the genuine hellos of cl's handshake (always) and to its other
        datagrams in flight (with probability p_other), in both directions"""
        def tamper(direction, addr, d, info):
            if addr != cl.addr or len(d) < 24:
                return None
            hello = (direction == "c2s" and d[12] == 1) or (direction == "s2c" and d[12] == 2)
            if not hello and self.r.random() >= p_other:
                return None
            label, x = self.appendix(direction, cl)
            if len(d) + len(x) > self.run.C.Packet.RECV_SIZE:
                return None                   # what the receiving socket reads in one go (MTU + 512): an IP datagram may be larger than the MTU
            self.injected.inc(("server|" if direction == "c2s" else "client|") + "extension")
            return ("replace", [(d + x, "extension:%s+%s" % ("hello" if hello else "keyed", label))])
        return tamper

    def classes_for(self, direction, cl, conn, heavy):
        """forgery classes against one endpoint.  direction = direction of travel toward the target"""
        r = self.r
        now = self.w.clock.now
        items = []
        peer = cl.udp.conn if direction == "c2s" else self.run.sconn(cl)
        # sequence numbers the target has not seen; ack fields naming datagrams the target really has pending
        fresh = (int(peer.seq_sending) + r.randint(1, 20)) % 65535 + 1 if peer is not None else r.randint(1, 65535)
        pend = sorted(int(s) for s in conn.pending_acks) if conn is not None else []
        ack = pend[-1] if pend else r.randint(1, 65535)
        app = L.make_payload(99, r.randrange(1 << 30), 40)
        msgseq = (int(peer.seq_message) + r.randint(1, 30)) % 65535 + 1 if peer is not None else 1
        forged = A.Forger(r, direction).forged(now, fresh, ack, 0xFFFFFFFF, msgseq, app)
        if not heavy:
            forged = r.sample(forged, 12)
        items += forged
        gen = self.genuine(direction, cl.addr, n=3 if heavy else 1)
        for g in gen:
            flips = list(A.bitflips(g))
            if not heavy:
                flips = r.sample(flips, min(len(flips), 40))
            items += [("bitflip:" + k, d) for k, d in flips]
            tr = list(A.truncations(g))
            if not heavy:
                tr = r.sample(tr, min(len(tr), 16))
            items += [("truncation:" + k, d) for k, d in tr]
            items += [("header-rewrite:" + k, d) for k, d in A.header_rewrites(g, r, False)]
            items += [("header-rewrite-crc:" + k, d) for k, d in A.header_rewrites(g, r, True)]
        # wrong-key ciphertext: the attacker's own key, fresh numbers, every type
        for ptype in (3, 4, 5, 6, 7):
            items.append(("wrong-key:attacker,type=%d" % ptype,
                          A.seal(self.attacker_key, direction, ptype, fresh, ack, 0xFFFFFFFF, [(msgseq, ptype, app)], int(now))))
        # reflection: a genuine datagram of the opposite direction with the direction magic swapped
        opp = "s2c" if direction == "c2s" else "c2s"
        for g in self.genuine(opp, cl.addr, n=2):
            items.append(("reflection", (A.TO_SERVER if direction == "c2s" else A.TO_CLIENT) + g[4:]))
        # ... and sent back exactly as it was (both directions are sealed under the same key: only the direction tag tells them apart)
        for g in self.genuine(opp, cl.addr, n=4, pick="any"):
            items.append(("reflection:verbatim", g))
        items += [("random:" + k, d) for k, d in A.random_datagrams(r, direction, 16 if heavy else 6)]
        return items


def history(cfg, case, out):
    key = [cfg["seed"], cfg["shard"], case]
    r = rng("C01", *key)
    heavy = case % 2 == 0
    with T.Run(r, mtu=r.choice([1500, 1500, 576]), keep_wire=True,
               ctxt_setup=lambda ctxt: ctxt.setConnectionTimeout(30.0)) as run:
        w = run.world
        auth = AuthMonitor(w, run.tap, run.report)
        ext = ExtensionMonitor(run)
        run.report.context = {"case_key": key}
        atk = Attack(run, r, out)
        w.net.set(c2s=L.Policy(loss=0.03, delay=(0.004, 0.02)), s2c=L.Policy(loss=0.03, delay=(0.004, 0.02)))
        a = w.add_client()
        a.updates_per_step = 2
        # the two directions of a session count independently: here the server side starts far away from the client side, so a
        # datagram of one direction carries numbers that are fresh for the other
        CN0 = run.C
        orig_sinit = CN0.ServerClientConnection.__init__
        start_s = r.choice([20000, 40000, 65000])

        def sinit(conn, ctxt, addr, _o=orig_sinit):
            _o(conn, ctxt, addr)
            conn.seq_sending = CN0.SeqNum(start_s)
            conn.seq_message = CN0.SeqNum(start_s // 2)
        CN0.ServerClientConnection.__init__ = sinit
        atk_restore = lambda: setattr(CN0.ServerClientConnection, "__init__", orig_sinit)

        # ---------- phase: client without a key (hello sent, server hello withheld)
        w.phase = "client-prekey"
        hold = lambda direction, addr, d, info: "drop" if (direction == "s2c" and addr == a.addr) else None
        w.net.filters.append(hold)
        a.connect()
        w.step(3)
        now = w.clock.now
        app = L.make_payload(99, r.randrange(1 << 30), 40)
        pre = A.Forger(r, "s2c").forged(now, r.randint(1, 60000), 1, 0xFFFFFFFF, r.randint(1, 60000), app)
        pre += [("random:" + k, d) for k, d in A.random_datagrams(r, "s2c", 8)]
        pre += [("wrong-key:attacker", A.seal(atk.attacker_key, "s2c", 6, 5, 1, 0, [(3, 6, app)], int(now)))]
        if not heavy:
            pre = r.sample(pre, 16)
        atk.present(pre, "client", a, per_tick=2)
        w.net.filters.remove(hold)
        # the hello the server already answered was dropped: the client must retry (a fresh connect)
        a.udp.forceDisconnect()
        a.sock_open = True
        w.step(130)                       # let the server's temp connection expire
        w.phase = "handshake"
        w.connect_client(a)
        atk_restore()

        # ---------- phase: server, new address (no connection object yet / created by the datagram)
        w.phase = "server-new-address"
        items = []
        for i, (label, d) in enumerate(A.Forger(r, "c2s").forged(w.clock.now, r.randint(1, 60000), 1, 0, r.randint(1, 60000), app)):
            items.append((("10.9.%d.%d" % (case % 250, i + 1), 5000 + i), label, d))
        if not heavy:
            items = r.sample(items, 12)
        for addr, label, d in items:
            atk.to_server(addr, d, label)
            w.step()
            # follow up from the same address with an encrypted-looking datagram and a forged challenge
            atk.to_server(addr, A.forge_crc("c2s", 3, 2, 1, 0, [(2, 3, bytes(8))], int(w.clock.now)), "forged:challenge-plaintext")
            w.step()

        # ---------- phase: established, mixed honest traffic with pending sends and fragments in flight
        w.phase = "established"
        traffic_r = rng("C01t", *key)

        def chatter():
            if traffic_r.random() < 0.5:
                ep_side = traffic_r.choice(["client", "server"])
                ep = a if ep_side == "client" else run.sconn(a)
                if ep is not None:
                    run.app.send(ep, ep_side, T.random_size(run.C, traffic_r, big=0.0), traffic_r.choice([0, -1]), with_cb=True)

        for _ in range(40):
            chatter()
            w.step()
        sc = run.sconn(a)
        atk.present(atk.classes_for("c2s", a, sc, heavy), "server", a, per_tick=3, keep_traffic=chatter)
        w.phase = "established-client"
        atk.present(atk.classes_for("s2c", a, a.udp.conn, heavy), "client", a, per_tick=2, keep_traffic=chatter)

        # ---------- phase: with pending sends (acks delayed), fragments in flight
        w.phase = "pending-sends"
        w.net.set(c2s=L.Policy(delay=(0.3, 0.4)), s2c=L.Policy(delay=(0.3, 0.4)))
        for _ in range(6):
            run.app.send(a, "client", run.C.Packet.MAX_PAYLOAD_SIZE * 3, -1, with_cb=True)
            run.app.send(run.sconn(a), "server", 200, 0, with_cb=True)
            w.step()
        items = atk.classes_for("c2s", a, run.sconn(a), False)
        atk.present(items, "server", a, per_tick=4, keep_traffic=chatter)
        items = atk.classes_for("s2c", a, a.udp.conn, False)
        atk.present(items, "client", a, per_tick=2, keep_traffic=chatter)
        w.net.set(c2s=L.Policy(delay=(0.004, 0.01)), s2c=L.Policy(delay=(0.004, 0.01)))
        w.step(60)

        # ---------- phase: the established connection is silent for a while (link cut for 1-4 s, shorter than every
        #            timeout); forged datagrams arrive from the victim's address meanwhile; then the link heals
        w.phase = "silent-established"
        w.step(120)                  # let the client's socket buffer (filled with junk by the previous phases) drain
        v = a
        if getattr(a.udp.conn.status, "value", 0) != 2 or run.sconn(a) is None:
            # the junk flood of the earlier phases can legitimately starve a UDP client (socket buffer overflow);
            # the silent phase then uses a fresh victim session from another address
            run.c.inc("c01_fresh_victim_for_silent_phase")
            v = w.connect_client()
            v.updates_per_step = 2
            for _ in range(30):
                run.app.send(v, "client", 40, 0)
                w.step()
        sc_before = run.sconn(v)
        w.net.set(c2s=L.Policy(outage=True), s2c=L.Policy(outage=True))
        silent_ticks = int(r.uniform(1.2, 3.8) / w.dt)
        w.step(silent_ticks // 2)
        items = atk.classes_for("c2s", v, run.sconn(v), False)
        hello_like = [x for x in items if x[0].startswith("forged:type=1")]
        items = hello_like + r.sample(items, min(len(items), 40))
        for k, (label, d) in enumerate(items):
            w.offer_server(v.addr, d, label)            # straight to the entry point: the path is cut for honest traffic only
            atk.injected.inc("server|" + label.split("@")[0].split(":")[0])
            if k % 4 == 3:
                w.step()
                atk.continuity(v, sc_before, label.split("@")[0])
        w.step(3)
        atk.continuity(v, sc_before, "silent-phase")
        w.net.set(c2s=L.Policy(delay=(0.004, 0.01)), s2c=L.Policy(delay=(0.004, 0.01)))
        w.step(40)
        if run.sconn(v) is not sc_before or getattr(v.udp.conn.status, "value", 0) != 2:
            run.report("C01", "session-lost-after-silent-phase", "the session did not survive a %.1fs outage with forged datagrams (server object %s, client status %s)" % (
                (silent_ticks // 2 + len(items) // 4) * w.dt, "same" if run.sconn(v) is sc_before else "replaced/gone", v.udp.conn.status), {"phase": w.phase})
        else:
            run.c.inc("c01_sessions_survived_silent_phase")

        # ---------- phase: a second live session's ciphertext presented to this one (sealed under another key)
        w.phase = "other-session"
        # the other session's sequence numbers lie AHEAD of the victim's (fresh for the victim's windows): both of its ends
        # start counting there
        CN = run.C
        inits = [(CN.ClientServerConnection, CN.ClientServerConnection.__init__, int(a.udp.conn.seq_sending) + 60),
                 (CN.ServerClientConnection, CN.ServerClientConnection.__init__, int(run.sconn(a).seq_sending) + 60 if run.sconn(a) is not None else 0)]
        for cls, orig_init, start in inits:
            def init(conn, *args, _o=orig_init, _s=start, **kw):
                _o(conn, *args, **kw)
                if _s:
                    conn.seq_sending = CN.SeqNum(_s % 65535 + 1)
            cls.__init__ = init
        try:
            b = w.connect_client()
        finally:
            for cls, orig_init, start in inits:
                cls.__init__ = orig_init
        run.c.inc("c01_other_session_ahead_of_victim")
        for _ in range(10):
            run.app.send(b, "client", 64, 0)
            sb = run.sconn(b)
            if sb is not None:
                run.app.send(sb, "server", 64, 0)
            w.step()
        cross = [("wrong-key:other-session", d) for d in atk.genuine("c2s", b.addr, n=6, pick="any")]
        atk.present(cross, "server", a, per_tick=2)
        cross = [("wrong-key:other-session", d) for d in atk.genuine("s2c", b.addr, n=6, pick="any")]
        atk.present(cross, "client", a, per_tick=2)

        # ---------- phase: forged datagrams that carry the victim's OWN address arrive between its hello and its challenge response
        #            (valid headers of every type, garbage bodies; a hello replayed): the half-open connection stays what it is and
        #            the genuine challenge response is honoured
        w.phase = "half-open-forged-from-victim-address"
        w.net.heal(0.002)
        hv2 = w.add_client()
        held2 = []
        hold2 = lambda direction, addr, d, info: (held2.append(d) or "drop") if (direction == "c2s" and addr == hv2.addr and len(d) >= 20 and d[12] == 3) else None
        w.net.filters.append(hold2)
        hv2.connect()
        w.step(4)
        tc2 = w.ctxt.temp_connections.get(hv2.addr)
        if tc2 is not None and held2:
            now_ = int(w.clock.now)
            forged2 = [("forged:type=%d,garbage" % pt, A.header("c2s", now_, 2 + k, 1, pt, 24, 1, 0) + r.randbytes(24 + 16)) for k, pt in enumerate((3, 3, 4, 5, 6, 7, 0))]
            forged2 += [("forged:type=3,crc", A.forge_crc("c2s", 3, 12, 1, 0, [(2, 3, bytes(8))], now_)),
                        ("forged:type=3,attacker-key", A.seal(atk.attacker_key, "c2s", 3, 13, 1, 0, [(2, 3, bytes(8))], now_))]
            hello2 = atk.genuine("c2s", hv2.addr, n=1, pick="any", types=(1,))
            if hello2:
                forged2.append(("replay:own-hello", hello2[0]))
                # the victim's own genuine hello body under fresh headers (the server holds the key, the client's first encrypted
                # datagram - the challenge response - is still under way)
                dec2 = L.decode_datagram(hello2[0], None)
                if dec2.ok and dec2.msgs:
                    for k in range(3):
                        forged2.append(("forged:rewrapped-genuine-hello", A.forge_crc("c2s", 1, r.randint(2, 60000), r.choice([1, int(tc2.seq_sending), r.randint(1, 65535)]),
                                                                                    r.choice([0, 0xFFFFFFFF]), [(r.choice([dec2.msgs[0][0], r.randint(2, 60000)]), 1, dec2.msgs[0][2])], now_)))
                    run.c.inc("c01_rewrapped_hello_to_half_open_server")
            for label, d in forged2:
                w.offer_server(hv2.addr, d, label)
                atk.injected.inc("server|" + label.split("@")[0].split(":")[0])
                if r.random() < 0.5:
                    w.step()
            w.step(2)
            run.c.inc("c01_half_open_forged_from_victim_address")
            still2 = w.ctxt.temp_connections.get(hv2.addr)
            if still2 is not tc2 or getattr(tc2.status, "value", 0) == 4:
                run.report("C01", "half-open-connection-removed-by-unauthenticated-datagrams", "after forged datagrams from the victim's own address its half-open connection is %s (status %s)" % (
                    "gone" if still2 is None else "another object" if still2 is not tc2 else "still there", tc2.status), {"origin": "forged", "role": "server", "phase": w.phase})
            w.net.filters.remove(hold2)
            w.net.inject("c2s", hv2.addr, held2[0], "honest")
            w.step(4)
            if hv2.addr not in w.ctxt.connections:
                run.report("C01", "half-open-connection-removed-by-unauthenticated-datagrams", "the victim's genuine challenge response was not honoured after forged datagrams from its address (server has %s)" % (
                    "a half-open entry" if hv2.addr in w.ctxt.temp_connections else "nothing",), {"origin": "forged", "role": "server", "phase": w.phase})
            else:
                run.c.inc("c01_handshake_completed_despite_forgeries_from_own_address")
        elif hold2 in w.net.filters:
            w.net.filters.remove(hold2)
        hv2.udp.disconnect()
        w.step(5)
        w.remove_client(hv2)
        # ---------- phase: a victim in the middle of its handshake (the server holds a half-open connection WITH a session key for it)
        #            while well-formed hellos arrive from more than a thousand other addresses: nothing those addresses send may
        #            take the victim's connection away before its own timeout
        if heavy and case % 4 == 0:
            w.phase = "half-open-under-flood"
            w.net.heal(0.002)
            hv = w.add_client()
            held_ch = []
            hold_ch = lambda direction, addr, d, info: (held_ch.append(d) or "drop") if (direction == "c2s" and addr == hv.addr and len(d) >= 20 and d[12] == 3) else None
            w.net.filters.append(hold_ch)
            hv.connect()
            w.step(4)
            tc0 = w.ctxt.temp_connections.get(hv.addr)
            hello_d = atk.genuine("c2s", hv.addr, n=1, pick="any", types=(1,))
            if tc0 is not None and hello_d and held_ch:
                t_fl = w.clock.now
                for k in range(1100):
                    w.offer_server(("10.20.%d.%d" % (k >> 8, k & 255), 3000 + case), hello_d[0], "forged:hello-flood")
                    if k % 200 == 199:
                        w.step()
                atk.injected.inc("server|forged", 1100)
                w.step(2)
                run.c.inc("c01_half_open_under_flood")
                still = w.ctxt.temp_connections.get(hv.addr)
                if still is not tc0 and w.clock.now - t_fl < 1.5:
                    run.report("C01", "half-open-connection-removed-by-unauthenticated-datagrams", "after 1100 hellos from other addresses the victim's half-open connection (which holds its session key) is %s, %.2fs into its handshake" % (
                        "gone" if still is None else "another object", w.clock.now - t_fl), {"origin": "forged:hello-flood", "role": "server", "phase": w.phase})
                w.net.filters.remove(hold_ch)
                w.net.inject("c2s", hv.addr, held_ch[0], "honest")
                w.step(4)
                if hv.addr not in w.ctxt.connections and w.clock.now - t_fl < 1.5:
                    run.report("C01", "half-open-connection-removed-by-unauthenticated-datagrams", "the victim's genuine challenge response was not honoured after the flood (client status %s, server has %s)" % (
                        hv.udp.conn.status, "a half-open entry" if hv.addr in w.ctxt.temp_connections else "nothing"), {"origin": "forged:hello-flood", "role": "server", "phase": w.phase})
                else:
                    run.c.inc("c01_handshake_completed_despite_flood")
            elif hold_ch in w.net.filters:
                w.net.filters.remove(hold_ch)
            hv.udp.disconnect()
            w.step(5)
            w.remove_client(hv)
            w.step(int(2.2 / w.dt))              # the flood's half-open entries expire
        # ---------- phase: a persistent off-path attacker: thousands of forged datagrams from an established victim's address,
        #            spread over seconds, none authentic: however many there were, the connection stays what it is
        if heavy and (case // 2 + cfg["shard"]) % 4 == 1:
            w.phase = "established-under-forged-stream"
            w.net.heal(0.002)
            sc_a = run.sconn(a)
            if sc_a is not None:
                for k in range(4600):
                    pt = (4, 6, 5, 3, 7)[k % 5]
                    d = A.header("c2s", int(w.clock.now), (k * 7) % 65535 + 1, 1, pt, 24, 1, 0) + r.randbytes(40)
                    w.offer_server(a.addr, d, "forged:stream")
                    if k % 40 == 39:
                        chatter()
                        w.step()
                atk.injected.inc("server|forged", 4600)
                w.step(3)
                atk.continuity(a, sc_a, "4600 forged")
                run.c.inc("c01_established_under_forged_stream")
        # ---------- phase: a forged datagram with the victim's NEXT sequence number is queued at the server just ahead of the
        #            genuine one (same address, same tick): the genuine one is still processed
        w.phase = "queued-ahead-of-genuine"
        w.net.heal(0.002)
        w.step(40)
        g = w.connect_client()
        g.updates_per_step = 1
        w.step(10)
        held = []
        hold_g = lambda direction, addr, d, info: (held.append(d) or "drop") if (direction == "c2s" and addr == g.addr) else None
        w.net.filters.append(hold_g)
        for k in range(6):
            rec = run.app.send(g, "client", 48, 0, with_cb=True)
            del held[:]
            w.run_until(lambda ww: any(len(d) > 60 for d in held), 12)
            batch = list(held)
            del held[:]
            sg = run.sconn(g)
            if sg is None or not batch:
                break
            calls0 = run.c.get("recv_calls", 0)
            for d in batch:
                hdr = L.parse_header(d)
                forged = [("forged:same-seq-garbage", d[:20] + r.randbytes(len(d) - 20)),
                          ("forged:same-seq-crc", A.forge_crc("c2s", d[12], hdr[2], hdr[3], 0, [(1, 6, bytes(12))], int(w.clock.now))),
                          ("header-rewrite:same-seq-truncated", d[:20 + r.randint(0, 8)])][k % 3]
                w.offer_server(g.addr, forged[1], forged[0])
                atk.injected.inc("server|" + forged[0].split(":")[0])
                w.offer_server(g.addr, d, "honest")
            w.step(2)
            run.c.inc("c01_forged_queued_ahead_of_genuine", len(batch))
            if not run.app.deliveries.get(rec["id"]):
                run.report("C01", "forged-datagram-displaces-genuine", "a %s datagram carrying the same sequence number was queued at the server just ahead of a genuine datagram "
                           "of the same address: the genuine message was not processed (%d of %d datagrams reached the connection)" % (
                               forged[0], run.c.get("recv_calls", 0) - calls0, 2 * len(batch)), {"origin": forged[0], "role": "server", "phase": w.phase})
            else:
                run.c.inc("c01_genuine_processed_despite_forgery_ahead")
        w.net.filters.remove(hold_g)
        w.step(5)

        # ---------- phase: the application closed the connection, the object still receives.  Server: the handler kicks the client
        #            from inside handle_message, forged hellos from that address sit behind it in the same batch.
        w.phase = "closed-by-application"
        kicked = []

        def kicker(client, seqnum, msg):
            if bytes(msg).endswith(b"KICKME") and not kicked:
                kicked.append(client)
                client.disconnect()
        w.handler.on.setdefault("message", []).append(kicker)
        w.net.filters.append(hold_g)
        del held[:]
        g.udp.send(L.make_payload(g.sender_id, 777777, 40)[:-6] + b"KICKME", retry=0)
        w.run_until(lambda ww: any(len(d) > 60 for d in held), 12)
        batch = list(held)
        w.net.filters.remove(hold_g)
        sg = run.sconn(g)
        if sg is not None and batch:
            for d in batch:
                w.offer_server(g.addr, d, "honest")
            hseq = lambda k: (int(g.udp.conn.seq_sending) + 1 + k) % 65535 + 1
            hello = atk.genuine("c2s", g.addr, n=1, pick="any", types=(1,))
            items = []
            for k, (label, d) in enumerate(A.Forger(r, "c2s").forged(w.clock.now, hseq(0), 1, 0, 1, app)):
                if label.startswith("forged:type=1") or k % 7 == 0:
                    items.append((label, d))
            if hello:
                # the client's own genuine hello body under a fresh header
                dec = L.decode_datagram(hello[0], None)
                if dec.ok and dec.msgs:
                    items.insert(0, ("forged:rewrapped-genuine-hello", A.forge_crc("c2s", 1, hseq(1), 1, 0, [(1, 1, dec.msgs[0][2])], int(w.clock.now))))
            from mpgameserver import EllipticCurvePrivateKey
            from mpgameserver.connection import HandshakeClientHelloMessage
            try:
                m = HandshakeClientHelloMessage()
                m.client_pubkey = EllipticCurvePrivateKey.new().getPublicKey()
                m.client_version = 0
                items.insert(0, ("forged:attacker-client-hello", A.forge_crc("c2s", 1, hseq(2), 1, 0, [(1, 1, m.dumpb())], int(w.clock.now))))
            except Exception:
                run.c.inc("c01_attacker_hello_not_built")
            for label, d in items:
                w.offer_server(g.addr, d, label)
                atk.injected.inc("server|" + label.split("@")[0].split(":")[0])
            run.c.inc("c01_forged_at_kicked_connection", len(items))
            w.step(3)
            if kicked:
                run.c.inc("c01_kicked_in_handle_message")
                if w.ctxt.connections.get(g.addr) is kicked[0] and getattr(kicked[0].status, "value", 0) != 4:
                    run.report("C01", "closed-connection-revived-by-unauthenticated-datagram", "a connection the handler had closed is %s again after forged hellos from its address" % (
                        kicked[0].status,), {"origin": "forged", "role": "server", "phase": w.phase})
        w.handler.on["message"].remove(kicker)

        # ---------- phase: the client holds the session key but has not yet seen an encrypted datagram of the server (the server hello
        #            arrived, everything behind it is still under way): forgeries of every class, and the genuine server hello body of
        #            THIS session under fresh headers (new datagram / message numbers, ack fields naming the client's pending sends)
        w.phase = "client-keyed-before-first-server-datagram"
        w.net.heal(0.002)
        for round_ in range(2 if heavy else 1):
            hw = w.add_client()
            hw.updates_per_step = 2
            gate = lambda direction, addr, d, info, _c=hw: "drop" if (direction == "s2c" and addr == _c.addr and len(d) >= 20 and d[12] != 2) else None
            w.net.filters.append(gate)
            hw.connect()
            w.run_until(lambda ww: hw.udp.conn is not None and hw.udp.conn.session_key_bytes is not None, 60)
            cw = hw.udp.conn
            if cw is not None and cw.session_key_bytes is not None:
                for _ in range(3):
                    run.app.send(hw, "client", 48, r.choice([0, -1]), with_cb=True)
                    w.step()
                items = atk.classes_for("s2c", hw, cw, False)
                items = r.sample(items, min(len(items), 36))
                for gd in atk.genuine("s2c", hw.addr, n=1, pick="any", types=(2,)):
                    dec = L.decode_datagram(gd, None)
                    if not (dec.ok and dec.msgs):
                        continue
                    hp = dec.msgs[0][2]
                    pend = sorted(int(s) for s in cw.pending_acks)
                    for k in range(8):
                        seq = r.choice([dec.seq % 65535 + 1, (dec.seq + r.randint(2, 30)) % 65535 + 1, r.randint(1, 65535)])
                        ack = pend[-1] if pend and k % 4 != 3 else r.randint(1, 65535)
                        mseq = r.choice([dec.msgs[0][0], dec.msgs[0][0] % 65535 + 1, r.randint(1, 65535)])
                        items.append(("forged:rewrapped-genuine-hello", A.forge_crc("s2c", 2, seq, ack, r.choice([0, 0xFFFFFFFF, r.getrandbits(32)]), [(mseq, 2, hp)], int(w.clock.now))))
                    # ... as one of several messages, and with one bit of the signed body changed
                    items.append(("forged:rewrapped-genuine-hello,count=2", A.forge_crc("s2c", 2, (dec.seq + 3) % 65535 + 1, pend[-1] if pend else 1, 0xFFFFFFFF,
                                                                                      [(dec.msgs[0][0] % 65535 + 1, 2, hp), (dec.msgs[0][0] % 65535 + 2, 6, L.make_payload(99, r.randrange(1 << 30), 24))], int(w.clock.now))))
                    fb = bytearray(hp)
                    fb[r.randrange(len(fb))] ^= 1 << r.randrange(8)
                    items.append(("forged:rewrapped-hello-bitflip", A.forge_crc("s2c", 2, (dec.seq + 4) % 65535 + 1, pend[-1] if pend else 1, 0xFFFFFFFF, [(dec.msgs[0][0] % 65535 + 1, 2, bytes(fb))], int(w.clock.now))))
                    items.append(("replay:own-hello", gd))
                r.shuffle(items)
                in_window = int(cw.stats.received) <= 1
                reached0 = sum(n for k, n in auth.by_class.items() if k.startswith("client|keyed|forged:rewrapped"))
                atk.present(items, "client", hw, per_tick=2)
                reached = sum(n for k, n in auth.by_class.items() if k.startswith("client|keyed|forged:rewrapped")) - reached0
                if in_window and int(cw.stats.received) <= 1 and reached:
                    run.c.inc("c01_rewrapped_hello_reached_client_in_key_window", reached)
            if gate in w.net.filters:
                w.net.filters.remove(gate)
            # the withheld datagrams are gone; the session itself goes on: one message each way
            rec = run.app.send(hw, "client", 48, -1, with_cb=True)
            if w.run_until(lambda ww: bool(run.app.deliveries.get(rec["id"])), 120) and run.sconn(hw) is not None:
                rec2 = run.app.send(run.sconn(hw), "server", 48, -1, with_cb=True)
                if w.run_until(lambda ww: bool(run.app.deliveries.get(rec2["id"])), 120):
                    run.c.inc("c01_session_went_on_after_key_window")
            hw.udp.disconnect()
            w.step(5)
            w.remove_client(hw)

        # ---------- phase: an on-path attacker APPENDS to genuine datagrams in flight: to both hellos of a handshake (the endpoints hold
        #            no key / have just derived it), then to the encrypted datagrams of the session.  The ExtensionMonitor judges
        w.phase = "appended-to-genuine"
        w.net.heal(0.002)
        for round_ in range(6 if heavy else 4):
            hx = w.add_client()
            hx.updates_per_step = 2
            tamper = atk.extender(hx, 0.35)
            w.net.filters.append(tamper)
            try:
                w.connect_client(hx, max_ticks=240, attempts=3)
                run.c.inc("c01_handshake_completed_with_extended_hellos")
            except L.Inconclusive:
                run.c.inc("c01_handshake_with_extended_hellos_failed")
            else:
                for _ in range(14):
                    run.app.send(hx, "client", r.choice([24, 60, 300]), r.choice([0, -1]), with_cb=True)
                    sx = run.sconn(hx)
                    if sx is not None:
                        run.app.send(sx, "server", r.choice([24, 60, 300]), r.choice([0, -1]), with_cb=True)
                    w.step()
            if tamper in w.net.filters:
                w.net.filters.remove(tamper)
            w.step(6)
            if hx.udp.conn is not None:
                hx.udp.disconnect()
            w.step(5)
            w.remove_client(hx)

        # ---------- phase: after disconnect (client side: the UdpClient keeps calling update())
        w.phase = "disconnected"
        a.udp.disconnect()
        w.step(20)
        late = atk.classes_for("s2c", a, a.udp.conn, False)
        late = r.sample(late, min(len(late), 60))
        # hello-typed datagrams towards the closed client: forged ones and the genuine hello body of this session under a fresh header
        cseq = lambda k: (int(a.udp.conn.bitfield_pkt.current_seqnum) + 1 + k) % 65535 + 1
        late += [(label, d) for label, d in A.Forger(r, "s2c").forged(w.clock.now, cseq(0), 1, 0, 1, app) if label.startswith("forged:type=2")]
        for gd in atk.genuine("s2c", a.addr, n=1, pick="any", types=(2,)):
            dec = L.decode_datagram(gd, None)
            if dec.ok and dec.msgs:
                late.append(("forged:rewrapped-genuine-hello", A.forge_crc("s2c", 2, cseq(3), 1, 0, [(1, 2, dec.msgs[0][2])], int(w.clock.now))))
                run.c.inc("c01_rewrapped_hello_to_closed_client")
        st0 = a.udp.conn.status
        atk.present(late, "client", a, per_tick=2)
        if a.udp.conn.status != st0:
            run.report("C01", "closed-connection-revived-by-unauthenticated-datagram", "the client had disconnected (%s); after forged hello-typed datagrams its status is %s" % (
                st0, a.udp.conn.status), {"origin": "forged", "role": "client", "phase": w.phase})

        w.net.heal()
        w.step(30)
        # ---------- world-level oracle: whatever arrived, the clients kept talking to the server they connected to
        for t, caddr, dest, nbytes, origin in w.misdirected[:3]:
            run.report("C01", "client-redirected-by-unauthenticated-datagram", "client %s addressed a datagram of %d bytes to %s instead of the server after reading a %s datagram" % (
                caddr, nbytes, dest, origin), {"origin": str(origin), "role": "client", "phase": "any"})
        ext.close()
        # ---------- bookkeeping
        for v in run.report.violations:
            if v["property"] == "C01":
                v = dict(v)
                v["case_key"] = key
                out["violations"].append(v)
        out["counters"].merge(run.c)
        out["counters"].merge({"viol:" + k: n for k, n in run.report.counts.items() if k.startswith("C01")})
        out["counters"].merge({"inj:" + k: n for k, n in atk.injected.items()})
        out["counters"].merge({"reached:" + k: n for k, n in auth.by_class.items()})
        out["counters"].merge({"extended:" + k: n for k, n in ext.judged.items()})
        out["counters"].inc("client_update_raised_on_garbage(observation)", run.c.get("client_update_raised", 0))
        out["distinct"].update(h64(k, d) for d, k in w.origins.items() if k not in ("dup",))
        if len(out["samples"]) < 3:
            ex = [(k, d.hex()[:96]) for d, k in list(w.origins.items())[:400:57]]
            out["samples"].append({"case": key, "heavy": heavy, "injections": sum(atk.injected.values()), "examples": ex})
    return sum(atk.injected.values())


def run_shard(cfg):
    out = {"violations": [], "counters": Counter(), "samples": [], "distinct": set()}
    n = 0
    for case in range(cfg["n"]):
        if cfg.get("only_case") and cfg["only_case"] != [cfg["seed"], cfg["shard"], case]:
            continue
        n += history(cfg, case, out)
    return {"evaluations": n, "distinct": sorted(out["distinct"]), "counters": dict(out["counters"]),
            "violations": out["violations"][:60], "samples": out["samples"]}


def finish(tier, seed, results):
    m = merge(results)
    inconclusive = []
    need(m["counters"], ["c01_forged_reached_recv", "c01_forged_keyed", "c01_forged_prekey", "recv_genuine_changed_state",
                         "inj:server|forged", "inj:client|forged", "inj:server|bitflip", "inj:client|bitflip",
                         "inj:server|truncation", "inj:server|header-rewrite-crc", "inj:server|wrong-key", "inj:client|wrong-key",
                         "inj:server|reflection", "inj:server|random", "c01_continuity_checks", "c01_sessions_survived_silent_phase", "c01_forged_queued_ahead_of_genuine",
                         "c01_genuine_processed_despite_forgery_ahead", "c01_kicked_in_handle_message", "c01_forged_at_kicked_connection", "c01_rewrapped_hello_to_closed_client",
                         "client_datagrams_from_foreign_address", "c01_handshake_completed_despite_flood", "c01_handshake_completed_despite_forgeries_from_own_address",
                         "c01_rewrapped_hello_reached_client_in_key_window", "c01_rewrapped_hello_to_half_open_server", "c01_session_went_on_after_key_window",
                         "inj:server|extension", "inj:client|extension", "c01_extended_hello_judged_server", "c01_extended_hello_judged_client",
                         "c01_extended_keyed_judged_server", "c01_extended_keyed_judged_client", "c01_extended_genuine_accepted"], inconclusive)
    cov = {
        "evaluations": m["evaluations"],
        "distinct_nontrivial": m["distinct_nontrivial"],
        "rule": "one evaluation = one attacker-crafted datagram presented to a live endpoint (client via its socket, server via "
                "TwistedServer.datagramReceived) in one of the phases client-prekey / server-new-address / established / "
                "pending-sends / other-session / disconnected. Classes: forged CRC-form datagrams for every packet type x count "
                "{0,1,2,3,255} x inner message types with fresh sequence numbers and ack fields naming really pending datagrams; every "
                "single-bit flip and every truncation of short genuine datagrams (all positions in the 'heavy' histories, samples "
                "otherwise); header rewrites with and without a recomputed CRC; ciphertext under the attacker's key and under "
                "another live session's key; reflections; random bytes; the session's own genuine hello body under fresh headers, "
                "towards the client between its key agreement and the first encrypted server datagram, towards the server's half-open "
                "connection, and after close; extensions = a genuine datagram in flight (both hellos, encrypted datagrams) with an "
                "appended CRC packet of any type x count / attacker-sealed packet / random bytes. distinct = distinct (class, datagram bytes)",
        "fault_classes": sorted(k for k in m["counters"] if k.startswith("inj:")),
        "reached_recv_datagram_by_role_keystate_class": {k[8:]: v for k, v in m["counters"].items() if k.startswith("reached:")},
        "effects_seen": {k: v for k, v in m["counters"].items() if k.startswith("viol:")},
        "samples": m["samples"],
        "counters": {k: v for k, v in m["counters"].items() if not k.startswith("reached:")},
    }
    return {"coverage": cov, "inconclusive": inconclusive,
            "assumptions": ["authentic = some datagram recorded at the honest peer's tap for this session is a prefix of the presented "
                            "datagram; an extension G + X of a genuine datagram counts as G and ONLY as G: the messages dispatched, the window "
                            "moves and the acks taken while it is processed must be those of G (monitor's own decode of G), and without a key "
                            "no application message may be queued",
                            "AES-GCM/ECDSA themselves are trusted; what is monitored is that every forgery class we can construct is rejected",
                            "UdpClient.update() raising on garbage (header parse) is recorded as an observation, not a C01 violation",
                            "before a key exists a well-formed single hello of the expected kind may be processed (C02 decides acceptance)"]}
