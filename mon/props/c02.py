"""C02 - the handshake authenticates the server, agrees one key, promotes on proof of key.

Thousands of real handshakes (real UdpClient, real server loop) with an active
attacker on the path.  Monitors:
 (a) the honest root key's sign() is wrapped: the set of signed payloads is known.
     crypto.ecdh_client is wrapped: what a client derived its key from is known.  A
     client that was given a pinned key and ends up keyed/CONNECTED must have used
     (server_pubkey, salt, token) whose serialisation is in the signed set, and the
     signature in the datagram it consumed must verify under the pinned key with the
     cryptography package directly.  Otherwise it must be unconnected with no key.
 (b) after an undisturbed handshake both ends hold the same 16-byte key and token.
 (c) handler.connect / membership in ctxt.connections / server-side CONNECTED only if
     the server was offered a datagram from that address which the monitor itself can
     open with that connection's key to a CHALLENGE_RESP carrying the token it issued.
     Challenge responses under the right key carry every one-bit alteration of the issued
     token as a 64-bit integer and issued + m * 2**k (any sign): none is "the token it issued".
 (b') honest handshakes under a clock that moves on with every read (the virtual clock
     stands in for `time` in EVERY library module), the arrival of the client hello aligned
     so that a whole second of time() / monotonic() / perf_counter() passes between any two
     consecutive clock reads made while the hello is being answered: (b) still holds.
"""
import math
import struct
from io import BytesIO

from mon.core.merge import merge, need
from mon.core.util import Counter, h64, rng
from mon.engines import adversary as A
from mon.engines import lockstep as L

ID = "C02"
LEVEL = "fault_enumeration"
SHARD_TIMEOUT = {"quick": 600, "thorough": 3000}


def plan(tier, seed):
    if tier == "quick":
        return [{"tier": tier, "seed": seed, "shard": i, "nshards": 12, "budget": 700, "subprocess": True} for i in range(12)]
    return [{"tier": tier, "seed": seed, "shard": i, "nshards": 32, "budget": 20000, "rounds": 100, "subprocess": True} for i in range(32)]


class Session(object):
    """one world, many handshakes"""

    def __init__(self, r, out, root_curve=None):
        from mpgameserver import crypto, EllipticCurvePrivateKey
        import mpgameserver.connection as C
        self.C = C
        self.crypto = crypto
        self.r = r
        self.out = out
        self.c = out["counters"]
        root_key = None
        if root_curve is not None:
            # the server's long-term key is whatever key file the operator made: other curves than the
            # one EllipticCurvePrivateKey.new() picks are ordinary (fromPEM / fromBytes accept them)
            from cryptography.hazmat.primitives.asymmetric import ec
            from cryptography.hazmat.backends import default_backend
            root_key = EllipticCurvePrivateKey.fromBytes(
                EllipticCurvePrivateKey(ec.generate_private_key(getattr(ec, root_curve)(), default_backend())).getBytes())
            self.c.inc("worlds_root_curve_" + root_curve)
        self.w = L.World(r, ctxt_setup=lambda ctxt: ctxt.setTempConnectionTimeout(1.0), root_key=root_key)
        w = self.w
        self.signed = set()
        orig_sign = w.root_key.sign

        def sign(payload):
            self.signed.add(bytes(payload))
            self.c.inc("root_key_signatures")
            return orig_sign(payload)
        w.root_key.sign = sign
        self.derived = {}           # id(client private key) -> (server pub bytes, salt)
        self._orig_ecdh = crypto.ecdh_client

        def ecdh_client(priv, server_pub, salt):
            self.derived[id(priv)] = (server_pub.getBytes(), bytes(salt), priv)
            self.c.inc("client_key_derivations")
            return self._orig_ecdh(priv, server_pub, salt)
        crypto.ecdh_client = ecdh_client
        self.offered = {}           # addr -> list of datagrams offered to the server
        w.offer_hooks.append(lambda addr, d, origin: self.offered.setdefault(addr, []).append(d))
        w.handler.on["connect"] = [self.on_connect]
        # the virtual clock stands in for `time` in every library module that imported it (the engine patches the three it knows)
        import sys as _sys
        import time as _real_time
        self._time_patched = []
        for _name, _mod in list(_sys.modules.items()):
            if (_name == "mpgameserver" or _name.startswith("mpgameserver.")) and _mod is not None and getattr(_mod, "time", None) is _real_time:
                _mod.time = w.clock
                self._time_patched.append(_mod)
        self._real_time = _real_time
        self.other_root = EllipticCurvePrivateKey.new()      # a different server / the attacker's root key
        self.attacker_eph = EllipticCurvePrivateKey.new()
        self.n = 0
        self.case = None
        w.start()

    def close(self):
        self.crypto.ecdh_client = self._orig_ecdh
        self.w.clock.read_advance = 0.0
        try:
            self.w.stop()
        finally:
            for _mod in self._time_patched:
                _mod.time = self._real_time

    def viol(self, mech, msg):
        self.c.inc("viol:" + mech)
        if sum(1 for v in self.out["violations"] if v["mechanism"] == mech) < 6:
            self.out["violations"].append({"mechanism": mech, "msg": msg + " [attack: %s]" % (self.case,), "case": {"attack": self.case},
                                           "case_key": self.case})

    # ----- (c) promotion needs proof of key
    def on_connect(self, client):
        self.c.inc("server_connect_events")
        self.check_promotion(client, "handler.connect")

    def has_proof(self, client):
        """was the server offered a datagram from the connection's address that opens under the connection's key to a
        CHALLENGE_RESP carrying the token it issued?"""
        key, token = client.session_key_bytes, client.token
        for d in self.offered.get(client.addr, []):
            dec = L.decode_datagram(d, key)
            if dec.ok and dec.form == "gcm" and dec.ptype == 3 and dec.count == 1:
                try:
                    msg = self.C.Serializable.loadb(dec.msgs[0][2])
                    if type(msg).__name__ == "HandshakeClientChallengeResponseMessage" and msg.token == token:
                        return True
                except Exception:
                    pass
        return False

    def check_promotion(self, client, where):
        key, token = client.session_key_bytes, client.token
        ok = False
        other_tokens = []
        for d in self.offered.get(client.addr, []):
            dec = L.decode_datagram(d, key)
            if dec.ok and dec.form == "gcm" and dec.ptype == 3 and dec.count == 1:
                try:
                    msg = self.C.Serializable.loadb(dec.msgs[0][2])
                    if type(msg).__name__ == "HandshakeClientChallengeResponseMessage":
                        if msg.token == token:
                            ok = True
                            break
                        other_tokens.append(msg.token)
                except Exception:
                    pass
        if ok:
            self.c.inc("promotions_with_proof")
        else:
            self.viol("promoted-without-proof-of-key",
                      "%s for %s although no datagram from that address opens under the connection's key to a CHALLENGE_RESP with its token" % (where, client.addr))
            if other_tokens:
                self.viol("promoted-on-token-not-issued",
                          "%s for %s: the server issued token %r (0x%X) and the only challenge responses that open under the connection's key carry %s" % (
                              where, client.addr, token, token, ", ".join("%r (0x%X)" % (t, t & 0xFFFFFFFFFFFFFFFF) if isinstance(t, int) else repr(t) for t in other_tokens[:3])))

    # ----- (a) what did the client accept
    def check_client(self, cl, pinned):
        from cryptography.hazmat.primitives.asymmetric import ec
        from cryptography.hazmat.primitives import hashes
        conn = cl.udp.conn
        C = self.C
        keyed = conn.session_key_bytes is not None
        connected = getattr(conn.status, "value", 0) == 2
        self.c.inc("client_outcomes_checked")
        if not (keyed or connected):
            self.c.inc("client_left_unconnected")
            return False
        self.c.inc("client_keyed")
        if keyed != connected:
            self.viol("key-status-mismatch", "client has key=%s but status %s" % (keyed, conn.status))
        if keyed and len(conn.session_key_bytes) != 16:
            self.viol("key-length", "client key of %d bytes" % len(conn.session_key_bytes))
        if not pinned:
            self.c.inc("unpinned_client_not_judged")
            return True
        rec = self.derived.get(id(conn.session_key))
        if rec is None:
            self.viol("key-without-derivation", "client holds a key that was not derived through ecdh_client")
            return True
        pub_bytes, salt, _ = rec
        tmp = BytesIO()
        C.serialize_value(tmp, pub_bytes)
        C.serialize_value(tmp, salt)
        C.serialize_value(tmp, conn.token)
        if tmp.getvalue() not in self.signed:
            self.viol("client-keyed-from-unsigned-parameters",
                      "client with a pinned key adopted a session key from (server_pubkey, salt, token) that the matching private key never signed")
        else:
            self.c.inc("client_params_in_signed_set")
        # independent verification of the signature in the datagram the client consumed
        d = cl.hello_seen
        try:
            h = L.parse_header(d)
            body = d[20:20 + h[5]]
            st = BytesIO(body[2:])
            st.read(2)
            root_pub = C.deserialize_value(st)
            payload = C.deserialize_value(st)
            signature = C.deserialize_value(st)
            self.w.root_pub.key.verify(signature, payload, ec.ECDSA(hashes.SHA256()))
            self.c.inc("signature_verified_independently")
        except Exception as e:
            self.viol("client-keyed-from-unverifiable-hello", "the server hello the client consumed does not verify under the pinned key (%r)" % (e,))
        return True

    # ----- one handshake under attack
    def handshake(self, attack, pinned=True, pinned_key=None):
        """attack: dict(name, filter) where filter(direction, addr, datagram, info) is a network filter"""
        w = self.w
        self.n += 1
        self.case = attack["name"]
        addr = ("10.2.%d.%d" % ((self.n >> 8) & 255, self.n & 255), 20000 + (self.n % 30000))
        cl = L.ClientEnd(w, addr, 1, pinned=pinned, public_key=pinned_key)
        cl.hello_seen = None
        w.clients.append(cl)
        w.clients_by_addr[addr] = cl
        orig_recv = cl.sock.recvfrom

        def recvfrom(n):
            d, a = orig_recv(n)
            if len(d) >= 20 and d[12] == 2 and (cl.udp.conn is None or cl.udp.conn.session_key_bytes is None):
                cl.hello_seen = d        # (the hello the client may key itself from: later hello-typed datagrams are attacks)
            return d, a
        cl.sock.recvfrom = recvfrom
        flt = attack.get("filter")
        if flt:
            f = lambda direction, a, d, info: flt(direction, a, d, cl) if a == addr else None
            w.net.filters.append(f)
        if attack.get("retry_same_client"):
            # a first attempt on this UdpClient goes unanswered and ends DISCONNECTED; the application then calls connect()
            # again on the SAME object (the pin given to the constructor must still hold)
            drop = lambda direction, a, d, info: "drop" if (a == addr and direction == "s2c") else None
            w.net.filters.insert(0, drop)
            cl.udp.setConnectionTimeout(0.3)
            cl.connect()
            w.run_until(lambda _w: getattr(cl.udp.conn.status, "value", 0) == 4, max_ticks=120)
            for _ in range(40):
                # (the idle server loop sleeps until a datagram arrives: junk from elsewhere lets it sweep its half-open entries)
                if addr not in w.ctxt.temp_connections:
                    break
                w.net.inject("c2s", ("10.250.0.1", 999), A.forge_crc("c2s", 5, 1, 0, 0, [(1, 5, b"")], int(w.clock.now)), "junk")
                w.step(5)
            w.net.filters.remove(drop)
            if getattr(cl.udp.conn.status, "value", 0) == 4 and addr not in w.ctxt.temp_connections:
                self.c.inc("retries_on_same_client_object")
            cl.hello_seen = None
        if attack.get("second_session_same_client"):
            # a complete first session on this UdpClient (the application reads its token), a graceful disconnect, then the
            # session under test on the SAME object: what the client reports is what THIS handshake agreed on
            cl.connect()
            w.run_until(lambda _w: getattr(cl.udp.conn.status, "value", 0) == 2 and addr in w.ctxt.connections, 60)
            first_token = cl.udp.token() if getattr(cl.udp.conn.status, "value", 0) == 2 else None
            cl.udp.disconnect()
            w.run_until(lambda _w: addr not in w.ctxt.connections, 120)
            if first_token is not None and addr not in w.ctxt.connections:
                self.c.inc("second_sessions_on_same_client_object")
            cl.hello_seen = None
        cb0 = len(cl.connect_cb)
        ph = attack.get("clock_phase")
        if ph:
            # the tick in which the client hello arrives took a little longer (a forward jump of less than a second), so that the
            # next whole second of the named clock comes `lead` seconds after the arrival; from the arrival on the clock moves on
            # by `step` with every read, as a real clock does.  Every read until the answer is on the wire is recorded.
            clock, st = w.clock, {"reads": []}
            off = {"time": 0.0, "monotonic": clock.monotonic() - clock.now, "perf_counter": clock.perf_counter() - clock.now}[ph["which"]]
            lead = ph["lead"]
            plain_read = clock._read

            def recording_read():
                t = plain_read()
                if "t_wire" not in st:
                    st["reads"].append(t)
                return t

            def on_offer(a, d, origin):
                if a == addr and len(d) >= 20 and d[12] == 1 and "t_off" not in st:
                    st["boundary"] = math.ceil(clock.now + off + lead) - off
                    clock.now = st["boundary"] - lead
                    clock.read_advance = ph["step"]
                    clock._read = recording_read
                    st["t_off"] = clock.now

            def on_wire(direction, a, d, client, n):
                if direction == "s2c" and a == addr and len(d) >= 20 and d[12] == 2 and "t_off" in st and "t_wire" not in st:
                    st["t_wire"] = clock.now
            w.offer_hooks.append(on_offer)
            w.wire_hooks.append(on_wire)
        cl.connect()
        before_events = self.c.get("server_connect_events", 0)
        w.step(attack.get("ticks", 8))
        if ph:
            clock.read_advance = 0.0
            clock.__dict__.pop("_read", None)
            w.offer_hooks.remove(on_offer)
            w.wire_hooks.remove(on_wire)
            if "t_wire" in st:
                self.c.inc("hellos_answered_under_a_clock_that_advances_per_read")
                ts = st["reads"]
                attack["read_times"] = [t - st["t_off"] for t in ts]
                for i in range(len(ts) - 1):
                    # (two consecutive reads of the same tick: nothing but the reads themselves moved the clock between them)
                    if ts[i] < st["boundary"] <= ts[i + 1] and ts[i + 1] - ts[i] < 1.5 * ph["step"]:
                        attack["crossed_gap"] = i
                        self.c.inc("hellos_answered_with_a_whole_second_between_two_consecutive_reads_of_" + ph["which"])
        for extra in attack.get("then", []):
            extra(cl)
            w.step(4)
        if flt:
            w.net.filters.remove(f)
        if attack.get("linger"):
            # the application keeps calling update() for many seconds after the failed attempt; then one more hello-typed datagram
            # arrives (fresh packet number, a message number the client has seen): still no key, still not connected
            w.step(int(6.5 / w.dt))
            conn_l = cl.udp.conn
            if conn_l is not None:
                for k in range(3):
                    seq_l = (int(conn_l.bitfield_pkt.current_seqnum) + 1 + k) % 65535 + 1
                    mseq_l = int(conn_l.bitfield_msg.current_seqnum) or 1
                    w.net.inject("s2c", addr, A.forge_crc("s2c", 2, seq_l, 1, 0, [(mseq_l, 2, bytes(40))], int(w.clock.now)), "forged:late-hello")
                w.step(6)
                self.c.inc("lingering_clients_after_rejected_hello")
                if cl.udp.connected() or getattr(conn_l.status, "value", 0) == 2:
                    self.viol("key-status-mismatch", "a client whose hello was rejected reports connected() = %s (status %s, key %s) after lingering 6.5 s and three more hello-typed datagrams" % (
                        cl.udp.connected(), conn_l.status, "set" if conn_l.session_key_bytes else "none"))
        keyed = self.check_client(cl, pinned and pinned_key is None or attack.get("judge_pinned", False))
        sconn = w.ctxt.connections.get(addr)
        if sconn is not None:
            self.c.inc("server_promoted")
            if getattr(sconn.status, "value", 0) == 2 and self.c.get("server_connect_events", 0) == before_events:
                self.check_promotion(sconn, "membership in connections (no connect event seen)")
        for tconn in [w.ctxt.temp_connections.get(addr)]:
            if tconn is not None and getattr(tconn.status, "value", 0) == 2:
                self.viol("temp-connection-connected", "a connection in the temporary pool reports CONNECTED")
        if attack.get("honest"):
            # (b) both ends agree
            conn = cl.udp.conn
            if sconn is None or not keyed:
                self.viol("honest-handshake-failed", "undisturbed handshake did not complete (client keyed=%s, server promoted=%s)" % (keyed, sconn is not None))
                pend = w.ctxt.temp_connections.get(addr)
                if keyed and sconn is None and pend is not None and pend.session_key_bytes is not None and pend.session_key_bytes != conn.session_key_bytes:
                    self.viol("keys-differ", "after an honest handshake the client is CONNECTED with a key the server does not hold: the server's pending "
                                             "connection for %s derived a different key (tokens: client %r, server %r)" % (addr, conn.token, pend.token))
            else:
                self.c.inc("honest_handshakes")
                if conn.session_key_bytes != sconn.session_key_bytes or len(conn.session_key_bytes) != 16:
                    self.viol("keys-differ", "after an honest handshake the two ends hold different keys")
                if conn.token != sconn.token or cl.udp.token() != sconn.token:
                    self.viol("tokens-differ", "after an honest handshake tokens differ: client connection %r, server %r, UdpClient.token() %r" % (conn.token, sconn.token, cl.udp.token()))
                n_true = sum(1 for t, ok in cl.connect_cb[cb0:] if ok)
                if n_true != 1 or getattr(conn.status, "value", 0) != 2:
                    self.viol("handshake-rerun-on-connected-client", "after an honest handshake (and %s) the client's connect callback reported success %d times, status %s" % (
                        "datagrams injected later" if attack.get("then") else "nothing else", n_true, conn.status))
        expect_fail = attack.get("must_fail")
        if expect_fail == "client" and keyed:
            self.viol("altered-hello-accepted", "the client became keyed/connected although the hello was altered/re-signed/foreign")
        if expect_fail == "server" and sconn is not None:
            self.viol("promoted-without-proof-of-key", "the server promoted the connection although the challenge was wrong")
        # tidy up: disconnect so the server pool stays small
        try:
            if cl.udp.conn is not None:
                cl.udp.disconnect()
        except Exception:
            pass
        w.step(3)
        w.remove_client(cl)
        self.out["distinct"].add(h64(attack["name"], attack.get("variant")))
        return keyed, sconn is not None


# ---------------------------------------------------------------------- attack builders

def recrc(d):
    h = L.parse_header(d)
    n = 20 + h[5]
    return d[:n] + A.crc(d[:n])


def mutate_byte(d, pos, how, r, crc_form):
    b = bytearray(d)
    if how == "low":
        b[pos] ^= 0x01
    elif how == "high":
        b[pos] ^= 0x80
    else:
        b[pos] = (b[pos] + r.randint(1, 255)) & 0xFF
    out = bytes(b)
    if crc_form and pos < len(d) - 4:
        out = recrc(out)
    return out


def replace_filter(direction_wanted, ptype, fn):
    """replace the first datagram of a given type travelling in a direction by fn(datagram, client)"""
    state = {"done": False}

    def flt(direction, addr, d, cl):
        if not state["done"] and direction == direction_wanted and len(d) >= 20 and d[12] == ptype:
            state["done"] = True
            res = fn(d, cl)
            if res is None:
                return "drop"
            return ("replace", res)
        return None
    return flt


def parse_server_hello(C, d):
    h = L.parse_header(d)
    body = d[20:20 + h[5]]
    st = BytesIO(body[2:])
    tid = st.read(2)
    root_pub = C.deserialize_value(st)
    payload = C.deserialize_value(st)
    signature = C.deserialize_value(st)
    t = BytesIO(payload)
    eph = C.deserialize_value(t)
    salt = C.deserialize_value(t)
    token = C.deserialize_value(t)
    return dict(hdr=h, msgseq=body[:2], tid=tid, root_pub=root_pub, payload=payload, signature=signature, eph=eph, salt=salt, token=token)


def build_server_hello(C, base, root_pub=None, payload=None, signature=None, eph=None, salt=None, token=None, signer=None):
    p = dict(base)
    if eph is not None or salt is not None or token is not None:
        t = BytesIO()
        C.serialize_value(t, eph if eph is not None else p["eph"])
        C.serialize_value(t, salt if salt is not None else p["salt"])
        C.serialize_value(t, token if token is not None else p["token"])
        payload = t.getvalue()
    if payload is not None:
        p["payload"] = payload
    if signer is not None:
        p["signature"] = signer.sign(p["payload"])
        p["root_pub"] = signer.getPublicKey().getBytes() if root_pub is None else root_pub
    if signature is not None:
        p["signature"] = signature
    if root_pub is not None:
        p["root_pub"] = root_pub
    st = BytesIO()
    st.write(p["msgseq"])
    st.write(p["tid"])
    C.serialize_value(st, p["root_pub"])
    C.serialize_value(st, p["payload"])
    C.serialize_value(st, p["signature"])
    body = st.getvalue()
    h = p["hdr"]
    hdr = struct.pack(">4sLHHBHBL", h[0], h[1], h[2], h[3], h[4], len(body), h[6], h[7])
    return hdr + body + A.crc(hdr + body)


def run_shard(cfg):
    out = {"violations": [], "counters": Counter(), "samples": [], "distinct": set()}
    r = rng("C02", cfg["seed"], cfg["shard"])
    S = Session(r, out, root_curve=(None, None, "SECP384R1", None, "SECP521R1", "SECP256K1")[cfg["shard"] % 6])
    C = S.C
    try:
        budget = cfg["budget"]
        shard, nshards = cfg["shard"], cfg["nshards"]
        # --- honest handshakes (control + (b)); capture the three datagrams of one for their sizes
        captured = {}

        def capture(direction, addr, d, cl):
            if len(d) >= 20:
                captured.setdefault((direction, d[12]), d)
            return None
        S.handshake({"name": "honest", "filter": capture, "honest": True})
        for i in range(5):
            S.handshake({"name": "honest", "honest": True, "variant": i})
        # network faults on the handshake datagrams: duplication / reordering / loss of each
        for ptype, direction in ((1, "c2s"), (2, "s2c"), (3, "c2s")):
            for mode in ("dup", "dup-late", "lose"):
                def fn(d, cl, mode=mode):
                    if mode == "lose":
                        return None
                    return [(d, "honest"), (d, "dup")] if mode == "dup" else [(d, "honest")]
                flt = replace_filter(direction, ptype, fn)
                att = {"name": "network-%s-type%d" % (mode, ptype), "filter": flt, "ticks": 12}
                if mode == "dup-late":
                    # the duplicate arrives after the handshake has moved on
                    def then(cl, ptype=ptype, direction=direction):
                        d = captured_last.get((direction, ptype))
                        if d is not None:
                            S.w.net.inject(direction, cl.addr, d, "dup")
                    captured_last = {}

                    def fn2(d, cl, ptype=ptype, direction=direction):
                        captured_last[(direction, ptype)] = d
                        return [(d, "honest")]
                    att = {"name": "network-dup-late-type%d" % ptype, "filter": replace_filter(direction, ptype, fn2), "then": [then], "ticks": 10}
                S.handshake(att)
        # --- structured substitutions in the server hello
        from mpgameserver import EllipticCurvePrivateKey

        def subst(name, builder, must_fail="client", **kw):
            def fn(d, cl):
                base = parse_server_hello(C, d)
                return [(builder(base, cl), "forged:" + name)]
            S.handshake(dict({"name": "substitute:" + name, "filter": replace_filter("s2c", 2, fn), "must_fail": must_fail}, **kw))

        atk_root, atk_eph = S.other_root, S.attacker_eph
        subst("token+1", lambda b, cl: build_server_hello(C, b, token=b["token"] ^ 1))
        subst("token-random", lambda b, cl: build_server_hello(C, b, token=0x40000000 | r.getrandbits(30)))
        subst("salt-flip", lambda b, cl: build_server_hello(C, b, salt=bytes([b["salt"][0] ^ 1]) + b["salt"][1:]))
        subst("salt-attacker", lambda b, cl: build_server_hello(C, b, salt=r.randbytes(16)))
        subst("ephemeral-attacker", lambda b, cl: build_server_hello(C, b, eph=atk_eph.getPublicKey().getBytes()))
        subst("resigned-by-attacker-root", lambda b, cl: build_server_hello(C, b, eph=atk_eph.getPublicKey().getBytes(), signer=atk_root))
        subst("resigned-same-params-attacker-root", lambda b, cl: build_server_hello(C, b, signer=atk_root))
        subst("resigned-attacker-root-claims-honest-root-pub",
              lambda b, cl: build_server_hello(C, b, eph=atk_eph.getPublicKey().getBytes(), signer=atk_root, root_pub=S.w.root_pub.getBytes()))
        subst("signature-random", lambda b, cl: build_server_hello(C, b, signature=r.randbytes(len(b["signature"]))))
        subst("signature-empty", lambda b, cl: build_server_hello(C, b, signature=b""))
        subst("signature-truncated", lambda b, cl: build_server_hello(C, b, signature=b["signature"][:-1]))
        subst("payload-truncated", lambda b, cl: build_server_hello(C, b, payload=b["payload"][:-1]))
        subst("payload-extended", lambda b, cl: build_server_hello(C, b, payload=b["payload"] + b"\x00"))
        subst("root-pub-attacker-only", lambda b, cl: build_server_hello(C, b, root_pub=atk_root.getPublicKey().getBytes()), must_fail=None)
        # the hello body under EVERY other registered type id: the attacker's (ephemeral key, salt, token) as three plain values, no
        # signature at all - whatever class that id names, a pinned client must not key itself from it
        import struct as _st
        from mpgameserver import serializable as _S

        def unsigned_triple_under(tid):
            def build(b, cl):
                st = BytesIO()
                st.write(_st.pack(">H", tid))
                _S.serialize_value(st, atk_eph.getPublicKey().getBytes())
                _S.serialize_value(st, r.randbytes(16))
                _S.serialize_value(st, b["token"])
                body = b["msgseq"] + st.getvalue()          # the genuine datagram's header and message seq, the attacker's body
                h = b["hdr"]
                hdr = struct.pack(">4sLHHBHBL", h[0], h[1], h[2], h[3], h[4], len(body), h[6], h[7])
                return hdr + body + A.crc(hdr + body)
            return build
        genuine_tid = C.HandshakeServerHelloMessage.type_id
        for tid in sorted(_S.SerializableType.registry):
            if tid != genuine_tid:
                subst("unsigned-parameters-under-type-id-%d" % tid, unsigned_triple_under(tid), ticks=6)
                out["counters"].inc("hello_bodies_under_other_type_ids")
        # a genuine hello of ANOTHER session (signed by the matching key): not a forgery by the statement; observed
        other_session = {}

        def grab(d, cl):
            other_session["d"] = d
            return [(d, "honest")]
        S.handshake({"name": "honest-capture", "filter": replace_filter("s2c", 2, grab), "honest": True})
        if "d" in other_session:
            old = parse_server_hello(C, other_session["d"])
            subst("old-session-signature-over-attacker-ephemeral", lambda b, cl: build_server_hello(C, b, eph=atk_eph.getPublicKey().getBytes(), signature=old["signature"]))
            subst("old-session-signature-over-new-token", lambda b, cl: build_server_hello(C, b, token=b["token"] ^ 2, signature=old["signature"]))
            subst("old-session-signature-over-current-params", lambda b, cl: build_server_hello(C, b, signature=old["signature"]))
            subst("old-session-payload-with-current-signature", lambda b, cl: build_server_hello(C, b, payload=old["payload"]))

            def replay(d, cl):
                return [(other_session["d"], "replay:other-session-hello")]
            k, p = S.handshake({"name": "replay-genuine-hello-of-another-session", "filter": replace_filter("s2c", 2, replay)})
            out["counters"].inc("observation:cross-session-hello-client-keyed" if k else "observation:cross-session-hello-client-rejected")
            out["counters"].inc("observation:cross-session-hello-server-promoted" if p else "observation:cross-session-hello-server-not-promoted")
        # --- after the handshake: hello-typed datagrams towards the CONNECTED client must not re-run it.  The attacker
        #     re-wraps (fresh header, CRC form - hellos are cleartext by design) the signed hello body of another session,
        #     of this session, or one it signed itself; both ends must still agree afterwards
        def rewrap(body_of):
            def then(cl):
                conn = cl.udp.conn
                body = body_of(cl)
                if body is None or conn is None:
                    return
                for k in range(3):
                    seq = (int(conn.bitfield_pkt.current_seqnum) + 1 + k) % 65535 + 1
                    d = A.forge_crc("s2c", 2, seq, int(conn.seq_sending), 0xffffffff, [(int(conn.bitfield_msg.current_seqnum) + 1 + k, 2, body)], now())
                    S.w.net.inject("s2c", cl.addr, d, "forged:rewrapped-hello")
                out["counters"].inc("post_handshake_rewrapped_hellos", 3)
            return then

        def body_of_datagram(d):
            dec = L.decode_datagram(d, None)
            return dec.msgs[0][2] if dec.ok and dec.msgs else None
        now = lambda: int(S.w.clock.now)
        if "d" in other_session:
            S.handshake({"name": "post-handshake:rewrapped-hello-of-another-session", "honest": True, "then": [rewrap(lambda cl: body_of_datagram(other_session["d"]))], "ticks": 10})
        S.handshake({"name": "post-handshake:rewrapped-hello-of-this-session", "honest": True,
                     "then": [rewrap(lambda cl: body_of_datagram(cl.hello_seen) if cl.hello_seen else None)], "ticks": 10})

        def attacker_body(cl):
            base = parse_server_hello(C, cl.hello_seen) if cl.hello_seen else None
            if base is None:
                return None
            return body_of_datagram(build_server_hello(C, base, eph=atk_eph.getPublicKey().getBytes(), signer=atk_root))
        S.handshake({"name": "post-handshake:rewrapped-hello-signed-by-attacker", "honest": True, "then": [rewrap(attacker_body)], "ticks": 10})
        # --- lingering after a rejected hello (three kinds of rejection)
        subst("linger:resigned-by-attacker-root", lambda b, cl: build_server_hello(C, b, eph=atk_eph.getPublicKey().getBytes(), signer=atk_root), linger=True)
        subst("linger:signature-random", lambda b, cl: build_server_hello(C, b, signature=r.randbytes(len(b["signature"]))), linger=True)
        subst("linger:token+1", lambda b, cl: build_server_hello(C, b, token=b["token"] ^ 1), linger=True)
        # --- a slow handshake (0.6 s one way) in which the network delivers a second copy of the client hello a good second after
        #     the first, just before the challenge response: the server keeps the handshake it has, both ends agree
        temp0 = S.w.ctxt.temp_connection_timeout
        S.w.ctxt.temp_connection_timeout = 3.0
        for gap in (1.05, 1.15):
            def flt_slow(direction, addr_, d, cl, gap=gap):
                if direction == "c2s" and len(d) >= 20 and d[12] == 1:
                    return [0.6, 0.6 + gap]          # (a list of delays: one copy per entry)
                return [0.6]
            S.handshake({"name": "network-slow-handshake-with-late-duplicate-hello", "filter": flt_slow, "honest": True, "ticks": int(2.6 / S.w.dt), "variant": gap})
            out["counters"].inc("slow_handshakes_with_late_duplicate_hello")
        S.w.ctxt.temp_connection_timeout = temp0
        # --- a second session on the same UdpClient
        for i in range(3):
            S.handshake({"name": "second-session-same-client:honest", "honest": True, "second_session_same_client": True, "ticks": 10, "variant": i})
        # --- a hello the server does not answer (unsupported version / damaged CRC) leaves whatever it leaves behind; a cleartext
        #     CHALLENGE_RESP from that address - token 0, or a guess - must not be promoted
        def unanswered_hello_then_plain_challenge(variant, token):
            S.n += 1
            S.case = "challenge:plaintext-after-unanswered-hello"
            addr = ("10.5.%d.%d" % ((S.n >> 8) & 255, S.n & 255), 22000 + (S.n % 30000))
            m = C.HandshakeClientHelloMessage()
            m.client_pubkey = EllipticCurvePrivateKey.new().getPublicKey()
            m.client_version = {"version-2": 2, "version-0": 0, "version-big": 2 ** 31}.get(variant, 1)
            d1 = A.forge_crc("c2s", 1, 1, 0, 0, [(1, 1, m.dumpb())], now())
            if variant == "bad-crc":
                d1 = d1[:-1] + bytes([d1[-1] ^ 0x55])
            ch = C.HandshakeClientChallengeResponseMessage()
            ch.token = token
            d2 = A.forge_crc("c2s", 3, 2, 1, 0, [(2, 3, ch.dumpb())], now())
            S.w.net.inject("c2s", addr, d1, "forged:unanswerable-hello")
            if variant != "bad-crc":
                S.w.step(2)
            S.w.net.inject("c2s", addr, d2, "forged:plaintext-challenge")
            S.w.step(5)
            out["counters"].inc("plaintext_challenges_after_unanswered_hello")
            if addr in S.w.ctxt.connections:
                S.viol("promoted-without-proof-of-key", "the server promoted %s after a hello it did not answer (%s) and a CLEARTEXT challenge response with token %d" % (addr, variant, token))
            out["distinct"].add(h64("unanswered-hello", variant, token))
        for variant in ("version-2", "version-0", "version-big", "bad-crc"):
            for token in (0, 1, 0x40000000):
                unanswered_hello_then_plain_challenge(variant, token)
        # --- the application retries connect() on the SAME UdpClient after an unanswered attempt: the pin still holds
        S.handshake({"name": "retry-same-client:honest", "honest": True, "retry_same_client": True, "ticks": 10})
        for nm, b_ in (("resigned-by-attacker-root", lambda b, cl: build_server_hello(C, b, eph=atk_eph.getPublicKey().getBytes(), signer=atk_root)),
                       ("resigned-same-params-attacker-root", lambda b, cl: build_server_hello(C, b, signer=atk_root)),
                       ("signature-random", lambda b, cl: build_server_hello(C, b, signature=r.randbytes(len(b["signature"]))))):
            subst("retry-same-client:" + nm, b_, retry_same_client=True, ticks=10)
        # a hello from a different server (other root key), client pinned to the honest key: handled by 'resigned' above.
        # the same with a client pinned to a key whose private half nobody here holds
        S.handshake({"name": "client-pinned-to-foreign-key", "must_fail": "client", "judge_pinned": False}, pinned=True,
                    pinned_key=S.other_root.getPublicKey())
        # --- challenge attacks at the server
        def challenge_attack(name, make, variant=None):
            def fn(d, cl):
                return make(d, cl)
            S.handshake({"name": "challenge:" + name, "filter": replace_filter("c2s", 3, fn), "must_fail": "server", "ticks": 10, "variant": variant})

        def with_token(cl, token):
            m = C.HandshakeClientChallengeResponseMessage()
            m.token = token
            return m.dumpb()
        challenge_attack("right-key-wrong-token", lambda d, cl: [(A.seal(cl.udp.conn.session_key_bytes, "c2s", 3, 2, 1, 0,
                                                                 [(2, 3, with_token(cl, cl.udp.conn.token ^ 1))], now()), "forged:right-key-wrong-token")])
        challenge_attack("wrong-key-right-token", lambda d, cl: [(A.seal(r.randbytes(16), "c2s", 3, 2, 1, 0,
                                                                 [(2, 3, with_token(cl, cl.udp.conn.token))], now()), "forged:wrong-key-right-token")])
        challenge_attack("plaintext-right-token", lambda d, cl: [(A.forge_crc("c2s", 3, 2, 1, 0, [(2, 3, with_token(cl, cl.udp.conn.token))], now()),
                                                                  "forged:plaintext-challenge")])
        challenge_attack("plaintext-in-hello-typed-multi", lambda d, cl: [(A.forge_crc("c2s", 1, 2, 1, 0,
                                                                          [(2, 3, with_token(cl, cl.udp.conn.token)), (3, 3, with_token(cl, cl.udp.conn.token))], now()),
                                                                           "forged:challenge-inside-hello-typed")])
        challenge_attack("garbage-under-right-key", lambda d, cl: [(A.seal(cl.udp.conn.session_key_bytes, "c2s", 3, 2, 1, 0, [(2, 3, r.randbytes(12))], now()),
                                                                    "forged:garbage-challenge")])
        challenge_attack("app-message-typed-challenge", lambda d, cl: [(A.seal(cl.udp.conn.session_key_bytes, "c2s", 3, 2, 1, 0,
                                                                        [(2, 6, b"hello"), (3, 6, b"world")], now(), count=2), "forged:app-in-challenge")])
        challenge_attack("dropped", lambda d, cl: None)
        # --- right key, a token that is NOT the issued one but aliases it: every one-bit alteration of the issued token written as a
        #     64-bit integer, the issued token plus/minus a multiple of 2**k (what a truncating / sign-extending / widening comparison
        #     would take for the same value), its negation and complement.  Striped over the shards; own random stream
        n_before_extra = S.n
        r2 = rng("C02-extra", cfg["seed"], cfg["shard"])
        alias = [("bit-%d" % bit, lambda t, bit=bit: t ^ (1 << bit)) for bit in range(63)]
        for k in (8, 16, 24, 31, 32, 33, 40, 48, 56):
            alias.append(("plus-2^%d" % k, lambda t, k=k: t + (1 << k)))
            alias.append(("minus-2^%d" % k, lambda t, k=k: t - (1 << k)))
            alias.append(("multiple-of-2^%d" % k, lambda t, k=k: t + r2.choice((-1, 1)) * r2.randint(2, (1 << (62 - k)) - 1) * (1 << k)))
        alias += [("negated", lambda t: -t), ("complement", lambda t: ~t), ("sign-extended-from-bit-30", lambda t: t | ~0x3FFFFFFF)]

        def aliased(nm, f):
            def make(d, cl):
                tok = cl.udp.conn.token
                other = f(tok)
                if other == tok or not (-(1 << 63) <= other < (1 << 63)):
                    return [(d, "honest")]
                out["counters"].inc("challenges_right_key_aliased_token")
                return [(A.seal(cl.udp.conn.session_key_bytes, "c2s", 3, 2, 1, 0, [(2, 3, with_token(cl, other))], now()), "forged:right-key-aliased-token")]
            return make
        for nm, f in alias[shard::nshards]:
            challenge_attack("right-key-aliased-token:" + nm, aliased(nm, f), variant=nm)
        # --- (b') honest handshakes while a whole second of one of the process's clocks passes.  The clock moves on by 100-200 us with
        #     every read; the arrival of the client hello is aligned so that the next whole second of time() / monotonic() /
        #     perf_counter() lies between the k-th and the k+1-th read after it, for EVERY k up to the answer (the first handshake
        #     of a sweep tells when the reads are made; handshakes are replicas of each other, and what was crossed is measured)
        for which in ("time", "monotonic", "perf_counter"):
            step = r2.uniform(1e-4, 2e-4)

            def phased(lead, variant):
                att = {"name": "clock-phase:whole-second-of-%s-between-two-reads" % which, "honest": True, "ticks": 8, "variant": variant,
                       "clock_phase": {"which": which, "step": step, "lead": lead}}
                S.handshake(att)
                return att
            covered = set()
            rel = []
            for attempt in (-2, -1):
                # (what preceded the first one may make it differ from its successors: the second one is the reference)
                att = phased(0.5 * step, attempt)
                rel = att.get("read_times") or rel
                if "crossed_gap" in att:
                    covered.add(att["crossed_gap"])
            is_gap = lambda i: i + 1 < len(rel) and rel[i + 1] - rel[i] < 1.5 * step
            i = 0
            while i + 1 < len(rel) and i < 200:
                if is_gap(i) and i not in covered:
                    att = phased((rel[i] + rel[i + 1]) / 2, i)
                    rel = att.get("read_times") or rel
                    if "crossed_gap" in att:
                        covered.add(att["crossed_gap"])
                i += 1
            gaps = [i for i in range(len(rel) - 1) if is_gap(i)]
            out["counters"].inc("clock_reads_between_hello_and_answer", len(rel))
            if len(gaps) >= 4 and set(gaps) <= covered:
                out["counters"].inc("clock_phase_sweeps_covering_every_read_gap_of_the_answer:" + which)
        n_extra = S.n - n_before_extra

        # --- two handshakes pending at once: an authenticated peer echoes the OTHER pending connection's token
        #     (it can read it from that connection's plaintext server hello)
        def concurrent(variant):
            S.n += 2
            S.case = "challenge:right-key-other-pending-token"
            pair = []
            for k in range(2):
                addr = ("10.4.%d.%d" % ((S.n >> 8) & 255, (S.n + k) & 255), 21000 + ((S.n + k) % 30000))
                cl = L.ClientEnd(S.w, addr, 1, pinned=True)
                S.w.clients.append(cl)
                S.w.clients_by_addr[addr] = cl
                pair.append(cl)
            a, b = pair
            held = {}

            def flt(direction, addr, d, info):
                if direction == "c2s" and len(d) >= 20 and d[12] == 3 and addr in (a.addr, b.addr):
                    held[addr] = d
                    return "drop"
                return None
            S.w.net.filters.append(flt)
            a.connect()
            b.connect()
            S.w.step(8)
            S.w.net.filters.remove(flt)
            ok = a.udp.conn.session_key_bytes and b.udp.conn.session_key_bytes and a.addr in S.w.ctxt.temp_connections and b.addr in S.w.ctxt.temp_connections
            if ok:
                out["counters"].inc("concurrent_pending_pairs")
                if variant == 0:
                    forged = A.seal(b.udp.conn.session_key_bytes, "c2s", 3, 2, 1, 0, [(2, 3, with_token(b, a.udp.conn.token))], now())
                    S.w.net.inject("c2s", b.addr, forged, "forged:right-key-other-pending-token")
                    S.w.step(4)
                    if b.addr in S.w.ctxt.connections:
                        S.viol("promoted-without-proof-of-key", "the server promoted %s on a challenge that carried the token of ANOTHER pending connection" % (b.addr,))
                    # the honest one still completes
                    S.w.net.inject("c2s", a.addr, held[a.addr], "honest")
                    S.w.step(4)
                    if a.addr not in S.w.ctxt.connections:
                        S.viol("honest-handshake-failed", "the honest client of a concurrent pair was not promoted")
                else:
                    # swapped genuine challenges: each is sealed under the other's key - neither may be promoted by it
                    S.w.net.inject("c2s", a.addr, held[b.addr], "replay:other-connection-challenge")
                    S.w.net.inject("c2s", b.addr, held[a.addr], "replay:other-connection-challenge")
                    S.w.step(4)
                    for x in (a, b):
                        if x.addr in S.w.ctxt.connections:
                            S.viol("promoted-without-proof-of-key", "the server promoted %s on another connection's challenge datagram" % (x.addr,))
            for cl in pair:
                try:
                    cl.udp.disconnect()
                except Exception:
                    pass
            S.w.step(3)
            for cl in pair:
                S.w.remove_client(cl)
            out["distinct"].add(h64("concurrent", variant, S.n))
        for v in (0, 1, 0, 1):
            concurrent(v)
        # --- a new handshake from the address of an ESTABLISHED connection, around the end of that connection: the client hello of
        #     the newcomer (an attacker that took over the port, or a peer that reconnects from the same port) is offered before /
        #     right after the DISCONNECT of the old session in the same batch of datagrams, or a tick / a few ticks later.  Whenever
        #     the server answers with a hello, the newcomer keys itself from it and sends sealed APPLICATION data under that key
        #     instead of the challenge response (or only after it).  Whatever object the server holds for the address in
        #     `connections` - at any status - must have been proven by a CHALLENGE_RESP under ITS key with ITS token, and every
        #     message handed to the handler must come from such an object
        from mpgameserver.crypto import EllipticCurvePublicKey as _Pub

        def takeover(order, answer, variant):
            w = S.w
            S.n += 1
            S.case = "same-address-hello-around-disconnect:%s:%s" % (order, answer)
            addr = ("10.6.%d.%d" % ((S.n >> 8) & 255, S.n & 255), 23000 + (S.n % 30000))
            cl = L.ClientEnd(w, addr, 1, pinned=True)
            w.clients.append(cl)
            w.clients_by_addr[addr] = cl
            cl.connect()
            w.run_until(lambda _w: getattr(cl.udp.conn.status, "value", 0) == 2 and addr in w.ctxt.connections, 60)
            old_conn = w.ctxt.connections.get(addr)
            if old_conn is None:
                w.remove_client(cl)
                return
            priv = EllipticCurvePrivateKey.new()
            m = C.HandshakeClientHelloMessage()
            m.client_pubkey = priv.getPublicKey()
            m.client_version = 1
            hello = A.forge_crc("c2s", 1, 1, 0, 0, [(1, 1, m.dumpb())], now())
            st = {"hellos": []}
            judged = set()
            unproven_msgs = []

            def on_message(client, seqnum, msg):
                if getattr(client, "addr", None) == addr and client is not old_conn:
                    out["counters"].inc("handler_messages_from_the_newcomer")
                    if not S.has_proof(client):
                        unproven_msgs.append((str(client.status), bytes(msg)[:24]))
            w.handler.on.setdefault("message", []).append(on_message)

            def flt(direction, a, d, info):
                if a != addr or len(d) < 20:
                    return None
                if direction == "c2s" and d[12] == 5 and "sent" not in st:
                    st["sent"] = True
                    seq = {"hello-after-disconnect": ((d, "honest", 0.004), (hello, "forged:same-address-hello", 0.004)),
                           "hello-before-disconnect": ((hello, "forged:same-address-hello", 0.004), (d, "honest", 0.004)),
                           "hello-one-tick-later": ((d, "honest", 0.004), (hello, "forged:same-address-hello", 0.004 + w.dt)),
                           "hello-after-the-sweep": ((d, "honest", 0.004), (hello, "forged:same-address-hello", 0.004 + 4 * w.dt))}[order]
                    for dd, origin, delay in seq:
                        w.net.inject("c2s", addr, dd, origin, delay)
                    return "drop"
                if direction == "s2c" and d[12] == 2 and "sent" in st:
                    st["hellos"].append(d)
                    return "drop"
                return None
            w.net.filters.append(flt)

            def on_offer(a, d, origin):
                if a == addr and d == hello:
                    st["offered_tick"] = w.ticks
                    st["old_in_table_at_offer"] = w.ctxt.connections.get(addr) is old_conn
                if a == addr and len(d) >= 20 and d[12] == 5 and origin == "honest":
                    st["disconnect_tick"] = w.ticks
            w.offer_hooks.append(on_offer)

            def judge():
                sconn = w.ctxt.connections.get(addr)
                if sconn is not None and sconn is not old_conn and id(sconn) not in judged:
                    judged.add(id(sconn))
                    out["counters"].inc("newcomers_found_in_connections")
                    S.check_promotion(sconn, "membership in connections (status %s) of a peer that sent its hello from the address of a connection that was %s" % (
                        str(sconn.status), "ending in the same batch of datagrams" if st.get("offered_tick") == st.get("disconnect_tick") else "ending"))
            try:
                cl.udp.disconnect()
                w.step(1)
                w.remove_client(cl)
                sent_app = False
                for t in range(14):
                    w.step(1)
                    judge()
                    if st["hellos"] and not sent_app:
                        sent_app = True
                        try:
                            sh = parse_server_hello(C, st["hellos"][0])
                            key = S._orig_ecdh(priv, _Pub.fromBytes(sh["eph"]), sh["salt"])
                        except Exception:
                            continue
                        seq_ = 2
                        if answer == "challenge-then-app-data":
                            w.net.inject("c2s", addr, A.seal(key, "c2s", 3, seq_, 1, 0, [(2, 3, with_token(None, sh["token"]))], now()), "honest")
                            seq_ += 1
                        for k in range(3):
                            w.net.inject("c2s", addr, A.seal(key, "c2s", 6, seq_ + k, 1, 0, [(seq_ + k, 6, b"app data from a newcomer %d" % k)], now()),
                                         "forged:app-data-instead-of-challenge" if answer == "app-data" else "honest", delay=k * w.dt)
                        out["counters"].inc("newcomers_keyed_from_the_server_hello:" + answer)
                if "offered_tick" in st:
                    out["counters"].inc("same_address_hellos_around_a_disconnect")
                    if order in ("hello-after-disconnect", "hello-before-disconnect") and st.get("offered_tick") == st.get("disconnect_tick") and st.get("old_in_table_at_offer"):
                        out["counters"].inc("same_address_hellos_in_the_batch_of_the_disconnect:" + order)
                if unproven_msgs:
                    S.viol("handler-message-from-unproven-peer",
                           "handler.handle_message was called %d times for the peer at %s (first: status %s, %r) although no datagram from that address opens under "
                           "that connection's key to a CHALLENGE_RESP with its token: it sent its hello %s and answered the server hello with application data" % (
                               len(unproven_msgs), addr, unproven_msgs[0][0], unproven_msgs[0][1],
                               "in the batch of the old session's DISCONNECT" if st.get("offered_tick") == st.get("disconnect_tick") else "after the old session's DISCONNECT"))
            finally:
                w.net.filters.remove(flt)
                w.offer_hooks.remove(on_offer)
                w.handler.on["message"].remove(on_message)
            # tidy up: whatever is left for the address goes away by timeout / the newcomer's disconnect is not needed (temp entries expire in 1 s)
            w.step(2)
            out["distinct"].add(h64("takeover", order, answer, variant))
        for i, order in enumerate(("hello-after-disconnect", "hello-before-disconnect", "hello-one-tick-later", "hello-after-the-sweep")):
            for answer in ("app-data", "challenge-then-app-data"):
                takeover(order, answer, i)
        # --- (b) for every ephemeral key pair: the two derivation functions of the handshake (the real crypto.ecdh_server /
        #     crypto.ecdh_client, as _recvClientHello and _recvServerHello call them) agree on a 16-byte key.  Hundreds of fresh
        #     pairs per shard: properties of the shared secret that occur once in a few hundred pairs (a leading zero byte ...)
        from mpgameserver import crypto as _K
        for _i in range(cfg.get("agreements", 400)):
            sk, ck = EllipticCurvePrivateKey.new(), EllipticCurvePrivateKey.new()
            try:
                salt_, k_server = _K.ecdh_server(sk, ck.getPublicKey())
                k_client = S._orig_ecdh(ck, sk.getPublicKey(), salt_)
                out["counters"].inc("key_agreements_checked")
                if k_server != k_client or len(k_client) != 16:
                    S.case = "key-agreement"
                    S.viol("keys-differ", "ecdh_server and ecdh_client derive different keys for a fresh pair of ephemeral keys (%d vs %d bytes)" % (len(k_server), len(k_client)))
                    break
            except Exception as e:
                S.case = "key-agreement"
                S.viol("keys-differ", "key agreement raised %r" % (e,))
                break
        # --- byte-level mutations of the three handshake datagrams, positions striped over the shards
        sizes = {k: len(v) for k, v in captured.items()}
        plan_ = []
        for (direction, ptype), d in sorted(captured.items()):
            if ptype not in (1, 2, 3):
                continue
            n = len(d)
            positions = list(range(n))
            for pos in positions:
                for how in ("low", "high", "rand"):
                    plan_.append((direction, ptype, pos, how))
        mine = plan_[shard::nshards]
        r.shuffle(mine)
        left = max(0, budget + n_extra - S.n)          # (the alias / clock-phase handshakes come on top of the budget)
        rounds = cfg.get("rounds", 1)
        if rounds > 1:
            # thorough: other stripes too, so that every position is mutated for several sessions (fresh keys each time)
            more = []
            for k in range(1, rounds):
                more += plan_[(shard + k) % nshards::nshards]
            r.shuffle(more)
            mine = mine + more
        for direction, ptype, pos, how in mine[:left]:
            def fn(d, cl, pos=pos, how=how, ptype=ptype):
                if pos >= len(d):
                    return [(d, "honest")]
                return [(mutate_byte(d, pos, how, r, crc_form=(ptype != 3)), "mutated:type%d@%d:%s" % (ptype, pos, how))]
            S.handshake({"name": "mutate-type%d" % ptype, "variant": (pos, how), "filter": replace_filter(direction, ptype, fn), "ticks": 7})
            out["counters"].inc("mutations_type%d" % ptype)
        out["counters"].merge({"net_" + k: v for k, v in S.w.net.stats.items()})
        out["samples"].append({"handshakes": S.n, "datagram_sizes": {"%s type %d" % k: v for k, v in sizes.items()},
                               "attacks": sorted({a for a in [S.case]})})
    finally:
        S.close()
    return {"evaluations": S.n, "distinct": sorted(out["distinct"]), "counters": dict(out["counters"]),
            "violations": out["violations"], "samples": out["samples"][:1]}


def finish(tier, seed, results):
    m = merge(results)
    inconclusive = []
    need(m["counters"], ["honest_handshakes", "root_key_signatures", "client_key_derivations", "client_params_in_signed_set",
                         "signature_verified_independently", "promotions_with_proof", "post_handshake_rewrapped_hellos", "retries_on_same_client_object", "second_sessions_on_same_client_object", "plaintext_challenges_after_unanswered_hello", "hello_bodies_under_other_type_ids", "key_agreements_checked", "lingering_clients_after_rejected_hello", "slow_handshakes_with_late_duplicate_hello", "client_left_unconnected",
                         "mutations_type1", "mutations_type2", "mutations_type3", "server_connect_events", "concurrent_pending_pairs",
                         "same_address_hellos_in_the_batch_of_the_disconnect:hello-after-disconnect", "same_address_hellos_in_the_batch_of_the_disconnect:hello-before-disconnect",
                         "newcomers_keyed_from_the_server_hello:app-data", "newcomers_keyed_from_the_server_hello:challenge-then-app-data",
                         "challenges_right_key_aliased_token", "hellos_answered_with_a_whole_second_between_two_consecutive_reads_of_time",
                         "hellos_answered_with_a_whole_second_between_two_consecutive_reads_of_monotonic", "hellos_answered_with_a_whole_second_between_two_consecutive_reads_of_perf_counter",
                         "clock_phase_sweeps_covering_every_read_gap_of_the_answer:time", "clock_phase_sweeps_covering_every_read_gap_of_the_answer:monotonic",
                         "clock_phase_sweeps_covering_every_read_gap_of_the_answer:perf_counter"], inconclusive)
    cov = {
        "evaluations": m["evaluations"],
        "distinct_nontrivial": m["distinct_nontrivial"],
        "rule": "one evaluation = one real handshake (real UdpClient against the real server loop) with one attack applied by an "
                "on-path attacker: byte mutation (flip low bit / flip high bit / random value, CRC recomputed) of one position of "
                "the client hello, the server hello or the challenge response (positions striped over shards; every byte position of all three "
                "datagrams); structured substitution of token, salt, ephemeral key, signature, "
                "payload, root public key, re-signing by another root key; replay of another session's genuine hello; challenge with "
                "right key/wrong token, wrong key/right token, plaintext, hello-typed; duplication/late duplication/loss of each of "
                "the three datagrams. distinct = distinct (attack, variant)",
        "fault_classes": ["mutate-type1", "mutate-type2", "mutate-type3", "substitute:*", "challenge:*", "network-dup/dup-late/lose x type1-3",
                          "replay-genuine-hello-of-another-session", "client-pinned-to-foreign-key",
                          "post-handshake:rewrapped-hello (other session / this session / attacker-signed) towards the connected client",
                          "retry-same-client: connect() again on the same UdpClient after an unanswered attempt (honest and attacked)",
                          "challenge:right-key-aliased-token (one-bit alterations of the issued token as a 64-bit integer, issued +/- m*2**k, negation, complement)",
                          "clock-phase: honest handshakes under a clock that advances 100-200 us per read, a whole second of time()/monotonic()/"
                          "perf_counter() placed between every two consecutive reads made while the client hello is answered"],
        "samples": m["samples"],
        "counters": m["counters"],
    }
    return {"coverage": cov, "inconclusive": inconclusive,
            "assumptions": ["ECDSA/ECDH/HKDF of the cryptography package are trusted; the monitor checks that the code uses them so that "
                            "every forgery class constructed here is rejected",
                            "a genuine hello replayed from another session IS signed by the matching key and is therefore not counted as "
                            "a forgery (recorded as an observation)",
                            "clients without a pinned key are not judged (documented trust-on-first-use)"]}
