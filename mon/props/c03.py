"""C03 - AES-GCM nonces never repeat; nothing but the hellos travels in clear.

Checker over the wire tap, per session key.  For every datagram emitted by a side
that holds the key, other than a SERVER_HELLO, the monitor's own
AESGCM(key).decrypt(d[:12], d[20:], d[:20]) must succeed (ciphertext under this key,
nonce = first 12 bytes, whole 20-byte header as AAD).  The multiset of 12-byte
nonces over both directions, keep-alives, retransmissions and disconnects has no
repeat.  No datagram contains the application payload magic in clear.

A literal collision needs the same (time, seq, ack) twice, so the workloads are
built to make a *broken* nonce collide:
  silent   the client is cut off; the server (connection timeout 2000 s, handler
           sending every tick) keeps emitting with a frozen ack field, across the
           16-bit wrap (pre-positioned counters; thorough: full wraps)
  burst    same-second bursts at the rate cap with frozen ack
  mirror   both directions start from equal counters and run symmetric traffic, for
           several relative offsets, so that (time, seq, ack) coincide across
           directions and only the direction magic separates the nonces
  mixed    mixed sizes / retry modes / idle periods (keep-alive only) / outages
  slowhello  handshakes over slow links (round trips swept from 0.6 s to just below the handshake timeout - the default 2 s, or 5 s
           configured on both sides - split evenly or unevenly over the two directions, i.e. round trips below, around and above
           the message timeout, which is itself swept from 0.05 s to 2.5 s) with a server application that
           greets every client from inside its connect event and keeps sending in the first ticks after promotion: whatever is
           still queued or pending from the handshake, every datagram the server emits once the key is agreed is either the lone
           signed hello or ciphertext
"""
from mon.core.merge import merge, need
from mon.core.util import Counter, h64, rng
from mon.engines import lockstep as L
from mon.engines import adversary as A
from mon.engines import traffic as T
from mon.props import c05

ID = "C03"
LEVEL = "exploration"
SHARD_TIMEOUT = {"quick": 600, "thorough": 3400}
PROPS = ("C03",)


def plan(tier, seed):
    shards = []
    if tier == "quick":
        shards.append({"kind": "silent", "tier": tier, "seed": seed, "shard": 0, "start": 64000, "datagrams": 70000, "subprocess": True})
        shards.append({"kind": "silent", "tier": tier, "seed": seed, "shard": 1, "start": 65530, "datagrams": 30000, "dt": 1 / 30, "subprocess": True})
        shards.append({"kind": "burst", "tier": tier, "seed": seed, "shard": 0, "ticks": 20000, "subprocess": True})
        for off in (-2, -1, 0, 1, 2):
            shards.append({"kind": "mirror", "tier": tier, "seed": seed, "shard": off, "offset": off, "ticks": 8000, "start": 65400, "subprocess": True})
        for i in range(6):
            shards.append({"kind": "mixed", "tier": tier, "seed": seed, "shard": i, "n": 2, "subprocess": True})
        shards.append({"kind": "idlespin", "tier": tier, "seed": seed, "shard": 0, "idle": 1300.0, "spins": 70000, "subprocess": True})
        shards.append({"kind": "livespin", "tier": tier, "seed": seed, "shard": 0, "spins": 70000, "subprocess": True})
        shards.append({"kind": "livespin", "tier": tier, "seed": seed, "shard": 1, "spins": 70000, "keepalive": 0.0, "subprocess": True})
        for i in range(4):
            shards.append({"kind": "slowhello", "tier": tier, "seed": seed, "shard": i, "n": 3, "clients": 8, "subprocess": True})
    else:
        for i in range(8):
            shards.append({"kind": "slowhello", "tier": tier, "seed": seed, "shard": i, "n": 8, "clients": 12, "subprocess": True})
        shards.append({"kind": "livespin", "tier": tier, "seed": seed, "shard": 0, "spins": 140000, "subprocess": True})
        shards.append({"kind": "livespin", "tier": tier, "seed": seed, "shard": 1, "spins": 140000, "keepalive": 0.0, "subprocess": True})
        shards.append({"kind": "livespin", "tier": tier, "seed": seed, "shard": 2, "spins": 140000, "keepalive": 0.001, "subprocess": True})
        for i in range(3):
            shards.append({"kind": "idlespin", "tier": tier, "seed": seed, "shard": i, "idle": [1300.0, 2500.0, 4000.0][i], "spins": [70000, 140000, 200000][i],
                           "subprocess": True})
        for i in range(6):
            shards.append({"kind": "silent", "tier": tier, "seed": seed, "shard": i, "start": [1, 30000, 65000, 65535, 100, 64000][i],
                           "datagrams": 400000, "dt": [1 / 60, 1 / 30, 1 / 60, 1 / 120, 1 / 60, 1 / 20][i], "subprocess": True})
        shards.append({"kind": "burst", "tier": tier, "seed": seed, "shard": 0, "ticks": 60000, "subprocess": True})
        for off in (-3, -2, -1, 0, 1, 2, 3):
            shards.append({"kind": "mirror", "tier": tier, "seed": seed, "shard": off, "offset": off, "ticks": 140000, "start": 1, "subprocess": True})
        for i in range(16):
            shards.append({"kind": "mixed", "tier": tier, "seed": seed, "shard": i, "n": 30, "subprocess": True})
    return shards


class Preposition(object):
    """configuration: the first sequence number an endpoint uses (the peer's window initialises on first receipt)"""

    def __init__(self, server_start):
        import mpgameserver.connection as C
        self.C = C
        self.orig = C.ServerClientConnection.__init__
        start = server_start
        orig = self.orig

        def init(conn, ctxt, addr):
            orig(conn, ctxt, addr)
            if start:
                conn.seq_sending = C.SeqNum(start)
        C.ServerClientConnection.__init__ = init

    def undo(self):
        self.C.ServerClientConnection.__init__ = self.orig


def connect_at(w, start, C):
    c = w.add_client()
    c.hello_datagram = None

    def grab(direction, addr, d, client, n, _c=c):
        if client is _c and _c.hello_datagram is None and len(d) > 12 and d[12] == 1:
            _c.hello_datagram = d
    w.wire_hooks.append(grab)
    c.connect()
    if start:
        c.udp.conn.seq_sending = C.SeqNum(start)
    ok = w.run_until(lambda ww: getattr(c.conn.status, "value", 0) == 2 and c.addr in ww.ctxt.connections, 200)
    if not ok:
        raise L.Inconclusive("handshake with pre-positioned counters did not complete")
    return c


def finish_run(run, out, key, extra_obs=None):
    out["counters"].inc("worlds")
    obs = dict(run.wiremon.observations)
    for k, v in obs.items():
        out["counters"].inc("observation:" + k, v)
    out["counters"].inc("distinct_nonces", sum(len(s) for s in run.wiremon.nonces.values()))
    out["counters"].inc("session_keys", len(run.wiremon.nonces))
    c05.collect(run, out, PROPS, key)


def run_silent(cfg, out):
    r = rng("C03", cfg["seed"], "silent", cfg["shard"])
    pre = Preposition(cfg["start"])
    try:
        with T.Run(r, dt=cfg.get("dt", 1 / 60), light=True,
                   ctxt_setup=lambda ctxt: (ctxt.setConnectionTimeout(2000.0), ctxt.setKeepAliveInterval(r.choice([0.05, 0.1])))) as run:
            w = run.world
            w.net.heal(0.004)
            c = connect_at(w, cfg["start"], run.C)
            sc = run.sconn(c)
            # handler sends on every tick: the server emits at its rate cap
            w.handler.on["update"] = [lambda dt: [cc.send(L.make_payload(0, w.ticks, 24)) for cc in list(w.ctxt.connections.values())]]
            w.step(30)
            # cut the client off entirely: nothing reaches the server any more, its ack field freezes
            w.net.set(c2s=L.Policy(outage=True), s2c=L.Policy(outage=True))
            c.active = False
            n0 = run.c.get("wire_s2c", 0)
            target = cfg["datagrams"]
            while run.c.get("wire_s2c", 0) - n0 < target:
                w.step(200)
                if not w.ctxt.connections:
                    break
            out["counters"].inc("silent_peer_datagrams", run.c.get("wire_s2c", 0) - n0)
            first, last = cfg["start"], int(sc.seq_sending)
            out["counters"].inc("silent_wraps", (run.c.get("wire_s2c", 0) - n0 + cfg["start"]) // 65535)
            if len(out["samples"]) < 2:
                out["samples"].append({"scenario": "silent", "server_first_seq": cfg["start"], "server_last_seq": last,
                                       "datagrams_with_frozen_ack": run.c.get("wire_s2c", 0) - n0, "dt": cfg.get("dt", 1 / 60)})
            out["distinct"].add(h64("silent", cfg["start"], cfg["datagrams"]))
            finish_run(run, out, {"kind": "silent", "start": cfg["start"]})
            return run.c.get("wire_total", 0)
    finally:
        pre.undo()


def run_burst(cfg, out):
    """both sides at the rate cap within the same wall-second while each other's datagrams are lost: frozen ack, same time"""
    r = rng("C03", cfg["seed"], "burst")
    with T.Run(r, dt=1 / 120, light=True, ctxt_setup=lambda ctxt: ctxt.setConnectionTimeout(2000.0)) as run:
        w = run.world
        w.net.heal(0.002)
        c = w.connect_client()
        w.handler.on["update"] = [lambda dt: [cc.send(L.make_payload(0, w.ticks, 16)) for cc in list(w.ctxt.connections.values())]]
        for t in range(cfg["ticks"]):
            if t % 400 == 0:
                # alternate: acks flow / one direction silent (the other side's ack field freezes)
                phase = (t // 400) % 3
                w.net.set(c2s=L.Policy(outage=(phase == 1), delay=(0.002, 0.002)), s2c=L.Policy(outage=(phase == 2), delay=(0.002, 0.002)))
            if c.udp.conn is not None and getattr(c.udp.conn.status, "value", 0) == 2:
                run.app.send(c, "client", 16, 0, with_cb=False)
            elif t % 400 == 399:
                w.net.heal(0.002)
                c = w.connect_client(c)
            w.step()
        out["distinct"].add(h64("burst"))
        if len(out["samples"]) < 2:
            out["samples"].append({"scenario": "burst", "ticks": cfg["ticks"], "dt": 1 / 120, "datagrams": run.c.get("wire_total")})
        finish_run(run, out, {"kind": "burst"})
        return run.c.get("wire_total", 0)


def run_mirror(cfg, out):
    r = rng("C03", cfg["seed"], "mirror", cfg["offset"])
    start = cfg["start"]
    pre = Preposition((start + cfg["offset"] - 1) % 65535 + 1)
    try:
        with T.Run(r, dt=1 / 60, light=True, ctxt_setup=lambda ctxt: ctxt.setKeepAliveInterval(1 / 60)) as run:
            w = run.world
            w.net.heal(0.001)
            c = connect_at(w, start, run.C)
            c.udp.setKeepAliveInterval(1 / 60)
            w.handler.on["update"] = [lambda dt: [cc.send(bytes(12)) for cc in list(w.ctxt.connections.values())]]
            same = 0
            seen = {}

            def hook(direction, addr, d, client, n):
                nonlocal same
                h = L.parse_header(d)
                k = (h[1], h[2], h[3])          # (time, seq, ack)
                if k in seen and seen[k] != direction:
                    same += 1
                seen[k] = direction
                if len(seen) > 50000:
                    seen.clear()
            w.wire_hooks.append(hook)
            for t in range(cfg["ticks"]):
                run.app.send(c, "client", 12, 0, with_cb=False)
                w.step()
                if t % 97 == 0:
                    # drop a datagram now and then to shift the relative phase of seq and ack
                    w.net.set(c2s=L.Policy(loss=0.5, delay=(0.001, 0.001)), s2c=L.Policy(loss=0.5, delay=(0.001, 0.001)))
                elif t % 97 == 3:
                    w.net.heal(0.001)
            out["counters"].inc("mirror_same_time_seq_ack_in_both_directions", same)
            out["distinct"].add(h64("mirror", cfg["offset"]))
            if len(out["samples"]) < 2:
                out["samples"].append({"scenario": "mirror", "offset": cfg["offset"], "ticks": cfg["ticks"],
                                       "triples_seen_in_both_directions": same})
            finish_run(run, out, {"kind": "mirror", "offset": cfg["offset"]})
            return run.c.get("wire_total", 0)
    finally:
        pre.undo()


def run_idlespin(cfg, out):
    """a long idle period (keep-alives only), then both applications call send()/update() tens of thousands of times
    within one clock second (time advances by 10 microseconds per call; the link is cut so both ack fields are frozen):
    the protocol's own rate cap must keep the sequence number from wrapping inside that second (a send credit that
    accumulates while idle would let it).  Message timeouts are tiny so that the bookkeeping of pending datagrams stays small."""
    r = rng("C03", cfg["seed"], "idlespin", cfg["shard"])
    with T.Run(r, dt=1 / 10, light=True,
               ctxt_setup=lambda ctxt: (ctxt.setConnectionTimeout(60.0), ctxt.setKeepAliveInterval(1.0), ctxt.setMessageTimeout(0.002))) as run:
        w = run.world
        w.net.heal(0.01)
        c = w.add_client()
        c.udp.setKeepAliveInterval(1.0)
        c.udp.setMessageTimeout(0.002)
        c = w.connect_client(c)
        w.step(int(cfg["idle"] / w.dt))
        # just after a second boundary, cut the link
        w.clock.now = float(int(w.clock.now) + 1) + 0.001
        w.net.set(c2s=L.Policy(outage=True), s2c=L.Policy(outage=True))
        n0 = run.c.get("wire_total", 0)
        w.handler.on["update"] = [lambda dt: [cc.send(L.make_payload(0, w.server_iterations, 16)) for cc in list(w.ctxt.connections.values())]]
        k = [0]

        def act(world):
            k[0] += 1
            if c.udp.conn is not None:
                c.udp.send(L.make_payload(1, k[0], 16), retry=0)
        w.step(cfg["spins"], actions=act, dt_override=1e-5)
        burst = run.c.get("wire_total", 0) - n0
        out["counters"].inc("idlespin_spins", cfg["spins"])
        out["counters"].inc("idlespin_datagrams_emitted_within_the_second", burst)
        out["distinct"].add(h64("idlespin", cfg["idle"], cfg["spins"]))
        out["samples"].append({"scenario": "idlespin", "idle_seconds": cfg["idle"], "update_calls_within_one_clock_second": cfg["spins"],
                               "datagrams_emitted_within_that_second": burst})
        finish_run(run, out, {"kind": "idlespin"})
        return run.c.get("wire_total", 0)


def run_livespin(cfg, out):
    """the peer is a conforming implementation that acknowledges every datagram at once: the client reads the ack at the very
    clock reading it sent at (it calls update() twice per frame), i.e. it measures a round trip of exactly 0, hundreds of times.
    Then the peer falls silent (the ack field freezes) while the application calls send()/update() tens of thousands of times
    inside one clock second.  Whatever the library derives from its latency measurement, the rate cap holds and no
    (time, seq, ack) triple repeats.  The instant peer is the monitor itself, sealing keep-alives under the session key."""
    r = rng("C03", cfg["seed"], "livespin", cfg["shard"])
    with T.Run(r, dt=1 / 60, light=True, ctxt_setup=lambda ctxt: (ctxt.setConnectionTimeout(600.0), ctxt.setMessageTimeout(0.002))) as run:
        w = run.world
        w.net.heal(0.002)
        c = w.add_client()
        c.udp.setMessageTimeout(0.002)
        if cfg.get("keepalive") is not None:
            # an application that asks for keep-alives "as often as possible": the setting is legal (before and after connect) and the
            # rate cap is not the application's to remove
            c.udp.setKeepAliveInterval(cfg["keepalive"])
            out["counters"].inc("livespin_worlds_with_keep_alive_interval_near_zero")
        c = w.connect_client(c)
        if cfg.get("keepalive") is not None:
            c.udp.setKeepAliveInterval(cfg["keepalive"])
        w.step(30)
        sc = run.sconn(c)
        key = c.udp.conn.session_key_bytes
        state = {"seq": int(sc.seq_sending) + 100, "mseq": int(sc.seq_message) + 100, "on": True, "acks": 0}

        def instant_peer(direction, addr, d, info):
            if direction == "c2s" and addr == c.addr:
                if state["on"] and len(d) >= 20:
                    h = L.parse_header(d)
                    state["seq"] = state["seq"] % 65535 + 1
                    state["mseq"] = state["mseq"] % 65535 + 1
                    reply = A.seal(key, "s2c", 4, state["seq"], h[2], 0xFFFFFFFF, [(state["mseq"], 4, b"")], int(w.clock.now))
                    c.sock.fifo.append((reply, "honest"))
                    state["acks"] += 1
                return "drop"
            if direction == "s2c" and addr == c.addr:
                return "drop"                     # the library's own server end is out of the picture from here on
            return None
        w.net.filters.append(instant_peer)
        c.updates_per_step = 2
        for k in range(400):
            c.udp.send(L.make_payload(1, k, 16), retry=0)
            w.step()
        out["counters"].inc("livespin_instant_acks", state["acks"])
        out["samples"].append({"scenario": "livespin", "measured_latency_after_instant_acks": c.udp.conn.latency, "send_interval": c.udp.conn.send_interval})
        # the peer falls silent just after a second boundary
        state["on"] = False
        c.updates_per_step = 1
        w.clock.now = float(int(w.clock.now) + 1) + 0.001
        n0 = run.c.get("wire_total", 0)
        step = 0.95 / cfg["spins"]
        for k in range(cfg["spins"]):
            if c.udp.conn is not None:
                c.udp.send(L.make_payload(1, 1000 + k, 16), retry=0)
            w.step(1, dt_override=step)
        burst = run.c.get("wire_total", 0) - n0
        out["counters"].inc("livespin_spins", cfg["spins"])
        out["counters"].inc("livespin_datagrams_emitted_within_the_second", burst)
        out["distinct"].add(h64("livespin", cfg["spins"]))
        out["samples"].append({"scenario": "livespin", "update_calls_within_one_clock_second": cfg["spins"], "datagrams_emitted_within_that_second": burst})
        finish_run(run, out, {"kind": "livespin"})
        return run.c.get("wire_total", 0)


MESSAGE_TIMEOUTS = (None, 0.05, 0.25, 0.6, 1.0, 2.5)     # None: the default (1 s) is left alone


def run_slowhello(cfg, out):
    """slow handshakes x eager server application.  Per world: one message timeout (swept over MESSAGE_TIMEOUTS by shard and
    case), one pair of handshake timeouts (the defaults of 2 s, or 5 s on both sides so that round trips of up to 4 s complete),
    and several clients whose round trips are a stratified sweep between 0.6 s and what the handshake timeout allows, split
    evenly or unevenly over the two directions (per-client delays: a filter of the simulated network).  The server handler
    sends 1-3 messages (all retry modes, small and fragmenting sizes) from inside connect(), then on every tick for the first
    few ticks after promotion, then periodically; the client answers from its connect callback.  The world runs on for several
    message timeouts and round trips, so that anything the handshake left in the retry bookkeeping comes round again while
    application messages are queued.  The verdict is the wire monitor's, unchanged."""
    total = 0
    for case in range(cfg["n"]):
        key = [cfg["seed"], "slowhello", cfg["shard"], case]
        r = rng("C03", *key)
        hr = rng("C03sh", *key)                       # the handler's own choices
        j = cfg["shard"] * cfg["n"] + case
        mt = MESSAGE_TIMEOUTS[(j + cfg["seed"]) % len(MESSAGE_TIMEOUTS)]
        hs_timeout = [None, 5.0][(j // len(MESSAGE_TIMEOUTS)) % 2]   # None: both sides keep their default of 2 s; every message timeout meets both
        limit = (hs_timeout or 2.0) * 0.96                            # round trips up to just below the handshake timeout
        dt = r.choice([1 / 60, 1 / 30, 1 / 60])

        def setup(ctxt, _mt=mt, _hs=hs_timeout):
            ctxt.setConnectionTimeout(30.0)
            if _mt is not None:
                ctxt.setMessageTimeout(_mt)
            if _hs is not None:
                ctxt.setTempConnectionTimeout(_hs)
        with T.Run(r, mtu=r.choice([1500, 1500, 576]), dt=dt, light=True, ctxt_setup=setup) as run:
            w = run.world
            eff_mt = 1.0 if mt is None else mt
            delays = {}                                # client addr -> (c2s, s2c)

            def per_client_delay(direction, addr, d, info):
                dl = delays.get(addr)
                if dl is None:
                    return None
                return [dl[0] if direction == "c2s" else dl[1]]
            w.net.filters.append(per_client_delay)
            # ---- the server application
            promoted = {}                              # id(conn) -> server iteration of its connect event
            eager_ticks = r.randint(2, 6)
            period = r.choice([2, 3, 7])
            modes = (0, 1, -1)

            def on_connect(client):
                promoted[id(client)] = w.server_iterations
                for k in range(hr.randint(1, 3)):
                    client.send(L.make_payload(0, 500000 + 10 * len(promoted) + k, hr.choice([24, 60, 300, 2000])), retry=modes[(len(promoted) + k) % 3])
                    run.c.inc("greetings_sent_from_connect_event")

            def on_update(delta):
                for cc in list(w.ctxt.connections.values()):
                    t0 = promoted.get(id(cc))
                    if t0 is None:
                        continue
                    age = w.server_iterations - t0
                    if age <= eager_ticks:
                        cc.send(L.make_payload(0, 600000 + w.server_iterations * 16 + len(promoted), hr.choice([16, 40, 200])), retry=modes[age % 3])
                        run.c.inc("server_sends_in_first_ticks_after_promotion")
                    elif age % period == 0:
                        cc.send(L.make_payload(0, 600000 + w.server_iterations * 16 + len(promoted), hr.choice([16, 40, 200, 1700])), retry=modes[(age // period) % 3])
                        run.c.inc("server_sends_later_after_promotion")
            w.handler.on["connect"] = [on_connect]
            w.handler.on["update"] = [on_update]
            # ---- the clients: a stratified sweep of round trips
            n = cfg["clients"]
            lo = 0.6
            clients = []
            for i in range(n):
                rtt = lo + (limit - lo) * (i + r.random()) / n
                share = r.choice([0.5, 0.5, 0.3, 0.7, 0.15, 0.85])
                c = w.add_client()
                delays[c.addr] = (rtt * share, rtt * (1.0 - share))
                c.rtt = rtt
                if hs_timeout is not None:
                    c.udp.setConnectionTimeout(hs_timeout)
                if mt is not None and r.random() < 0.5:
                    c.udp.setMessageTimeout(mt)
                c.updates_per_step = r.choice([1, 2])
                c.on_connected.append(lambda cl: [cl.udp.send(L.make_payload(cl.sender_id, 700000 + k, 30 + 200 * k), retry=modes[k]) for k in range(2)])
                clients.append(c)
            for c in clients:
                c.connect()
                w.step(r.randint(1, 9))               # the hellos start at different phases of the server's tick and second
            w.run_until(lambda ww: all(c.connect_cb for c in clients), int((limit + 1.5) / dt))
            n_s2c = run.c.get("wire_s2c", 0)
            # run on: two message timeouts and a round trip of the slowest client, application traffic all along
            w.step(int((2.0 * eff_mt + 1.0 * limit + 1.0) / dt))
            for c in clients:
                sc = w.ctxt.connections.get(c.addr)
                if c.connect_cb and c.connect_cb[-1][1] and sc is not None and id(sc) in promoted:
                    run.c.inc("slow_handshakes_completed")
                    if c.rtt > eff_mt:
                        run.c.inc("slow_handshakes_with_round_trip_above_message_timeout")
                    else:
                        run.c.inc("slow_handshakes_with_round_trip_below_message_timeout")
                else:
                    run.c.inc("slow_handshakes_not_completed(observation)")
            run.c.inc("slowhello_server_datagrams_after_promotion", run.c.get("wire_s2c", 0) - n_s2c)
            if len(out["samples"]) < 3:
                out["samples"].append({"scenario": "slowhello", "message_timeout": eff_mt, "handshake_timeout": hs_timeout or 2.0, "dt": dt,
                                       "round_trips": [round(c.rtt, 3) for c in clients], "completed": len(promoted),
                                       "eager_ticks": eager_ticks, "period": period})
            total += run.c.get("wire_total", 0)
            out["distinct"].add(h64("slowhello", key))
            finish_run(run, out, {"kind": "slowhello", "shard": cfg["shard"], "case": case})
    return total


def run_mixed(cfg, out):
    total = 0
    for case in range(cfg["n"]):
        key = [cfg["seed"], cfg["shard"], case]
        r = rng("C03", *key)
        pre = Preposition(r.choice([0, 65000, 65500, 32000]))
        try:
            with T.Run(r, mtu=r.choice([1500, 576, 1200]), dt=r.choice([1 / 60, 1 / 30]), light=True,
                       ctxt_setup=lambda ctxt: ctxt.setConnectionTimeout(30.0)) as run:
                w = run.world
                w.net.heal(0.004)
                # an application that sends right after connect() returned, on a connect attempt that FAILS (server unreachable):
                # nothing it handed to send() may ever travel in clear - not after the connect timeout, not after an abort
                for variant in ("timeout", "abort"):
                    x = w.add_client()
                    cut_x = lambda direction, addr, d, info, _a=x.addr: "drop" if addr == _a else None
                    w.net.filters.append(cut_x)
                    x.udp.setConnectionTimeout(0.3)
                    x.on_connecting.append(lambda cl: [cl.udp.send(L.make_payload(cl.sender_id, 900000 + k, 40 + 100 * k), retry=rm) for k, rm in enumerate((-1, 0, 1))])
                    x.connect()
                    if variant == "timeout":
                        w.step(int(1.6 / w.dt))
                    else:
                        w.step(4)
                        x.udp.disconnect()
                        x.wait_for_disconnect()
                        w.step(10)
                    run.c.inc("failed_connects_with_early_sends")
                    w.net.filters.remove(cut_x)
                    w.remove_client(x)
                # ... and on a connect attempt whose key agreement FAILS on the client (the crypto backend raises: an unsupported curve
                # in the hello, no memory): whatever the client makes of it, what the application handed to send() stays off the wire
                import mpgameserver.crypto as _K
                x = w.add_client(addr=("10.3.0.9", 40999))        # (its half-open entry outlives it at the server: an address of its own)
                x.udp.setConnectionTimeout(0.5)
                x.on_connecting.append(lambda cl: [cl.udp.send(L.make_payload(cl.sender_id, 910000 + k, 40 + 100 * k), retry=rm) for k, rm in enumerate((-1, 0, 1))])
                orig_ecdh = _K.ecdh_client

                def failing_ecdh(*a, **kw):
                    run.c.inc("client_key_agreements_failed")
                    raise ValueError("injected: key agreement failed")
                _K.ecdh_client = failing_ecdh
                try:
                    x.connect()
                    for k in range(int(1.2 / w.dt)):
                        w.step()
                        if k % 10 == 5:
                            try:
                                x.udp.send(L.make_payload(x.sender_id, 920000 + k, 60), retry=0)
                            except Exception:
                                pass
                finally:
                    _K.ecdh_client = orig_ecdh
                w.remove_client(x)
                c = connect_at(w, r.choice([0, 65100, 65530]), run.C)
                c.updates_per_step = 2
                # the reactor thread that encodes and sends the server's packets is busy now and then: it gets to the batches of up to
                # three ticks at once
                w.reactor_lag = [0, 1, 2, 3][(cfg["shard"] + case + cfg["seed"]) % 4]
                if w.reactor_lag:
                    run.c.inc("worlds_with_reactor_lag")
                # the very first datagram of the session (the hello) is duplicated / replayed later, while the server
                # application has messages queued in the same tick
                first = {}
                w.wire_hooks.append(lambda direction, addr, d, client, n: first.setdefault("hello", d) if (direction == "c2s" and d[12] == 1) else None)
                hello = [d for (_, _, dr, ad, d) in w.wire if dr == "c2s" and d[12] == 1][:1] if w.keep_wire else []
                w.handler.on["update"] = [lambda dt: [cc.send(L.make_payload(0, w.ticks, 32)) for cc in list(w.ctxt.connections.values()) if w.ticks % 3 == 0]]
                replay_r = rng("C03h", *key)

                def replay_hello(world, _c=c, _first=first):
                    if replay_r.random() < 0.03 and _c.hello_datagram is not None:
                        world.net.inject("c2s", _c.addr, _c.hello_datagram, "replay:client-hello")
                        run.c.inc("client_hello_replayed_after_key_agreement")
                w.tick_hooks.append(replay_hello)
                for phase in range(r.randint(3, 6)):
                    kind = r.choice(["traffic", "idle", "one-way-outage", "traffic"])
                    if kind == "traffic":
                        T.storm(run, r, [c], ticks=r.randint(100, 400), rate=r.choice([0.1, 0.5]),
                                profile_seq=[r.choice(["lossy", "dup", "reorder", "slow", "clean"])], retry_modes=(0, 1, -1))
                    elif kind == "idle":
                        w.net.heal(0.004)
                        w.step(r.randint(100, 600))          # keep-alives only
                    else:
                        w.net.set(c2s=L.Policy(outage=r.random() < 0.5, delay=(0.004, 0.004)), s2c=L.Policy(outage=r.random() < 0.5, delay=(0.004, 0.004)))
                        w.step(r.randint(30, 200))
                        w.net.heal(0.004)
                ending = ["goodbye-unanswered", "server-times-out-while-sending", "blackout-with-pending-sends", "graceful", "goodbye-unanswered",
                          "server-times-out-while-sending", "blackout-with-pending-sends"][(cfg["shard"] + 2 * case + cfg["seed"]) % 7]
                run.c.inc("ending_" + ending)
                if ending == "graceful":
                    # a graceful disconnect travels encrypted too
                    c.udp.disconnect()
                    w.step(30)
                elif ending == "blackout-with-pending-sends" and run.open(c):
                    # retried messages are pending when the server falls silent for longer than the client's 5 s: whatever the
                    # client does about it (DROPPED today), nothing it still holds goes out in clear
                    for _k in range(4):
                        run.app.send(c, "client", r.choice([40, 300, 1800]), r.choice([-1, -1, 1]), with_cb=False)
                    w.step(2)
                    w.net.set(c2s=L.Policy(outage=True), s2c=L.Policy(outage=True))
                    n0 = run.c.get("wire_c2s", 0)
                    w.step(int(7.5 / w.dt))
                    run.c.inc("blackouts_with_pending_sends")
                    run.c.inc("datagrams_during_blackout", run.c.get("wire_c2s", 0) - n0)
                    w.net.heal(0.004)
                    w.step(20)
                elif ending == "goodbye-unanswered" and run.open(c):
                    # the application says goodbye and blocks in waitForDisconnect() while the server is unreachable, or its
                    # acks are lost: whatever the client repeats meanwhile is sealed under fresh nonces
                    c.udp.setKeepAliveInterval(r.choice([0.02, 0.05, 0.1]))
                    w.net.set(c2s=L.Policy(outage=r.random() < 0.5, delay=(0.004, 0.004)), s2c=L.Policy(outage=True))
                    c.udp.disconnect()
                    n0 = run.c.get("wire_c2s", 0)
                    c.wait_for_disconnect()
                    run.c.inc("datagrams_during_wait_for_disconnect", run.c.get("wire_c2s", 0) - n0)
                    w.net.heal(0.004)
                    w.step(10)
                elif run.open(c):
                    # the client falls silent; the server application keeps queueing messages on every tick until (and in) the
                    # tick in which the server times the client out: the last datagrams travel encrypted like all others
                    w.handler.on["update"] = [lambda dt: [cc.send(L.make_payload(0, w.ticks, 32)) for cc in list(w.ctxt.connections.values())]]
                    w.ctxt.connection_timeout = r.choice([0.5, 1.0, 1.5])
                    w.net.set(c2s=L.Policy(outage=True), s2c=L.Policy(delay=(0.004, 0.004)))
                    c.active = False
                    n0 = run.c.get("wire_s2c", 0)
                    w.run_until(lambda ww: c.addr not in ww.ctxt.connections, int(2.5 / w.dt))
                    w.step(5)
                    if c.addr not in w.ctxt.connections:
                        run.c.inc("server_timed_out_client_while_sending")
                    run.c.inc("datagrams_until_server_timeout", run.c.get("wire_s2c", 0) - n0)
                # ---- the cipher fails (memory) while the plain thread server's send path encodes a packet: whatever that path does
                #      about it, nothing it hands to the socket carries application bytes in clear
                import mpgameserver.server as _SV
                import mpgameserver.crypto as _CR
                CN_ = run.C
                sent_raw = []

                class _Sock(object):
                    def sendto(self, d, a):
                        sent_raw.append(bytes(d))
                key_ = bytes(range(16))
                pkts = []
                for k_ in range(3):
                    pl_ = L.make_payload(0, 700000 + k_, 48)
                    hdr_ = CN_.PacketHeader.create(True, int(w.clock.now), CN_.PacketType.APP, CN_.SeqNum(100 + k_), CN_.SeqNum(1), 0)
                    pkts.append((CN_.Packet.create(hdr_, [CN_.PendingMessage(CN_.SeqNum(50 + k_), CN_.PacketType.APP, pl_, None, 0)]), key_, ("10.77.0.%d" % k_, 7)))
                orig_enc = _CR.encrypt_gcm
                for fail_at in (0, 1, 2):
                    calls_ = [0]

                    def enc(*a_, _f=fail_at, **kw_):
                        calls_[0] += 1
                        if calls_[0] - 1 == _f:
                            raise MemoryError("cipher context allocation failed")
                        return orig_enc(*a_, **kw_)
                    _CR.encrypt_gcm = enc
                    old_sock = getattr(w.thread, "sock", None)
                    w.thread.sock = _Sock()
                    try:
                        _SV.UdpServerThread.send(w.thread, pkts)
                    except Exception:
                        run.c.inc("thread_send_raised_on_cipher_failure(observation)")
                    finally:
                        _CR.encrypt_gcm = orig_enc
                        w.thread.sock = old_sock
                    run.c.inc("cipher_failures_in_thread_send")
                if any(L.MAGIC in d_ for d_ in sent_raw):
                    run.report("C03", "plaintext-on-wire", "with the cipher failing, UdpServerThread.send handed a datagram with application bytes in clear to the socket")
                total += run.c.get("wire_total", 0)
                out["distinct"].add(h64("mixed", key))
                finish_run(run, out, key)
        finally:
            pre.undo()
    return total


def run_shard(cfg):
    out = {"violations": [], "counters": Counter(), "samples": [], "distinct": set()}
    n = {"silent": run_silent, "burst": run_burst, "mirror": run_mirror, "mixed": run_mixed, "idlespin": run_idlespin, "livespin": run_livespin,
         "slowhello": run_slowhello}[cfg["kind"]](cfg, out)
    return {"evaluations": n, "distinct": sorted(out["distinct"]), "counters": dict(out["counters"]),
            "violations": out["violations"][:60], "samples": out["samples"]}


def finish(tier, seed, results):
    m = merge(results)
    inconclusive = []
    need(m["counters"], ["wire_gcm", "nonces_recorded", "wire_server_hello_clear", "silent_peer_datagrams", "silent_wraps",
                         "mirror_same_time_seq_ack_in_both_directions", "wire_c2s", "wire_s2c", "idlespin_spins",
                         "client_hello_replayed_after_key_agreement", "client_wait_for_disconnect_calls", "datagrams_during_wait_for_disconnect", "failed_connects_with_early_sends", "client_key_agreements_failed", "blackouts_with_pending_sends", "livespin_spins", "livespin_instant_acks", "worlds_with_reactor_lag", "reactor_batches_delayed", "cipher_failures_in_thread_send",
                         "server_timed_out_client_while_sending",
                         "slow_handshakes_completed", "slow_handshakes_with_round_trip_above_message_timeout",
                         "slow_handshakes_with_round_trip_below_message_timeout", "greetings_sent_from_connect_event",
                         "server_sends_in_first_ticks_after_promotion", "slowhello_server_datagrams_after_promotion"], inconclusive)
    cov = {
        "evaluations": m["evaluations"],
        "distinct_nontrivial": m["counters"].get("distinct_nonces", 0),
        "workload_configurations": m["distinct_nontrivial"],
        "rule": "one evaluation = one datagram handed to a socket, opened by the monitor with AESGCM(key).decrypt(d[:12], d[20:], d[:20]) and "
                "entered into the per-key nonce set. Workloads: silent peer with frozen ack across the 16-bit wrap (pre-positioned "
                "counters in quick, full wraps in thorough); same-second bursts at the rate cap with frozen ack; mirrored counters in both "
                "directions for several offsets (the counter mirror_same_time_seq_ack_in_both_directions shows how often only the "
                "direction magic separated two nonces); mixed sizes/retry modes/idle/outages, ending in a graceful disconnect, in a blocking waitForDisconnect() whose notice is never "
                "acked, or in a server-side timeout while the application keeps sending; slow handshakes (round trips swept from 0.6 s to just "
                "below the handshake timeout, message timeouts from 0.05 s to 2.5 s) with a server application that sends from its connect event "
                "and in the first ticks after promotion. distinct = distinct (session key, "
                "nonce) pairs recorded, i.e. encrypted datagrams that are pairwise different in their nonce",
        "samples": m["samples"],
        "counters": m["counters"],
        "observations_not_verdicts": {k: v for k, v in m["counters"].items() if k.startswith("observation:")},
    }
    return {"coverage": cov, "inconclusive": inconclusive,
            "assumptions": ["non-decreasing clock and the protocol's send-rate cap (default send_interval), as the quantifier allows",
                            "AES-GCM itself is trusted",
                            "structural regularities of today's nonce (seq step +1, header time = int(now)) are recorded as observations only"]}
