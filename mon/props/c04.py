"""C04 - at-most-once delivery: duplicates, replays and retransmissions are dropped.

Checker over the delivery log: each unique application payload is handed to the peer
application at most once.  Around every _recv_datagram: a copy of a datagram the
endpoint has already accepted (network duplicate or adversary replay, fewer than
32767 datagrams of that sender apart - guaranteed by construction and recorded) must
be rejected, stats.dropped must rise by exactly one and the C01 snapshot must be
otherwise unchanged.
"""
import struct

from mon.engines import lockstep as L
from mon.core.merge import merge, need
from mon.core.util import Counter, rng, h64
from mon.engines import traffic as T
from mon.props import c05
from mon.models.ring import ring_diff

ID = "C04"
LEVEL = "fault_enumeration"
SHARD_TIMEOUT = {"quick": 600, "thorough": 3000}
PROPS = ("C04",)


def plan(tier, seed):
    if tier == "quick":
        return ([{"kind": "faults", "tier": tier, "seed": seed, "shard": i, "n": 3, "subprocess": True} for i in range(14)]
                + [{"kind": "teardown", "tier": tier, "seed": seed, "shard": 0, "n": 6, "subprocess": True}])
    return ([{"kind": "faults", "tier": tier, "seed": seed, "shard": i, "n": 30, "subprocess": True} for i in range(32)]
            + [{"kind": "teardown", "tier": tier, "seed": seed, "shard": i, "n": 25, "subprocess": True} for i in range(4)])


def replay_adversary(run, r, c):
    """records every datagram of the session and replays copies later: right away, after the
    32-datagram window moved on, after the 256-message window moved on"""
    w = run.world
    log = []

    def on_wire(direction, addr, datagram, client, n):
        if addr == c.addr:
            log.append((direction, datagram))
    w.wire_hooks.append(on_wire)
    state = {"burst": 0}

    def tick(world):
        if len(log) < 8:
            return
        x = r.random()
        if x < 0.15:
            direction, d = log[-r.randint(1, min(len(log), 8))]
            w.net.inject(direction, c.addr, d, "replay:recent")
            run.c.inc("adv_replay_recent")
        elif x < 0.30 and len(log) > 120:
            direction, d = log[-r.randint(70, min(len(log), 600))]
            w.net.inject(direction, c.addr, d, "replay:beyond-32-window")
            run.c.inc("adv_replay_beyond_window")
        elif x < 0.40 and len(log) > 380:
            direction, d = log[r.randrange(0, len(log) - 330)]
            w.net.inject(direction, c.addr, d, "replay:old")
            run.c.inc("adv_replay_old")
        elif x < 0.408:
            # message flood from both sides so that the 256-message window moves fast
            state["burst"] = 5
        elif x < 0.425:
            # a "ring walk": forged datagrams (valid header, garbage body) whose cleartext sequence numbers step once around the
            # 16-bit ring - a receiver that trusts a header before it is authenticated ends up with an empty window next to the
            # recorded datagram - then that recorded datagram is replayed.  Forgeries change nothing, the copy is still a duplicate
            direction, d = log[-r.randint(2, min(len(log), 20))]
            h = L.parse_header(d)
            for step_ in (16384, 32768, 49152, 65535 - 40, 65535 - 20, 65535 - 5):
                seq_f = (h[2] + step_ - 1) % 65535 + 1
                forged = struct.pack(">4sLHHBHBL", h[0], int(w.clock.now), seq_f, h[3], h[4], h[5], h[6], h[7]) + r.randbytes(len(d) - 20)
                w.net.inject(direction, c.addr, forged, "forged:ring-walk")
            w.net.inject(direction, c.addr, d, "replay:after-ring-walk")
            run.c.inc("adv_ring_walks")
        if state["burst"]:
            state["burst"] -= 1
            for _ in range(40):
                run.app.send(c, "client", r.choice([0, 1, 2, 3, 12, 20]), 0, with_cb=False)
            sc = run.sconn(c)
            if sc is not None:
                for _ in range(40):
                    run.app.send(sc, "server", r.choice([11, 12, 20]), 0, with_cb=False)
            run.c.inc("message_bursts")
    w.tick_hooks.append(tick)
    return lambda: w.tick_hooks.remove(tick)


def run_teardown(cfg, out):
    """sessions that END while their last datagrams are still in flight: the client application sends k datagrams worth of
    messages (m messages each, every retry mode) and then calls disconnect(); the network holds all of them and releases them
    together - between two server ticks - in an order in which the DISCONNECT datagram overtakes j of the k application
    datagrams (j = 0..k).  Whatever the server does with messages that reach it after the DISCONNECT, every unique payload is
    handed to EventHandler.handle_message at most once (judged by AppTracker from the delivery log); in addition a payload that
    the application got more often than the endpoint accepted it is reported under its own label."""
    total = 0
    for case in range(cfg["n"]):
        key = [cfg["seed"], cfg["shard"], case]
        if cfg.get("only_case") and cfg["only_case"] != key:
            continue
        r = rng("C04", "teardown", *key)
        dt = r.choice([1 / 60, 1 / 60, 1 / 30, 1 / 120])
        with T.Run(r, mtu=r.choice([1500, 1500, 576]), dt=dt, jitter=r.choice([0.0, 0.2])) as run:
            w = run.world
            w.net.heal(0.004)
            run.report.context = {"case_key": key, "scenario": "teardown"}
            bystander = w.connect_client() if r.random() < 0.5 else None
            if r.random() < 0.4:
                # the server application's handle_message raises now and then (after it has taken the message)
                raise_r = rng("C04", "teardown-raise", *key)

                def raiser(client, seqnum, msg):
                    if raise_r.random() < 0.15:
                        raise RuntimeError("seeded handler failure")
                w.handler.on.setdefault("message", []).append(raiser)
            # what the server is offered, tick by tick: (tick, "disconnect" | "app" | "other") per datagram of the session's client
            offered = []
            state = {}

            def classify(datagram):
                conn = state["c"].udp.conn
                dec = L.decode_datagram(datagram, conn.session_key_bytes if conn is not None else state.get("key"))
                if not dec.ok:
                    return "other"
                types = {t for _s, t, _p in dec.msgs}
                return "disconnect" if 5 in types else ("app" if types & {6, 7} else "other")

            def on_offer(addr, datagram, origin):
                if state.get("c") is not None and addr == state["c"].addr:
                    offered.append((w.ticks, classify(datagram), L.parse_header(datagram)[2]))
            w.offer_hooks.append(on_offer)

            def hold(direction, addr, datagram, info):
                # every datagram the client emits from the start of the burst on is released at t_rel, in emission order - except
                # the DISCONNECT datagram, which is placed in front of the last j application datagrams
                if direction != "c2s" or state.get("c") is None or addr != state["c"].addr or not state.get("holding"):
                    return None
                kind = classify(datagram)
                state["emitted"] += 1
                if kind == "app" and not state["disc"]:
                    state["app"] += 1
                    slot = state["app"] * 1e-7
                elif kind == "disconnect" and not state["disc"]:
                    state["disc"] += 1
                    slot = (state["app"] - min(state["j"], state["app"])) * 1e-7 + 0.5e-7
                else:
                    # keep-alives in between stay where they were; whatever follows the DISCONNECT arrives after everything else
                    slot = (state["app"] * 1e-7 + 0.2e-7 if not state["disc"] else 1e-5) + state["emitted"] * 1e-10
                return [max(0.0, state["t_rel"] + slot - w.clock.now)]

            shapes = [0, 1, 2, None, None]           # j: none, one, two, all, random (>= 2) of the k datagrams are overtaken
            r.shuffle(shapes)
            for sess in range(len(shapes)):
                c = w.connect_client(w.add_client(addr=("10.4.%d.%d" % (case % 250, sess + 2), 41000 + sess)))
                c.updates_per_step = 1
                sc = run.sconn(c)
                if sc is None:
                    break
                k = r.randint(2, 5)
                m = r.randint(1, 3)
                j = shapes[sess]
                j = (k if sess % 2 else r.randint(2, k)) if j is None else j
                # a little ordinary traffic both ways first
                for _t in range(r.randint(3, 12)):
                    run.app.send(c, "client", r.choice([11, 30, 200]), r.choice([0, 1, -1]), with_cb=False)
                    run.app.send(sc, "server", r.choice([11, 30, 200]), r.choice([0, 1, -1]), with_cb=False)
                    if bystander is not None and run.open(bystander):
                        run.app.send(bystander, "client", 20, 0, with_cb=False)
                    w.step()
                w.step(6)
                del offered[:]
                state.update(c=c, key=c.udp.conn.session_key_bytes, holding=True, emitted=0, app=0, disc=0, k=k, j=j,
                             t_rel=w.clock.now + 0.35 + 0.05 * k)
                w.net.filters.append(hold)
                sent = []
                guard = 0
                while state["app"] < k and guard < 40:
                    guard += 1
                    want = state["app"]
                    for _m in range(m):
                        sent.append(run.app.send(c, "client", r.choice([11, 12, 40, 300]), r.choice([0, 0, 1, -1]), with_cb=False))
                        total += 1
                        out["distinct"].add(h64("teardown", key, sess, len(sent)))
                    while state["app"] == want and guard < 40:
                        guard += 1
                        w.step()
                if state["app"] == k and w.clock.now < state["t_rel"] - 4 * w.dt:
                    c.udp.disconnect()
                    run.c.inc("teardown_sessions")
                    while w.clock.now < state["t_rel"] + 6 * w.dt:
                        w.step()
                    # what did the server see?  (read from the offers, not from the plan)
                    # an application datagram is overtaken when it is offered after the DISCONNECT datagram, in the same tick, and
                    # carries an older datagram sequence number (what the client emits after disconnect() is not counted)
                    for t, dseq in [(t, q) for t, kind, q in offered if kind == "disconnect"][:1]:
                        same = [(kind, q) for tt, kind, q in offered if tt == t]
                        after = sum(1 for kind, q in same[same.index(("disconnect", dseq)) + 1:] if kind == "app" and ring_diff(dseq, q) > 0)
                        run.c.inc("teardown_disconnect_overtook_%s_in_one_tick" % ("none" if after == 0 else "one" if after == 1 else "two_or_more"))
                        run.c.inc("teardown_datagrams_behind_disconnect", after)
                else:
                    run.c.inc("teardown_sessions_not_shaped")
                w.net.filters.remove(hold)
                state["holding"] = False
                w.step(10)
                # handed over more often than accepted: the application got a payload again although the endpoint did not receive
                # (accept) it again - no duplicate on the wire explains it
                for rec in sent:
                    got = run.app.deliveries.get(rec["id"], []) if rec["id"] else []
                    if got:
                        run.c.inc("teardown_payloads_delivered")
                    if len(got) > 1 and (id(sc), rec["id"]) not in run.app.double_at_accept:
                        run.report("C04", "handed-to-application-again-without-being-received-again",
                                   "message %r (%d bytes, retry %d) was accepted once by the server endpoint but handed to handle_message %d times "
                                   "(client disconnecting: DISCONNECT overtook %d of %d datagrams, %d messages each, all offered in one tick)" % (
                                       rec["id"], rec["len"], rec["retry"], len(got), j, k, m), {"overtaken": j, "datagrams": k, "per_datagram": m})
                if c.udp.conn is not None:
                    c.udp.forceDisconnect()
                w.remove_client(c)
                state["c"] = None
                w.step(r.randint(2, 20))
            if len(out["samples"]) < 2:
                out["samples"].append({"scenario": "teardown", "case_key": key, "dt": dt, "shapes": shapes})
            c05.collect(run, out, PROPS, {"kind": "teardown", "key": key})
    return total


def run_shard(cfg):
    out = {"violations": [], "counters": Counter(), "samples": [], "distinct": set()}
    if cfg.get("kind") == "teardown":
        n = run_teardown(cfg, out)
        return {"evaluations": n, "distinct": sorted(out["distinct"]), "counters": dict(out["counters"]),
                "violations": out["violations"][:60], "samples": out["samples"]}
    n = c05.run_faults(cfg, out, props=PROPS, tag="C04", extra=replay_adversary,
                       profiles_pool=["dup", "dup", "reorder", "hostile", "acks-lost", "slow", "lossy"])
    return {"evaluations": n, "distinct": sorted(out["distinct"]), "distinct_count": out.get("distinct_n", 0), "counters": dict(out["counters"]),
            "violations": out["violations"][:60], "samples": out["samples"]}


def finish(tier, seed, results):
    m = merge(results)
    inconclusive = []
    need(m["counters"], ["delivered_to_server", "delivered_to_client", "duplicates_dropped", "adv_replay_recent", "adv_replay_beyond_window",
                         "adv_replay_old", "adv_ring_walks", "net_duplicated_c2s", "net_duplicated_s2c", "message_bursts", "recv_genuine",
                         "teardown_disconnect_overtook_none_in_one_tick", "teardown_disconnect_overtook_one_in_one_tick",
                         "teardown_disconnect_overtook_two_or_more_in_one_tick", "teardown_payloads_delivered"], inconclusive)
    cov = {
        "evaluations": m["evaluations"],
        "distinct_nontrivial": m["distinct_nontrivial"],
        "rule": "one evaluation = one application send inside a seeded world with heavy duplication/reordering/ack loss (so that "
                "retransmissions race acks), message bursts that move the 256-message window, and an adversary that replays recorded "
                "datagrams of the session right away, 70-600 datagrams later and >330 datagrams later (always far below 32767 apart). "
                "Every delivery is matched to its send by the unique id in the payload; every copy of an accepted datagram must be "
                "dropped whole. distinct = application sends made inside fault worlds (unique payload id, own network fate)",
        "fault_classes": ["network duplication (1-3 copies)", "reordering", "ack loss", "replay:recent", "replay:beyond-32-window",
                          "replay:old (beyond both windows)", "retransmission (BEST_EFFORT / RETRY_ON_TIMEOUT)",
                          "teardown: the client's DISCONNECT datagram overtakes 0..k of its k last application datagrams, all offered to the "
                          "server between two ticks (plus the retransmissions the client still emits after disconnect())"],
        "samples": m["samples"],
        "counters": m["counters"],
    }
    return {"coverage": cov, "inconclusive": inconclusive,
            "assumptions": ["original and copy are always fewer than 32767 datagrams of that sender apart (sessions are far shorter)",
                            "payloads shorter than 11 bytes cannot carry an id; for them the multiset delivered <= multiset sent is checked"]}
