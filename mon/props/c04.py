"""C04 - at-most-once delivery: duplicates, replays and retransmissions are dropped.

Checker over the delivery log: each unique application payload is handed to the peer
application at most once.  Around every _recv_datagram: a copy of a datagram the
endpoint has already accepted (network duplicate or adversary replay, fewer than
32767 datagrams of that sender apart - guaranteed by construction and recorded) must
be rejected, stats.dropped must rise by exactly one and the C01 snapshot must be
otherwise unchanged.
"""
import struct

from mon.engines import lockstep as L
from mon.core.merge import merge, need
from mon.core.util import Counter, rng
from mon.engines import traffic as T
from mon.props import c05

ID = "C04"
LEVEL = "fault_enumeration"
SHARD_TIMEOUT = {"quick": 600, "thorough": 3000}
PROPS = ("C04",)


def plan(tier, seed):
    if tier == "quick":
        return [{"kind": "faults", "tier": tier, "seed": seed, "shard": i, "n": 3, "subprocess": True} for i in range(14)]
    return [{"kind": "faults", "tier": tier, "seed": seed, "shard": i, "n": 30, "subprocess": True} for i in range(32)]


def replay_adversary(run, r, c):
    """records every datagram of the session and replays copies later: right away, after the
    32-datagram window moved on, after the 256-message window moved on"""
    w = run.world
    log = []

    def on_wire(direction, addr, datagram, client, n):
        if addr == c.addr:
            log.append((direction, datagram))
    w.wire_hooks.append(on_wire)
    state = {"burst": 0}

    def tick(world):
        if len(log) < 8:
            return
        x = r.random()
        if x < 0.15:
            direction, d = log[-r.randint(1, min(len(log), 8))]
            w.net.inject(direction, c.addr, d, "replay:recent")
            run.c.inc("adv_replay_recent")
        elif x < 0.30 and len(log) > 120:
            direction, d = log[-r.randint(70, min(len(log), 600))]
            w.net.inject(direction, c.addr, d, "replay:beyond-32-window")
            run.c.inc("adv_replay_beyond_window")
        elif x < 0.40 and len(log) > 380:
            direction, d = log[r.randrange(0, len(log) - 330)]
            w.net.inject(direction, c.addr, d, "replay:old")
            run.c.inc("adv_replay_old")
        elif x < 0.408:
            # message flood from both sides so that the 256-message window moves fast
            state["burst"] = 5
        elif x < 0.425:
            # a "ring walk": forged datagrams (valid header, garbage body) whose cleartext sequence numbers step once around the
            # 16-bit ring - a receiver that trusts a header before it is authenticated ends up with an empty window next to the
            # recorded datagram - then that recorded datagram is replayed.  Forgeries change nothing, the copy is still a duplicate
            direction, d = log[-r.randint(2, min(len(log), 20))]
            h = L.parse_header(d)
            for step_ in (16384, 32768, 49152, 65535 - 40, 65535 - 20, 65535 - 5):
                seq_f = (h[2] + step_ - 1) % 65535 + 1
                forged = struct.pack(">4sLHHBHBL", h[0], int(w.clock.now), seq_f, h[3], h[4], h[5], h[6], h[7]) + r.randbytes(len(d) - 20)
                w.net.inject(direction, c.addr, forged, "forged:ring-walk")
            w.net.inject(direction, c.addr, d, "replay:after-ring-walk")
            run.c.inc("adv_ring_walks")
        if state["burst"]:
            state["burst"] -= 1
            for _ in range(40):
                run.app.send(c, "client", r.choice([0, 1, 2, 3, 12, 20]), 0, with_cb=False)
            sc = run.sconn(c)
            if sc is not None:
                for _ in range(40):
                    run.app.send(sc, "server", r.choice([11, 12, 20]), 0, with_cb=False)
            run.c.inc("message_bursts")
    w.tick_hooks.append(tick)
    return lambda: w.tick_hooks.remove(tick)


def run_shard(cfg):
    out = {"violations": [], "counters": Counter(), "samples": [], "distinct": set()}
    n = c05.run_faults(cfg, out, props=PROPS, tag="C04", extra=replay_adversary,
                       profiles_pool=["dup", "dup", "reorder", "hostile", "acks-lost", "slow", "lossy"])
    return {"evaluations": n, "distinct": sorted(out["distinct"]), "distinct_count": out.get("distinct_n", 0), "counters": dict(out["counters"]),
            "violations": out["violations"][:60], "samples": out["samples"]}


def finish(tier, seed, results):
    m = merge(results)
    inconclusive = []
    need(m["counters"], ["delivered_to_server", "delivered_to_client", "duplicates_dropped", "adv_replay_recent", "adv_replay_beyond_window",
                         "adv_replay_old", "adv_ring_walks", "net_duplicated_c2s", "net_duplicated_s2c", "message_bursts", "recv_genuine"], inconclusive)
    cov = {
        "evaluations": m["evaluations"],
        "distinct_nontrivial": m["distinct_nontrivial"],
        "rule": "one evaluation = one application send inside a seeded world with heavy duplication/reordering/ack loss (so that "
                "retransmissions race acks), message bursts that move the 256-message window, and an adversary that replays recorded "
                "datagrams of the session right away, 70-600 datagrams later and >330 datagrams later (always far below 32767 apart). "
                "Every delivery is matched to its send by the unique id in the payload; every copy of an accepted datagram must be "
                "dropped whole. distinct = application sends made inside fault worlds (unique payload id, own network fate)",
        "fault_classes": ["network duplication (1-3 copies)", "reordering", "ack loss", "replay:recent", "replay:beyond-32-window",
                          "replay:old (beyond both windows)", "retransmission (BEST_EFFORT / RETRY_ON_TIMEOUT)"],
        "samples": m["samples"],
        "counters": m["counters"],
    }
    return {"coverage": cov, "inconclusive": inconclusive,
            "assumptions": ["original and copy are always fewer than 32767 datagrams of that sender apart (sessions are far shorter)",
                            "payloads shorter than 11 bytes cannot carry an id; for them the multiset delivered <= multiset sent is checked"]}
