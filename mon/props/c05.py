"""C05 - guaranteed sends are eventually delivered, for every size, from both APIs.

Bounded-progress form: every guaranteed send made while the connection is open is
in the peer's delivery log no later than T_heal + 120 virtual seconds, provided the
connection is still open then (otherwise the obligation is void and counted so).

Scenarios (lockstep engine, real client + real server loop, virtual time):
  sizes   clean network, every boundary length from each API, one MTU per world
  faults  targeted loss of the k-th datagram that carries the message / of the acks,
          then random loss/dup/reorder/delay profiles with mixed other traffic, then a
          healed network until quiescence or the horizon
"""
from mon.core.merge import merge, need
from mon.core.util import Counter, h64, rng
from mon.engines import traffic as T
from mon.engines import lockstep as L

ID = "C05"
LEVEL = "fault_enumeration"
SHARD_TIMEOUT = {"quick": 600, "thorough": 3000}
PROPS = ("C05",)

MTUS_QUICK = [512, 576, 1000, 1200, 1400, 1500]
APIS = [("client", "send_guaranteed"), ("client", "send"), ("server", "send_guaranteed"), ("server", "send")]


def plan(tier, seed):
    shards = []
    if tier == "quick":
        for i, mtu in enumerate(MTUS_QUICK):
            shards.append({"kind": "sizes", "tier": tier, "seed": seed, "mtu": mtu, "shard": i, "subprocess": True})
        for i in range(10):
            shards.append({"kind": "faults", "tier": tier, "seed": seed, "shard": i, "n": 5, "subprocess": True})
        shards.append({"kind": "realnet", "tier": tier, "seed": seed, "shard": 200, "subprocess": True})
        shards.append({"kind": "limit", "tier": tier, "seed": seed, "mtu": 512, "shard": 300, "subprocess": True})
    else:
        for i, mtu in enumerate((512, 1100, 1500)):
            shards.append({"kind": "limit", "tier": tier, "seed": seed, "mtu": mtu, "shard": 300 + i, "subprocess": True})
        shards.append({"kind": "realnet", "tier": tier, "seed": seed, "shard": 200, "subprocess": True})
        mtus = sorted(set(MTUS_QUICK + list(range(512, 1501, 21))))
        for i, mtu in enumerate(mtus):
            shards.append({"kind": "sizes", "tier": tier, "seed": seed, "mtu": mtu, "shard": i, "subprocess": True})
        for i in range(32):
            shards.append({"kind": "faults", "tier": tier, "seed": seed, "shard": i, "n": 90, "subprocess": True})
    return shards


def collect(run, out, props, key):
    for v in run.report.violations:
        if v["property"] in props:
            v = dict(v)
            v["case_key"] = key
            out["violations"].append(v)
    out["counters"].merge(run.c)
    out["counters"].merge({"net_" + k: v for k, v in run.world.net.stats.items()})
    out["counters"].merge({"viol:" + k: n for k, n in run.report.counts.items() if k.split(":")[0] in props})


def run_sizes(cfg, out, props=None, tag="C05"):
    props = props or PROPS
    r = rng(tag, cfg["seed"], "sizes", cfg["mtu"])
    with T.Run(r, mtu=cfg["mtu"]) as run:
        w = run.world
        w.net.heal(0.004)
        c = w.connect_client()
        sizes = T.sizes_for(run.C, r, cfg["tier"])
        if cfg["tier"] == "thorough":
            sizes = sorted(set(sizes + [r.randint(0, 65536) for _ in range(20)] + [r.randint(0, 3000) for _ in range(40)]))
        else:
            sizes = sorted(set(sizes + [r.randint(0, 20000) for _ in range(6)]))
        n = 0
        for size in sizes:
            for side, api in APIS:
                ep = c if side == "client" else run.sconn(c)
                if ep is None:
                    continue
                rec = run.app.send(ep, side, size, -1, api=api, with_cb=True)
                n += 1
                out["distinct"].add(h64("size", cfg["mtu"], size, side, api))
            # give the four messages time; fragments need one tick per datagram
            frags = size // run.C.Packet.MAX_FRAGMENT_SIZE + 2
            w.step(6 + frags * 2)
        healed = run.settle([c], min_ticks=20, horizon=20.0)
        if healed is not None and change_mtu(run, c, r):
            healed = run.settle([c], min_ticks=20, horizon=20.0)
        if healed is not None and age_session(run, c, r):
            healed = run.settle([c], min_ticks=20, horizon=20.0)
        T.final_checks(run, [c], healed)
        out["counters"].inc("sizes_tried", len(sizes))
        out["counters"].inc("cases", n)
        if len(out["samples"]) < 2:
            out["samples"].append({"scenario": "sizes", "mtu": cfg["mtu"], "apis": APIS, "lengths": sizes[:60]})
        collect(run, out, props, {"kind": "sizes", "mtu": cfg["mtu"]})
    return n


def run_limit(cfg, out):
    """the top of the size range: messages of exactly MAX_FRAGMENTS fragments (the fragmentation limit), one byte and one
    fragment less, from both sides, over a clean link - 'any size from 0 bytes to the fragmentation limit'"""
    r = rng("C05", cfg["seed"], "limit", cfg["mtu"])
    with T.Run(r, mtu=cfg["mtu"], dt=1 / 60, light=True, bitfield=False) as run:
        w = run.world
        w.net.heal(0.004)
        c = w.connect_client()
        P = run.C.Packet
        limit = P.MAX_FRAGMENT_SIZE * P.MAX_FRAGMENTS
        plan_ = [("client", r.choice(["send_guaranteed", "send"]), limit)]
        if cfg["tier"] == "thorough":
            plan_ += [("server", "send", limit - r.randint(1, P.MAX_FRAGMENT_SIZE - 1)), ("client", "send", limit - P.MAX_FRAGMENT_SIZE - r.randint(0, 5)),
                      ("server", "send_guaranteed", limit), ("client", "send", limit - 1)]
        ups = c.updates_per_step
        n = 0
        for side, api, size in plan_:
            ep = c if side == "client" else run.sconn(c)
            if ep is None or not run.open(c):
                break
            c.updates_per_step = 8
            rec = run.app.send(ep, side, size, -1, api=api, with_cb=True, keep_payload=False)
            n += 1
            out["distinct"].add(h64("limit", cfg["mtu"], size, side, api))
            out["counters"].inc("limit_sized_sends")
            if rec.get("nmsgs") == P.MAX_FRAGMENTS:
                out["counters"].inc("sends_of_exactly_max_fragments")
            w.run_until(lambda ww: bool(rec["cb"]), P.MAX_FRAGMENTS * 2 + 600)
            w.step(20)
        c.updates_per_step = ups
        healed = run.settle([c], min_ticks=20, horizon=30.0)
        T.final_checks(run, [c], healed)
        out["counters"].inc("cases", n)
        if len(out["samples"]) < 2:
            out["samples"].append({"scenario": "limit", "mtu": cfg["mtu"], "limit_bytes": limit, "sends": [(a, b, c_) for a, b, c_ in plan_]})
        collect(run, out, PROPS, {"kind": "limit", "mtu": cfg["mtu"]})
    return n


class KthLoss(object):
    """network filter: drop the k-th datagram (in one direction) that carries a given message;
    or the first n datagrams flowing back after it (its acks)"""

    def __init__(self, run, conn, msgseqs, k, direction, ack_drops=0):
        self.run = run
        self.conn = conn
        self.msgseqs = set(msgseqs)
        self.k = k
        self.direction = direction
        self.seen = 0
        self.ack_drops = ack_drops
        self.dropped = 0

    def __call__(self, direction, addr, datagram, info):
        if direction == self.direction:
            dec = L.decode_datagram(datagram, self.conn.session_key_bytes)
            if dec.ok and any(s in self.msgseqs for s, t, p in dec.msgs):
                self.seen += 1
                if self.seen == self.k:
                    self.dropped += 1
                    self.run.c.inc("targeted_data_drops")
                    return "drop"
        elif self.ack_drops and self.seen:
            self.ack_drops -= 1
            self.run.c.inc("targeted_ack_drops")
            return "drop"
        return None


def change_mtu(run, c, r):
    """the documented runtime use of Packet.setMTU(): the MTU is changed (lowered because the network drops packets, or
    raised again) while connections are open.  Done at quiescence; afterwards both sides send sizes around the old and the
    new limits.  Every monitor reads the limits live, so datagram bound, shape, delivery and callbacks are judged against
    the MTU in force when a datagram is built."""
    w = run.world
    P = run.C.Packet
    ends = [c.udp.conn, run.sconn(c)]
    if not run.open(c) or any(e is None or e.outgoing_messages or e.pending_retry or e.received_fragments for e in ends):
        return False
    old_mtu, old_maxp, old_frag = P.MTU, P.MAX_PAYLOAD_SIZE, P.MAX_FRAGMENT_SIZE
    # (1085..1105: around the MTU at which the fragment size formula switches from "datagram capacity - 6" to 1024)
    new_mtu = r.choice([m for m in (512, 576, 800, 1000, 1200, 1400, 1500) + tuple(range(1085, 1106)) if m != old_mtu])
    P.setMTU(new_mtu)
    run.mtu = new_mtu
    run.c.inc("mtu_changes_on_open_connections")
    run.c.inc("mtu_raised" if new_mtu > old_mtu else "mtu_lowered")
    maxp, frag = P.MAX_PAYLOAD_SIZE, P.MAX_FRAGMENT_SIZE
    lo, hi = sorted((old_maxp, maxp))
    sizes = [maxp, maxp - 1, maxp + 1, min(old_maxp, P.MAX_FRAGMENT_SIZE * P.MAX_FRAGMENTS), (lo + hi) // 2, lo + 1, hi - 1, 2 * frag, 2 * frag + maxp - 7, 3 * old_frag + 5, 5000, 0, 1]
    r.shuffle(sizes)
    for size in sizes[:r.randint(5, 9)]:
        for side in ("client", "server"):
            ep = c if side == "client" else run.sconn(c)
            if ep is not None:
                run.app.send(ep, side, max(0, size), -1, api=r.choice(["send", "send_guaranteed"]), with_cb=True)
        w.step(r.randint(1, 5))
    for side in ("client", "server"):
        ep = c if side == "client" else run.sconn(c)
        for _k in range(30):
            run.app.send(ep, side, r.choice([11, 12, 40]), 0, with_cb=False)
    w.step(10)
    return True


def age_session(run, c, r):
    """time-lapse of a long-lived session: once every fragmented message is resolved on both sides, the senders' fragment
    counters are set back to their initial value - the receiver sees the ids it saw 65535 fragmented messages ago, exactly
    as after a full wrap of the 16-bit fragment id - and new fragmented guaranteed messages are sent"""
    w = run.world
    ends = [c.udp.conn, run.sconn(c)]
    P = run.C.Packet
    # (pending_fragments is never pruned by the library - sender contexts are overwritten on id reuse - so it is not a
    # sign of unfinished work)
    if not run.open(c) or any(e is None or e.outgoing_messages or e.pending_retry for e in ends):
        return False
    if any(e.received_fragments for e in ends):
        # stale reassembly contexts (late duplicates) are purged by age whenever a later fragment arrives; in a real
        # session the 65534 fragmented messages in between do that - here one fragmented message with a fresh id, later
        w.step(int(5.0 / w.dt))
        for side in ("client", "server"):
            run.app.send(c if side == "client" else run.sconn(c), side, P.MAX_PAYLOAD_SIZE + 9, -1, with_cb=True)
        w.step(40)
        if not run.open(c) or any(e.received_fragments or e.outgoing_messages or e.pending_retry for e in ends):
            run.c.inc("aged_sessions_skipped_not_quiescent")
            return True          # (messages were sent: the caller settles again)
    for e in ends:
        e.seq_fragment = run.C.SeqNum(getattr(e, "_verif_frag0", 0))      # the value this session started from
    for _ in range(r.randint(2, 4)):
        for side in ("client", "server"):
            ep = c if side == "client" else run.sconn(c)
            run.app.send(ep, side, r.choice([P.MAX_PAYLOAD_SIZE + 1, 2 * P.MAX_PAYLOAD_SIZE + 7, 3000]), -1, with_cb=True)
        w.step(r.randint(1, 6))
    run.c.inc("aged_sessions_fragment_ids_reused")
    return True


def run_faults(cfg, out, props=None, tag="C05", profiles_pool=None, extra=None):
    props = props or PROPS
    total = 0
    for case in range(cfg["n"]):
        key = [cfg["seed"], cfg["shard"], case]
        if cfg.get("only_case") and cfg["only_case"] != key:
            continue
        r = rng(tag, *key)
        mtu = r.choice(MTUS_QUICK) if r.random() < 0.5 else 1500
        dt = r.choice([1 / 60, 1 / 60, 1 / 30, 1 / 120])
        # configurations: defaults mostly; sometimes other keep-alive (= resend) intervals and message timeouts,
        # including a keep-alive interval LONGER than the message timeout
        conf = r.choice([None, None, (0.5, 0.3), (2.0, 1.0), (0.1, 0.05), (0.25, 2.0), (1.0, 0.5), (0.1, 3.0)])

        def setup(ctxt, conf=conf):
            ctxt.setConnectionTimeout(30.0)
            if conf:
                ctxt.setKeepAliveInterval(conf[0])
                ctxt.setMessageTimeout(conf[1])
        with T.Run(r, mtu=mtu, dt=dt, jitter=r.choice([0.0, 0.2]), ctxt_setup=setup) as run:
            w = run.world
            w.net.heal(0.004)
            # an operator debugging with the library's TRACE log level switched on (the payloads here are raw bytes,
            # not Serializable encodings): what the library logs must not change what it delivers
            import logging
            trace_log = (case + cfg["shard"]) % 5 == 2
            logging.getLogger("mpgameserver").setLevel(9 if trace_log else logging.WARNING)
            if trace_log:
                run.c.inc("worlds_with_trace_logging")
            c = w.add_client()
            # a long-lived session: message and fragment counters close to their 16-bit wrap
            wrap = r.choice([None, None, "client", "server", "both"])
            pre = None
            if wrap:
                # pre-positioned at construction, i.e. before the first message of the session (moving a counter of a live
                # session would itself look like a replay to the peer)
                run.c.inc("worlds_with_counters_near_wrap")
                CN = run.C
                restore = []
                for side_, cls in (("server", CN.ServerClientConnection), ("client", CN.ClientServerConnection)):
                    if wrap not in (side_, "both"):
                        continue
                    orig_init = cls.__init__

                    def init(conn, *a, _o=orig_init, **kw):
                        _o(conn, *a, **kw)
                        conn.seq_message = CN.SeqNum(65535 - r.randint(0, 40))
                        conn.seq_fragment = CN.SeqNum(65535 - r.randint(0, 3))
                        conn._verif_frag0 = int(conn.seq_fragment)
                    cls.__init__ = init
                    restore.append((cls, orig_init))
                pre = lambda: [setattr(k, "__init__", o) for k, o in restore]
            # the application sends right away from INSIDE its connect callback (re-entrant use of the API)
            reentrant = []

            def on_connected(cl):
                for size in (r.choice([11, 40, 300]), r.choice([P0.MAX_PAYLOAD_SIZE + 50, 64])):
                    reentrant.append(run.app.send(cl, "client", size, -1, api=r.choice(["send", "send_guaranteed"]), with_cb=True, assume_open=True))
                run.c.inc("sends_from_connect_callback", 2)
            P0 = run.C.Packet
            c.on_connected.append(on_connected)
            # ... and it already sends while the handshake is still running (the library drops such a message; whatever it does
            # with it, the message is never delivered more than once - also not in a later session of this client)
            c.on_connecting.append(lambda cl: (run.app.send(cl, "client", r.choice([20, 300]), r.choice([0, -1]), with_cb=False), run.c.inc("sends_while_connecting")))
            if conf:
                c.udp.setKeepAliveInterval(conf[0])
                c.udp.setMessageTimeout(conf[1])
                run.c.inc("worlds_with_non_default_intervals")
                if conf[0] > conf[1]:
                    run.c.inc("worlds_keep_alive_longer_than_message_timeout")
            c = w.connect_client(c)
            if pre:
                pre()
            if r.random() < 0.5:
                # the server application's handle_message raises now and then (after it has taken the message)
                raise_r = rng("raise", *key)

                def raiser(client, seqnum, msg):
                    if raise_r.random() < 0.12:
                        run.c.inc("handler_raised_in_message")
                        raise RuntimeError("seeded handler failure")
                w.handler.on.setdefault("message", []).append(raiser)
                run.c.inc("worlds_with_raising_handler")
            c.updates_per_step = r.choice([1, 2, 2])
            if r.random() < 0.35:
                c.sock.fail_rate = 0.01               # now and then the client's sendto() fails with ENOBUFS
                run.c.inc("worlds_with_failing_sendto")
            if r.random() < 0.5:
                run.app.raising_callbacks = True      # every fifth send callback raises after recording its result
                run.c.inc("worlds_with_raising_callbacks")
            # in a third of the worlds two more clients share the server (and the storm) with the main one
            others = []
            if r.random() < 0.33:
                for _k in range(2):
                    o = w.connect_client()
                    o.updates_per_step = c.updates_per_step
                    others.append(o)
                run.c.inc("worlds_with_three_clients")
            run.report.context = {"case_key": key, "mtu": mtu, "client_updates_per_tick": c.updates_per_step}
            P = run.C.Packet
            # --- targeted: for a few messages, lose the k-th carrying datagram and/or the acks
            for _ in range(6):
                side = r.choice(["client", "server"])
                api = r.choice(["send_guaranteed", "send"])
                size = r.choice([r.randint(0, 64), P.MAX_PAYLOAD_SIZE + r.randint(-3, 3),
                                 r.randint(P.MAX_PAYLOAD_SIZE + 1, 5 * P.MAX_FRAGMENT_SIZE),
                                 r.choice([2, 3]) * P.MAX_FRAGMENT_SIZE + r.randint(-2, 2)])
                ep = c if side == "client" else run.sconn(c)
                if ep is None:
                    break
                rec = run.app.send(ep, side, size, -1, api=api, with_cb=True)
                if rec.get("nmsgs"):
                    seqs = [(rec["msgseq_first"] - 1 + i) % 65535 + 1 for i in range(rec["nmsgs"])]
                    k = r.randint(1, max(1, min(rec["nmsgs"], 4)))
                    f = KthLoss(run, rec["conn"], seqs, k, "c2s" if side == "client" else "s2c", ack_drops=r.choice([0, 0, 2, 6]))
                    w.net.filters.append(f)
                    # a little interleaved traffic
                    for _t in range(r.randint(10, 90)):
                        if r.random() < 0.15:
                            other = c if r.random() < 0.5 else run.sconn(c)
                            if other is not None:
                                run.app.send(other, "client" if other is c else "server", T.random_size(run.C, r, big=0.0),
                                             r.choice([0, -1]), with_cb=True)
                        w.step()
                    w.net.filters.remove(f)
                total += 1
            # --- several unretried messages of ONE tick share the same callback function object; a send made from inside
            #     a send callback (re-entrant)
            if run.open(c):
                for side in ("client", "server"):
                    ep = c if side == "client" else run.sconn(c)
                    if ep is None:
                        continue
                    k = r.randint(2, 5)
                    calls = []

                    def shared(value, _calls=calls):
                        _calls.append(value)
                    conn_ = c.udp.conn if side == "client" else ep
                    for _k in range(k):
                        run.app.send(ep, side, r.choice([11, 30, 120]), 0, with_cb=True, raw_cb=shared)
                    run.shared_batches = getattr(run, "shared_batches", []) + [(k, calls, side)]
                    run.c.inc("shared_callback_batches")
                    # re-entrant: the callback of one send queues the next (guaranteed) one
                    def chain(value, _side=side):
                        ep2 = c if _side == "client" else run.sconn(c)
                        if ep2 is not None:
                            run.app.send(ep2, _side, r.choice([20, 200]), -1, with_cb=True)
                            run.c.inc("sends_from_send_callback")
                    rec = run.app.send(ep, side, 24, -1, with_cb=True, extra_cb=chain)
                w.step(r.randint(5, 30))
            # --- a broadcast-like burst: several fragmented payloads of the SAME length are sent in one tick and the application keeps
            #     no reference to any of them (each new payload is likely to be allocated where the previous one was)
            if run.open(c):
                for side in ("client", "server"):
                    ep = c if side == "client" else run.sconn(c)
                    if ep is None:
                        continue
                    size = r.choice([P.MAX_PAYLOAD_SIZE + 1, 2 * P.MAX_FRAGMENT_SIZE + 11, 3000, 5 * P.MAX_FRAGMENT_SIZE])
                    for _k in range(r.randint(3, 6)):
                        run.app.send(ep, side, size, r.choice([-1, -1, 0]), with_cb=False, keep_payload=False)
                    run.c.inc("same_length_bursts_without_references")
                w.step(r.randint(20, 60))
            # --- the callback of the FIRST message of a datagram raises: the messages packed behind it still get their results -
            #     once over a clean link (ack path), once into an outage longer than the message timeout (timeout path: the
            #     guaranteed ones behind it must still be re-sent)
            if run.open(c):
                for path in ("ack", "timeout"):
                    for side in ("client", "server"):
                        ep = c if side == "client" else run.sconn(c)
                        if ep is None:
                            continue
                        def boom(value):
                            run.c.inc("first_callback_of_datagram_raised")
                            raise RuntimeError("seeded failure inside the first callback of a datagram")
                        run.app.send(ep, side, 20, r.choice([0, 1]), with_cb=True, extra_cb=boom)
                        for _k in range(3):
                            run.app.send(ep, side, r.choice([11, 25, 60]), r.choice([0, -1, -1]), api=r.choice(["send", "send_guaranteed"]), with_cb=True)
                    if path == "timeout":
                        normal = dict(w.net.policy)
                        w.net.set(c2s=L.Policy(outage=True), s2c=L.Policy(outage=True))
                        w.step(int((max(c.udp.conn.outgoing_timeout, run.sconn(c).outgoing_timeout if run.sconn(c) else 1.0) + 0.3) / w.dt))
                        w.net.set(c2s=normal["c2s"], s2c=normal["s2c"])
                    w.step(r.randint(10, 30))
            # --- a BEST_EFFORT fragmented message over a slow link (round trip > resend interval, several copies of a
            #     fragment in flight) while the first copies of ONE fragment are lost: success may only be reported
            #     once the peer holds the whole message
            if run.open(c) and not conf:
                side = r.choice(["client", "server"])
                ep = c if side == "client" else run.sconn(c)
                w.net.set(c2s=L.Policy(delay=(0.12, 0.2)), s2c=L.Policy(delay=(0.12, 0.2)))
                rec = run.app.send(ep, side, P.MAX_FRAGMENT_SIZE * r.randint(2, 4) + r.randint(1, 300), 1, with_cb=True)
                if rec.get("nmsgs"):
                    victim = (rec["msgseq_first"] - 1 + r.randrange(rec["nmsgs"])) % 65535 + 1

                    class FirstCopies(KthLoss):
                        def __call__(self, direction, addr, datagram, info):
                            if direction == self.direction and self.seen < self.k:
                                dec = L.decode_datagram(datagram, self.conn.session_key_bytes)
                                if dec.ok and any(sq in self.msgseqs for sq, t, p in dec.msgs):
                                    self.seen += 1
                                    return "drop"
                            return None
                    f = FirstCopies(run, rec["conn"], [victim], r.randint(2, 5), "c2s" if side == "client" else "s2c")
                    w.net.filters.append(f)
                    w.step(int(2.5 / w.dt))
                    w.net.filters.remove(f)
                    run.c.inc("best_effort_fragment_scenarios")
                w.net.heal(0.004)
                w.step(20)
            # --- a guaranteed message whose first carrying datagrams are lost while a burst of > 256 newer messages
            #     from the same sender gets through before the retransmission (the 256-message window moves past it)
            for _ in range(2):
                side = r.choice(["client", "server"])
                ep = c if side == "client" else run.sconn(c)
                if ep is None or not run.open(c):
                    break
                size = r.choice([r.randint(11, 200), P.MAX_PAYLOAD_SIZE + r.randint(1, 900)])
                rec = run.app.send(ep, side, size, -1, api=r.choice(["send_guaranteed", "send"]), with_cb=True)
                if rec.get("nmsgs"):
                    seqs = [(rec["msgseq_first"] - 1 + i) % 65535 + 1 for i in range(rec["nmsgs"])]

                    class FirstN(KthLoss):
                        def __call__(self, direction, addr, datagram, info):
                            if direction == self.direction:
                                dec = L.decode_datagram(datagram, self.conn.session_key_bytes)
                                if dec.ok and any(s in self.msgseqs for s, t, p in dec.msgs) and self.seen < self.k:
                                    self.seen += 1
                                    self.run.c.inc("targeted_data_drops")
                                    return "drop"
                            return None
                    f = FirstN(run, rec["conn"], seqs, r.randint(2, 6), "c2s" if side == "client" else "s2c")
                    w.net.filters.append(f)
                    for _t in range(r.randint(8, 14)):
                        for _k in range(40):
                            run.app.send(ep, side, r.choice([11, 12, 13]), 0, with_cb=False)
                        w.step()
                    run.c.inc("burst_after_loss_scenarios")
                    w.step(r.randint(30, 90))
                    w.net.filters.remove(f)
            # --- a gap of more than 32 datagrams: the sender streams on every tick; a retried message is received, its ack is
            #     lost (reverse path cut), then the forward path is cut for 34-60 datagrams; the retransmission arrives after
            #     the gap and must still be recognised as a duplicate (it is inside the 256-message window)
            if run.open(c):
                side = r.choice(["client", "server"])
                ep = c if side == "client" else run.sconn(c)
                fwd, rev = ("c2s", "s2c") if side == "client" else ("s2c", "c2s")
                clean = L.Policy(delay=(0.004, 0.004))
                w.net.set(**{fwd: clean, rev: L.Policy(outage=True)})
                for _k in range(r.randint(2, 4)):
                    run.app.send(ep, side, r.choice([12, 40, P.MAX_PAYLOAD_SIZE + 30]), r.choice([1, -1]), with_cb=True)
                for _t in range(4):
                    run.app.send(ep, side, 11, 0, with_cb=False)
                    w.step()
                w.net.set(**{fwd: L.Policy(outage=True)})
                gap_ticks = r.randint(36, 62) * (2 if (side == "client" and c.updates_per_step == 1 and w.dt < 1 / 45) else 1)
                sent0 = run.c.get("wire_" + fwd, 0)
                for _t in range(gap_ticks):
                    run.app.send(ep, side, 11, 0, with_cb=False)
                    w.step()
                run.c.inc("gap_scenarios")
                run.c.inc("gap_scenarios_over_32_datagrams" if run.c.get("wire_" + fwd, 0) - sent0 > 33 else "gap_scenarios_short")
                w.net.set(**{fwd: clean})
                for _t in range(int(1.3 / w.dt)):
                    if _t % 3 == 0:
                        run.app.send(ep, side, 11, 0, with_cb=False)
                    if _t == int(0.4 / w.dt):
                        w.net.set(**{rev: clean})
                    w.step()
                w.net.heal(0.004)
                w.step(10)
            # --- the ack path reorders heavily while one side streams: an OLDER ack-carrying datagram that arrives after a
            #     newer one still names datagrams the newer one's 32-bit map has slid past; they are acked, not timed out
            if run.open(c) and not conf:
                side = r.choice(["client", "server"])
                ep = c if side == "client" else run.sconn(c)
                fwd, rev = ("c2s", "s2c") if side == "client" else ("s2c", "c2s")
                w.net.set(**{fwd: L.Policy(delay=(0.004, 0.004)), rev: L.Policy(delay=(0.0, 0.0), reorder=0.5, reorder_extra=(0.3, 0.8), loss=0.3)})
                for _t in range(int(2.5 / w.dt)):
                    run.app.send(ep, side, r.choice([11, 20]), 0, with_cb=True)
                    w.step()
                run.c.inc("reordered_ack_path_streams")
                w.net.heal(0.004)
                w.step(int(1.2 / w.dt))
            # --- a message of several hundred fragments from a sender that calls update() many times per frame: the acks of the
            #     first 0.7 s are lost (those fragments are sent again a second later, by then more than 256 messages behind the
            #     receiver's newest) and one late fragment is lost once, so the message is still incomplete when the copies arrive
            if run.open(c) and not conf and r.random() < 0.25:
                ups = c.updates_per_step
                c.updates_per_step = 8
                nfrag = r.randint(280, 340)
                rec = run.app.send(c, "client", nfrag * P.MAX_FRAGMENT_SIZE + 77, -1, api=r.choice(["send", "send_guaranteed"]), with_cb=True)
                if rec.get("nmsgs"):
                    late = (rec["msgseq_first"] - 1 + rec["nmsgs"] - r.randint(3, 20)) % 65535 + 1
                    f = KthLoss(run, rec["conn"], [late], 1, "c2s", ack_drops=0)
                    w.net.filters.append(f)
                    w.net.set(c2s=L.Policy(delay=(0.004, 0.004)), s2c=L.Policy(outage=True))
                    w.step(int(0.7 / w.dt))
                    w.net.set(s2c=L.Policy(delay=(0.004, 0.004)))
                    w.run_until(lambda ww: bool(rec["cb"]), int(8.0 / w.dt))
                    w.net.filters.remove(f)
                    run.c.inc("huge_message_scenarios")
                c.updates_per_step = ups
                w.step(30)
            # --- a stalled link that flushes: for 2.6 s nothing gets through in one direction (a wifi hand-over, a full modem buffer), then
            #     everything held arrives at once and in order - well over a hundred authentic datagrams within one tick - while a
            #     guaranteed message of some 170 fragments is on its way
            if run.open(c) and (not conf or conf[1] >= 1.0) and (case + cfg["shard"]) % 2 == 1:
                side = r.choice(["client", "client", "server"])
                ep = c if side == "client" else run.sconn(c)
                fwd = "c2s" if side == "client" else "s2c"
                if ep is not None:
                    w.net.heal(0.004)
                    t_rel = w.clock.now + 2.6
                    held_n = [0]

                    def stall(direction, addr, d, info, _fwd=fwd, _t=t_rel, _a=c.addr):
                        if direction == _fwd and addr == _a and w.clock.now < _t:
                            held_n[0] += 1
                            return [max(0.004, _t - w.clock.now) + held_n[0] * 1e-6]
                        return None
                    w.net.filters.append(stall)
                    rec = run.app.send(ep, side, 170 * P.MAX_FRAGMENT_SIZE + 33, -1, api=r.choice(["send", "send_guaranteed"]), with_cb=True)
                    w.step(int(2.7 / w.dt))
                    w.net.filters.remove(stall)
                    w.run_until(lambda ww: bool(rec["cb"]), int(12.0 / w.dt))
                    run.c.inc("stall_and_flush_phases")
                    run.c.inc("stall_and_flush_datagrams_released_at_once", held_n[0])
                    w.step(30)
            # --- the same content again and again: an application that sends identical payloads ("ready", b"", a heartbeat) as separate
            #     guaranteed messages over a link whose round trip exceeds the resend interval; every send() is a message of its own
            if run.open(c):
                w.net.set(c2s=L.Policy(delay=(0.15, 0.16)), s2c=L.Policy(delay=(0.15, 0.16)))
                same = r.choice([b"same!", b"", b"ok", b"heartbeat"])
                for _k in range(10):
                    for side in ("client", "server"):
                        ep = c if side == "client" else run.sconn(c)
                        if ep is not None:
                            run.app.send(ep, side, 0, -1, api=r.choice(["send", "send_guaranteed"]), with_cb=True, payload=same)
                    w.step(3)
                run.c.inc("identical_payload_series")
                w.step(int(0.8 / w.dt))
                w.net.heal(0.004)
                w.step(10)
            # --- a heartbeat per entity: a few hundred EMPTY messages handed to send() within one frame (5 bytes each on the wire: more
            #     of them fit a datagram by size than its one-byte count field can name)
            if run.open(c) and (case + cfg["shard"]) % 3 == 1:
                side = r.choice(["client", "server"])
                ep = c if side == "client" else run.sconn(c)
                if ep is not None:
                    for _k in range(r.choice([257, 257, 256, 300, 520])):
                        run.app.send(ep, side, 0, -1, api="send", with_cb=False, payload=b"")
                    run.c.inc("empty_message_bursts")
                    w.step(40)
            # --- a lazy reader: the client application calls update() every frame but collects its messages only after a long while;
            #     meanwhile the server sends it well over a thousand messages (some guaranteed, some with callbacks): every one of
            #     them is in the inbox when the application finally looks
            if run.open(c) and r.random() < 0.3:
                c.collect_every = 10 ** 9
                sc_ = run.sconn(c)
                w.net.set(c2s=L.Policy(delay=(0.004, 0.004)), s2c=L.Policy(delay=(0.004, 0.004)))
                for _t in range(60):
                    for _k in range(22):
                        run.app.send(sc_, "server", r.choice([11, 12, 30]), r.choice([0, 0, 0, -1]), with_cb=(_k % 5 == 0))
                    w.step()
                w.step(40)
                run.c.inc("lazy_reader_phases")
                run.c.inc("lazy_reader_uncollected_max", len(c.udp.conn.incoming_messages) if c.udp.conn is not None else 0)
                c.collect_every = 1
                w.step(10)
            # --- a long haul: with a message timeout of 2-3 s configured on both sides, a sustained round trip of 1.2-1.6 s is a
            #     working link (every ack arrives in time): many seconds of steady traffic both ways, measured latency above 0.5 s
            if run.open(c) and conf and conf[1] >= 2.0:
                one_way = r.uniform(0.6, min(0.8, conf[1] / 2 - 0.15))
                w.net.set(c2s=L.Policy(delay=(one_way, one_way + 0.02)), s2c=L.Policy(delay=(one_way, one_way + 0.02)))
                for _t in range(int(9.0 / w.dt)):
                    if _t % 6 == 0:
                        for side in ("client", "server"):
                            ep = c if side == "client" else run.sconn(c)
                            if ep is not None:
                                run.app.send(ep, side, r.choice([11, 40, 200]), r.choice([0, 0, -1]), with_cb=True)
                    w.step()
                run.c.inc("long_haul_phases")
                run.c.inc("long_haul_latency_above_half_a_second" if c.udp.conn.latency > 0.5 else "long_haul_latency_low")
                w.net.heal(0.004)
                w.step(int((conf[1] + 0.5) / w.dt))
            # --- storm
            pool = profiles_pool or ["lossy", "dup", "reorder", "slow", "acks-lost", "hostile", "very-slow"]
            profiles = [r.choice(pool) for _ in range(r.randint(1, 4))]
            stop_extra = extra(run, r, c) if extra else None
            T.storm(run, r, [c] + others, ticks=r.randint(120, 500), rate=r.choice([0.05, 0.15, 0.4]), profile_seq=profiles,
                    retry_modes=(-1, -1, 0, 1), fills=("random", "zeros", "text"))
            if stop_extra:
                stop_extra()                 # the adversary rests while the network heals
            w.net.heal(0.004)
            healed = run.settle([c] + others, min_ticks=90)
            if healed is not None and r.random() < 0.6 and change_mtu(run, c, r):
                healed = run.settle([c] + others, min_ticks=60)
            if healed is not None and age_session(run, c, r):
                healed = run.settle([c] + others, min_ticks=60)
            T.final_checks(run, [c] + others, healed)
            # one callback function shared by k unretried sends of one tick must be invoked k times
            if healed is not None and run.open(c):
                for k, calls, side in getattr(run, "shared_batches", []):
                    if len(calls) != k:
                        run.report("C07", "shared-callback-invocations", "%d unretried %s sends of one tick shared one callback function: it was invoked %d times (%r)" % (
                            k, side, len(calls), calls))
                    else:
                        run.c.inc("shared_callback_batches_exact")
            # --- epilogue: the client application calls disconnect() while retransmissions of messages it already has are on
            #     their way (their acks were lost); it keeps calling update()/getMessages() - nothing arrives a second time
            if run.open(c):
                sc_ = run.sconn(c)
                w.net.heal(0.004)
                cut_main = lambda direction, addr, d, info: "drop" if (direction == "c2s" and addr == c.addr) else None
                w.net.filters.append(cut_main)        # (only the main client's uplink is cut: bystanders stay connected)
                for _k in range(3):
                    run.app.send(sc_, "server", r.choice([12, 60, P.MAX_PAYLOAD_SIZE + 20]), r.choice([1, -1]), with_cb=False)
                w.step(4)
                c.udp.disconnect()
                run.c.inc("client_disconnects_with_retransmissions_in_flight")
                w.step(int(1.6 / w.dt))
                # --- a second session: the application calls connect() again on the same UdpClient, from the same address, once
                #     the server has let go of the old connection; a few messages of every kind go both ways
                w.net.heal(0.004)
                ct0 = w.ctxt.connection_timeout
                w.ctxt.connection_timeout = 1.0          # (the client's DISCONNECT was lost in the outage: the server times it out)
                w.run_until(lambda ww: c.addr not in ww.ctxt.connections and c.addr not in ww.ctxt.temp_connections, int(4.0 / w.dt))
                w.ctxt.connection_timeout = ct0
                if c.addr not in w.ctxt.connections and c.addr not in w.ctxt.temp_connections:
                    c.on_connected[:] = []
                    c.connect()
                    if w.run_until(lambda ww: run.open(c), 300):
                        run.c.inc("second_sessions")
                        recs = []
                        for _k in range(3):
                            for side in ("client", "server"):
                                ep = c if side == "client" else run.sconn(c)
                                recs.append(run.app.send(ep, side, r.choice([0, 13, 300, P.MAX_PAYLOAD_SIZE, P.MAX_PAYLOAD_SIZE + 40, 3 * P.MAX_FRAGMENT_SIZE]), -1,
                                                         api=r.choice(["send", "send_guaranteed"]), with_cb=True))
                            w.step(3)
                        w.run_until(lambda ww: all(rc["cb"] for rc in recs), int(6.0 / w.dt))
                        w.step(5)
                        for rc in recs:
                            got = rc.get("delivered", 0) if rc.get("small") else len(run.app.deliveries.get(rc["id"], []))
                            if got != 1 and run.open(c):
                                run.report("C05" if got == 0 else "C04", "second-session-guaranteed-undelivered" if got == 0 else "delivered-twice",
                                           "second session on the same UdpClient and address: a guaranteed %d-byte message from the %s was delivered %d times over a clean link" % (
                                               rc["len"], rc["side"], got))
                            elif [v for t, v, ph in rc["cb"]] != [True] and run.open(c) and not conf:
                                # (with a keep-alive interval above the message timeout an idle peer acks too late by configuration)
                                run.report("C07", "second-session-callback", "second session: callback history %r of a delivered guaranteed message" % ([v for t, v, ph in rc["cb"]],))
                            else:
                                run.c.inc("second_session_messages_ok")
            total += run.c.get("app_sends", 0)
            out["counters"].inc("worlds")
            out["counters"].inc("void_runs" if run.void else "runs_connection_open")
            out["distinct"].add(h64("faults", key))
            # every application send of a seeded fault world is a distinct case (unique payload id, own network fate)
            out["distinct_n"] = out.get("distinct_n", 0) + run.c.get("app_sends", 0)
            if len(out["samples"]) < 2:
                out["samples"].append({"scenario": "faults", "case": key, "mtu": mtu, "dt": dt, "profiles": profiles,
                                       "sends": run.c.get("app_sends"), "net": dict(w.net.stats), "void": run.void})
            collect(run, out, props, key)
    return total


def run_realnet(cfg, out):
    """the real ThreadedServer (Twisted reactor, real UDP sockets on loopback) and a real UdpClient, real clocks: guaranteed
    payloads of every size around the single-datagram capacity, from both APIs, both ways.  Real time decides nothing by itself:
    a size counts as undelivered only if the link demonstrably works (other sizes sent at the same time were delivered), the
    connection is still up and a generous wait is over."""
    import socket
    import threading
    import time
    import logging
    from mpgameserver import ServerContext, EventHandler, UdpClient
    from mpgameserver.connection import Packet
    from mpgameserver.twisted import ThreadedServer
    logging.getLogger("mpgameserver").setLevel(100)
    Packet.setMTU(1500)
    maxp = Packet.MAX_PAYLOAD_SIZE
    sizes = [11, 400, maxp + 1, 2 * maxp + 5] + list(range(maxp - 24, maxp + 1))
    got_server, got_client, state = {}, {}, {"client": None}

    class H(EventHandler):
        def connect(self, client):
            state["client"] = client
            for n_, size in enumerate(sizes):
                p = L.make_payload(0, n_ + 1, size)
                (client.send_guaranteed(p) if n_ % 2 else client.send(p, retry=-1))

        def handle_message(self, client, seqnum, msg=b""):
            got_server[L.payload_id(bytes(msg))] = len(msg)
    ctxt = ServerContext(H())
    ctxt.setConnectionTimeout(20.0)
    s_ = socket.socket(socket.AF_INET, socket.SOCK_DGRAM)
    s_.bind(("127.0.0.1", 0))
    port = s_.getsockname()[1]
    s_.close()
    server = ThreadedServer(ctxt, ("127.0.0.1", port))
    server.start()
    time.sleep(0.4)
    cl = UdpClient(ctxt.server_root_key.getPublicKey())
    cl.connect(("127.0.0.1", port))
    t_end = time.time() + 20.0
    while time.time() < t_end and not cl.connected():
        try:
            cl.update()
        except Exception:
            pass
        if cl.conn is not None and getattr(cl.conn.status, "value", 0) == 4:
            cl.forceDisconnect()
            cl.connect(("127.0.0.1", port))
        time.sleep(1 / 200)
    if not cl.connected():
        server.stop()
        raise L.Inconclusive("realnet: the handshake over loopback did not complete in 20 s")
    for n_, size in enumerate(sizes):
        p = L.make_payload(1, n_ + 1, size)
        (cl.send_guaranteed(p) if n_ % 2 else cl.send(p, retry=-1))
    t_end = time.time() + 12.0
    while time.time() < t_end and (len(got_server) < len(sizes) or len(got_client) < len(sizes)):
        try:
            cl.update()
        except Exception:
            out["counters"].inc("realnet_client_update_raised")
        for seqnum, msg in cl.getMessages():
            got_client[L.payload_id(bytes(msg))] = len(msg)
        time.sleep(1 / 250)
    alive = cl.connected() and state["client"] is not None and getattr(state["client"].status, "value", 0) == 2
    out["counters"].inc("realnet_guaranteed_sends", 2 * len(sizes))
    out["counters"].inc("realnet_guaranteed_delivered", len(got_server) + len(got_client))
    for side, got, sender in (("server", got_server, 1), ("client", got_client, 0)):
        missing = [size for n_, size in enumerate(sizes) if (sender, n_ + 1) not in got]
        if missing and alive and len(got) >= 3:
            out["violations"].append({"mechanism": "undelivered-over-real-sockets", "case": {"sizes": missing[:10]}, "case_key": ["realnet"],
                                      "msg": "over real loopback sockets (Twisted reactor) %d of %d guaranteed payloads never reached the %s application within 12 s although "
                                             "the connection is up and the other sizes arrived; undelivered sizes %r (single-datagram capacity %d)" % (
                                                 len(missing), len(sizes), side, missing[:12], maxp)})
        elif missing:
            out["counters"].inc("realnet_inconclusive_link_down")
    out["distinct"].add(h64("realnet", len(sizes)))
    out["samples"].append({"scenario": "realnet", "sizes": sizes[:8], "delivered_to_server": len(got_server), "delivered_to_client": len(got_client)})
    try:
        cl.disconnect()
        cl.waitForDisconnect()
    except Exception:
        pass
    server.stop()
    return 2 * len(sizes)


def run_shard(cfg):
    out = {"violations": [], "counters": Counter(), "samples": [], "distinct": set()}
    if cfg["kind"] == "realnet":
        n = run_realnet(cfg, out)
        return {"evaluations": n, "distinct": sorted(out["distinct"]), "distinct_count": n, "counters": dict(out["counters"]),
                "violations": out["violations"], "samples": out["samples"]}
    if cfg["kind"] == "sizes":
        n = run_sizes(cfg, out)
    elif cfg["kind"] == "limit":
        n = run_limit(cfg, out)
    else:
        n = run_faults(cfg, out)
    return {"evaluations": n, "distinct": sorted(out["distinct"]), "distinct_count": out.get("distinct_n", 0), "counters": dict(out["counters"]),
            "violations": out["violations"][:60], "samples": out["samples"]}


def finish(tier, seed, results):
    m = merge(results)
    inconclusive = []
    need(m["counters"], ["guaranteed_sends", "guaranteed_delivered", "sizes_tried", "targeted_data_drops", "targeted_ack_drops",
                         "runs_connection_open", "delivered_to_server", "delivered_to_client", "net_lost_c2s", "net_lost_s2c",
                         "net_duplicated_c2s", "net_reordered_s2c", "burst_after_loss_scenarios", "best_effort_fragment_scenarios",
                         "worlds_keep_alive_longer_than_message_timeout", "sends_from_connect_callback", "sends_from_send_callback",
                         "worlds_with_counters_near_wrap", "shared_callback_batches", "aged_sessions_fragment_ids_reused",
                         "gap_scenarios_over_32_datagrams", "reordered_ack_path_streams", "handler_raised_in_message", "client_disconnects_with_retransmissions_in_flight",
                         "second_session_messages_ok", "worlds_with_three_clients", "mtu_raised", "mtu_lowered", "callbacks_raised", "first_callback_of_datagram_raised", "sends_while_connecting", "client_sendto_failed", "long_haul_latency_above_half_a_second", "same_length_bursts_without_references", "huge_message_scenarios", "realnet_guaranteed_delivered", "lazy_reader_phases", "identical_payload_series", "sends_of_exactly_max_fragments"], inconclusive)
    cov = {
        "evaluations": m["evaluations"],
        "distinct_nontrivial": m["distinct_nontrivial"],
        "rule": "sizes: one evaluation = one guaranteed send of one boundary length (0-3, MAXP+-12, k*FRAG+-12, last fragment at the "
                "datagram capacity +-12, a few random) from one of the four API entry points %r at one MTU over a clean network; "
                "faults: one evaluation = one application send inside a seeded world with targeted loss of the k-th carrying "
                "datagram / of the acks, then random network profiles, then a healed network until quiescence or the %.0f s horizon. "
                "distinct = distinct (mtu, length, side, api) plus every application send made inside a fault world "
                "(unique payload id, own network fate)" % (APIS, T.HORIZON),
        "fault_classes": ["k-th carrying datagram lost", "acks lost", "lossy", "dup", "reorder", "slow (rtt>resend)", "very-slow (rtt>timeout)",
                          "acks-lost (one-way)", "hostile mix"],
        "samples": m["samples"],
        "counters": m["counters"],
    }
    return {"coverage": cov, "inconclusive": inconclusive,
            "assumptions": ["'eventually' is decided as: delivered within %.0f virtual seconds after the network heals, or at sender quiescence" % T.HORIZON,
                            "a connection that closed during the fault phase voids the obligation (counted as void, not as held)",
                            "virtual time: the module-level `time` of connection/server/client is replaced by one non-decreasing clock"]}
