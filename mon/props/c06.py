"""C06 - fragmentation and reassembly preserve bytes; nothing is fabricated.

Checker: every delivered payload is byte-identical to a sent one (unique ids inside
the payloads; id-less short payloads are matched by sender and message sequence
number).  From the wire tap (monitor's own decoder): a payload of length <= MAXP
travels as exactly one APP message and never as APP_FRAGMENT; a longer one only as
fragments whose concatenation in index order is the payload.  send() above the
fragmentation limit raises and queues nothing.  Reassembly contexts that match no
message in flight are reported.
"""
import itertools
import struct

from mon.core.merge import merge, need
from mon.core.util import Counter, h64, rng
from mon.engines import lockstep as L
from mon.engines import traffic as T
from mon.engines import monitors as M
from mon.props import c05

ID = "C06"
LEVEL = "exploration"
SHARD_TIMEOUT = {"quick": 600, "thorough": 3000}
PROPS = ("C06",)
MTUS = [512, 576, 1000, 1200, 1400, 1500]


def plan(tier, seed):
    shards = []
    if tier == "quick":
        for i, mtu in enumerate(MTUS):
            shards.append({"kind": "contents", "tier": tier, "seed": seed, "mtu": mtu, "shard": i, "subprocess": True})
        for i in range(3):
            shards.append({"kind": "perms", "tier": tier, "seed": seed, "shard": i, "nfrag": [2, 3, 4][i], "subprocess": True})
        shards.append({"kind": "limit", "tier": tier, "seed": seed, "deliver_limit": False, "subprocess": True})
        shards.append({"kind": "mtusweep", "tier": tier, "seed": seed, "subprocess": True})
        for i in range(6):
            shards.append({"kind": "faults", "tier": tier, "seed": seed, "shard": i, "n": 3, "subprocess": True})
    else:
        for i, mtu in enumerate(sorted(set(MTUS + list(range(512, 1501, 31))))):
            shards.append({"kind": "contents", "tier": tier, "seed": seed, "mtu": mtu, "shard": i, "subprocess": True})
        for i, nf in enumerate([2, 3, 4, 5, 5, 5]):
            shards.append({"kind": "perms", "tier": tier, "seed": seed, "shard": i, "nfrag": nf, "subprocess": True})
        shards.append({"kind": "limit", "tier": tier, "seed": seed, "deliver_limit": True, "subprocess": True})
        shards.append({"kind": "mtusweep", "tier": tier, "seed": seed, "subprocess": True})
        for i in range(24):
            shards.append({"kind": "faults", "tier": tier, "seed": seed, "shard": i, "n": 80, "subprocess": True})
    return shards


class ShapeMonitor(object):
    """wire shape of application payloads (fed by Tap 'emitted')"""

    def __init__(self, run):
        self.run = run
        self.report = run.report
        self.c = run.c
        self.frags = {}              # (id(conn), frag_id, count, first message seq) -> {index: data}
        run.tap.listeners.append(self)

    def emitted(self, e, direction, addr, datagram, dec, n):
        if not dec.ok:
            return
        P = self.run.C.Packet
        app = self.run.app
        for seq, typ, payload in dec.msgs:
            if typ == 6:
                self.c.inc("wire_app_messages")
                pid = L.payload_id(payload)
                if len(payload) > P.MAX_PAYLOAD_SIZE:
                    self.report("C06", "oversized-app-message", "an APP message of %d bytes (> MAXP %d) on the wire" % (len(payload), P.MAX_PAYLOAD_SIZE))
                if pid is not None:
                    rec = app.sends.get(pid)
                    if rec is None:
                        self.report("C06", "fabricated-on-wire", "APP message on the wire with an id nobody sent: %r" % (pid,))
                    elif M.payload_of(rec) != payload:
                        self.report("C06", "wire-payload-differs", "APP message %r on the wire differs from what was sent (%d vs %d bytes)" % (
                            pid, len(payload), rec["len"]))
            elif typ == 7:
                self.c.inc("wire_fragments")
                if len(payload) < 6:
                    self.report("C06", "fragment-without-header", "APP_FRAGMENT of %d bytes on the wire" % len(payload))
                    continue
                fid, idx, count = struct.unpack(">HHH", payload[:6])
                data = payload[6:]
                if not (1 <= idx <= count) or count < 2:
                    self.report("C06", "fragment-coordinates", "fragment header (id=%d index=%d count=%d) on the wire is not well formed" % (fid, idx, count))
                    continue
                # one fragmented message = (fragment id, count, message seq of its first fragment): the 16-bit fragment id comes
                # round again in a long session (a resend keeps its message seq, a new message has new ones)
                key = (id(e.conn), fid, count, (int(seq) - idx) % 65535)
                parts = self.frags.setdefault(key, {})
                if idx in parts and parts[idx] != data:
                    self.report("C06", "fragment-changed-on-resend", "fragment %d/%d of message id %d was resent with different bytes" % (idx, count, fid))
                parts[idx] = data
                if len(parts) == count and not parts.get("_checked"):
                    whole = b"".join(parts[i] for i in range(1, count + 1))
                    parts["_checked"] = True
                    pid = L.payload_id(whole)
                    rec = app.sends.get(pid) if pid is not None else None
                    self.c.inc("wire_fragment_sets_complete")
                    if rec is None or M.payload_of(rec) != whole:
                        self.report("C06", "fragments-do-not-concatenate", "the %d fragments of message id %d do not concatenate to a sent payload (%d bytes)" % (
                            count, fid, len(whole)))
                    elif len(whole) <= P.MAX_PAYLOAD_SIZE:
                        self.report("C06", "small-payload-fragmented", "a payload of %d bytes (<= MAXP %d) was fragmented" % (len(whole), P.MAX_PAYLOAD_SIZE))
                if len(self.frags) > 4000:
                    for k in list(self.frags)[:1000]:
                        del self.frags[k]


def context_check(run, clients):
    """reassembly contexts whose (frag id, count) match no message the peer sent"""
    app = run.app
    known = {}
    for rec in app.sends.values():
        if rec.get("frag_id") is not None:
            known[(id(rec["conn"]), rec["frag_id"])] = rec["nmsgs"]
    for cl in clients:
        for recv_conn, send_conn in ((cl.udp.conn, run.sconn(cl)), (run.sconn(cl), cl.udp.conn)):
            if recv_conn is None or send_conn is None:
                continue
            for fid, fr in recv_conn.received_fragments.items():
                run.c.inc("reassembly_contexts_checked")
                if known.get((id(send_conn), int(fid))) != fr.frag_count:
                    run.report("C06", "fabricated-reassembly-context", "reassembly context (id=%d, count=%d) matches no message in flight" % (fid, fr.frag_count))


def crafted(run, r, victim_frag_id, count):
    """content whose fragments each begin with six bytes that look like the fragment header of another message"""
    P = run.C.Packet
    n = P.MAX_FRAGMENT_SIZE * 2 + 100
    body = bytearray(L.make_payload(7, r.randrange(1 << 30), n))
    for k in range(0, 3):
        off = k * P.MAX_FRAGMENT_SIZE
        if off + 6 <= n and off >= L.ID_LEN:
            body[off:off + 6] = struct.pack(">HHH", victim_frag_id, (k % count) + 1, count)
    return bytes(body)


def run_contents(cfg, out):
    r = rng("C06", cfg["seed"], "contents", cfg["mtu"])
    n = 0
    with T.Run(r, mtu=cfg["mtu"]) as run:
        ShapeMonitor(run)
        w = run.world
        w.net.set(c2s=L.Policy(loss=0.08, dup=0.2, delay=(0.003, 0.03), reorder=0.3, reorder_extra=(0.0, 0.1)),
                  s2c=L.Policy(loss=0.08, dup=0.2, delay=(0.003, 0.03), reorder=0.3, reorder_extra=(0.0, 0.1)))
        c = w.connect_client()
        c.updates_per_step = 2
        sizes = T.sizes_for(run.C, r, cfg["tier"])
        if cfg["tier"] == "quick":
            sizes = sizes + [r.randint(0, 8000) for _ in range(6)]
        fills = ["zeros", "ff", "text", "random"]
        for i, size in enumerate(sizes):
            for retry in (0, 1, -1):
                side = ["client", "server"][(i + retry) % 2]
                ep = c if side == "client" else run.sconn(c)
                if ep is None:
                    continue
                if retry == 1 and size > run.C.Packet.MAX_PAYLOAD_SIZE and i % 5:
                    continue        # BEST_EFFORT fragments: a few only (their resends multiply under loss)
                run.app.send(ep, side, size, retry, with_cb=False, fill=fills[(i + retry) % 4])
                n += 1
                out["distinct"].add(h64("contents", cfg["mtu"], size, retry, side))
            if i % 9 == 0:
                # crafted content: looks like fragment headers of the message that is in flight right now
                conn = c.udp.conn
                victim = int(conn.seq_fragment) + 1
                run.app.send(c, "client", 0, -1, with_cb=False, payload=L.make_payload(1, 900000 + i, run.C.Packet.MAX_FRAGMENT_SIZE * 2 + 50))
                run.app.send(c, "client", 0, -1, with_cb=False, payload=crafted(run, r, victim, 3))
                run.c.inc("crafted_payloads")
                n += 2
            w.step(3 + size // run.C.Packet.MAX_FRAGMENT_SIZE)
        # broadcast-like bursts: many DIFFERENT fragmented payloads of the SAME length handed to send() within one tick by an
        # application that keeps no reference to any of them (each new payload is likely to be allocated where an earlier one
        # was); enough of them, in several rounds, that the reuse of a freed block does not depend on the allocator's mood
        P_ = run.C.Packet
        for _round in range(6):
            for side in ("client", "server"):
                ep = c if side == "client" else run.sconn(c)
                if ep is None or not run.open(c):
                    continue
                size = r.choice([P_.MAX_PAYLOAD_SIZE + 1, 2 * P_.MAX_FRAGMENT_SIZE + 11, 3000, 3 * P_.MAX_FRAGMENT_SIZE + 5])
                for _k in range(8):
                    run.app.send(ep, side, size, -1, with_cb=False, keep_payload=False)
                    n += 1
                run.c.inc("same_length_bursts_of_eight_without_references")
            w.step(12)
        w.net.heal()
        healed = run.settle([c], min_ticks=40, horizon=30.0)
        context_check(run, [c])
        T.final_checks(run, [c], healed, horizon=30.0)
        # "split and reassembled exactly for every size": a guaranteed message of any size must have arrived by now
        if run.open(c):
            for pid, rec in run.app.sends.items():
                if rec["retry"] == -1 and rec["refused"] is None and rec["status_at_send"] == 2 and not rec.get("small"):
                    if not run.app.deliveries.get(pid):
                        if rec.get("fragmented", rec["len"] > run.C.Packet.MAX_PAYLOAD_SIZE) and T.expired_signature(run, rec):
                            run.c.inc("undelivered_known_context_expiry")
                            continue
                        run.report("C06", "size-never-reassembled", "payload of %d bytes (MTU %d) was never reassembled/delivered over a healed network; %s" % (
                            rec["len"], cfg["mtu"], T.where_stuck(run, rec)), {"len": rec["len"], "mtu": cfg["mtu"]})
                    else:
                        run.c.inc("guaranteed_sizes_reassembled")
        out["counters"].inc("cases", n)
        if len(out["samples"]) < 1:
            out["samples"].append({"scenario": "contents", "mtu": cfg["mtu"], "lengths": sizes[:50], "fills": fills, "retry_modes": [0, 1, -1]})
        c05.collect(run, out, PROPS, {"kind": "contents", "mtu": cfg["mtu"]})
    return n


def run_perms(cfg, out):
    """every arrival order of the fragments of one message (with a duplicate of one fragment), other traffic in between"""
    r = rng("C06", cfg["seed"], "perms", cfg["shard"])
    nfrag = cfg["nfrag"]
    n = 0
    with T.Run(r, mtu=1500) as run:
        ShapeMonitor(run)
        w = run.world
        w.net.heal(0.004)
        c = w.connect_client()
        c.updates_per_step = 2
        P = run.C.Packet
        perms = list(itertools.permutations(range(nfrag)))
        if len(perms) > 120:
            perms = r.sample(perms, 120)
        for pi, perm in enumerate(perms):
            for side in ("client", "server"):
                ep = c if side == "client" else run.sconn(c)
                size = P.MAX_FRAGMENT_SIZE * (nfrag - 1) + r.randint(420, 1000)
                held = []

                def hold(direction, addr, d, info, _side=side):
                    want = "c2s" if _side == "client" else "s2c"
                    if direction != want:
                        return None
                    conn = c.udp.conn if _side == "client" else run.sconn(c)
                    dec = L.decode_datagram(d, conn.session_key_bytes)
                    if dec.ok and any(t == 7 for s, t, p in dec.msgs):
                        held.append(d)
                        return "drop"
                    return None
                w.net.filters.append(hold)
                rec = run.app.send(ep, side, size, 0, with_cb=False, fill="random")
                other = run.app.send(ep, side, 40, 0, with_cb=False)
                w.step(nfrag + 3)
                w.net.filters.remove(hold)
                if len(held) != nfrag:
                    run.c.inc("perm_capture_mismatch")
                    continue
                direction = "c2s" if side == "client" else "s2c"
                order = [held[i] for i in perm]
                dup_at = r.randrange(nfrag)
                for k, d in enumerate(order):
                    w.net.inject(direction, c.addr, d, "honest")
                    if k == dup_at:
                        w.net.inject(direction, c.addr, d, "dup")
                    w.step()
                w.step(4)
                n += 1
                run.c.inc("permutations_delivered")
                out["distinct"].add(h64("perm", nfrag, perm, side))
                if not run.app.deliveries.get(rec["id"]):
                    run.report("C06", "permuted-fragments-not-reassembled", "message of %d fragments not delivered for arrival order %r (%s)" % (nfrag, perm, side))
        context_check(run, [c])
        if len(out["samples"]) < 1:
            out["samples"].append({"scenario": "perms", "fragments": nfrag, "orders": [list(p) for p in perms[:6]], "orders_total": len(perms)})
        c05.collect(run, out, PROPS, {"kind": "perms", "nfrag": nfrag})
    return n


def run_limit(cfg, out):
    r = rng("C06", cfg["seed"], "limit")
    n = 0
    with T.Run(r, mtu=1500, bitfield=False) as run:
        w = run.world
        w.net.heal(0.002)
        c = w.connect_client()
        c.updates_per_step = 2
        P = run.C.Packet
        limit = P.MAX_FRAGMENT_SIZE * P.MAX_FRAGMENTS
        for side in ("client", "server"):
            for over in (1, 2, 1024, 100000):
                ep = c if side == "client" else run.sconn(c)
                payload = L.make_payload(3, over, limit + over, fill="zeros")
                rec = run.app.send(ep, side, 0, r.choice([0, -1]), with_cb=False, payload=payload)
                rec["expect_refusal"] = True
                n += 1
                run.c.inc("oversize_sends")
                w.step(2)
        if cfg.get("deliver_limit"):
            rec = run.app.send(c, "client", 0, 0, with_cb=False, payload=L.make_payload(3, 0, limit, fill="zeros"))
            n += 1
            w.step(P.MAX_FRAGMENTS + 200)
            run.c.inc("limit_payload_sent")
            if not run.app.deliveries.get(rec["id"]):
                run.report("C06", "limit-payload-not-delivered", "a payload of exactly the fragmentation limit (%d bytes) was not delivered intact" % limit)
            else:
                run.c.inc("limit_payload_delivered")
        else:
            # a large (but affordable) payload instead: 200 fragments
            rec = run.app.send(c, "client", 200 * P.MAX_FRAGMENT_SIZE + 17, 0, with_cb=False)
            w.step(260)
            n += 1
            if not run.app.deliveries.get(rec["id"]):
                run.report("C06", "large-payload-not-delivered", "a payload of 200 fragments was not delivered over a clean network")
            else:
                run.c.inc("large_payload_delivered")
        T.final_checks(run, [c], 1.0)
        out["samples"].append({"scenario": "limit", "limit": limit, "oversize": [limit + 1, limit + 2, limit + 1024, limit + 100000]})
        out["distinct"].update(h64("limit", i) for i in range(n))
        c05.collect(run, out, PROPS, {"kind": "limit"})
    return n


def run_mtusweep(cfg, out):
    """every MTU around the point where the fragment size formula switches (datagram capacity - 6 vs 1024), set one after the
    other on ONE open connection (setMTU at runtime); after each change fragmented messages of a few sizes go both ways and must
    be reassembled before the next change"""
    r = rng("C06", cfg["seed"], "mtusweep")
    n = 0
    with T.Run(r, mtu=1500) as run:
        ShapeMonitor(run)
        w = run.world
        w.net.heal(0.004)
        c = w.connect_client()
        c.updates_per_step = 2
        P = run.C.Packet
        for mtu in list(range(1080, 1111)) + [512, 600, 1500]:
            P.setMTU(mtu)
            run.mtu = mtu
            recs = []
            for size in (P.MAX_PAYLOAD_SIZE + 1, 2 * P.MAX_FRAGMENT_SIZE + 3, 3 * 1024 + 17, 2 * P.MAX_PAYLOAD_SIZE):
                for side in ("client", "server"):
                    recs.append(run.app.send(c if side == "client" else run.sconn(c), side, size, -1, with_cb=True))
                    n += 1
                w.step(4)
            w.run_until(lambda ww: all(rc["cb"] for rc in recs), 400)
            run.c.inc("mtus_swept")
            out["distinct"].add(h64("mtusweep", mtu))
            missing = [rc for rc in recs if not run.app.deliveries.get(rc["id"])]
            if missing and run.open(c):
                run.report("C06", "size-never-reassembled", "MTU %d set on an open connection: %d of %d fragmented messages (e.g. %d bytes in %d fragments of at most %d) were not reassembled; %s" % (
                    mtu, len(missing), len(recs), missing[0]["len"], missing[0].get("nmsgs", 0), P.MAX_FRAGMENT_SIZE, T.where_stuck(run, missing[0])), {"mtu": mtu})
                break
        healed = run.settle([c], min_ticks=30, horizon=20.0)
        T.final_checks(run, [c], healed, horizon=20.0)
        c05.collect(run, out, PROPS, {"kind": "mtusweep"})
    return n


def shape_extra(run, r, c):
    ShapeMonitor(run)


def run_shard(cfg):
    out = {"violations": [], "counters": Counter(), "samples": [], "distinct": set()}
    kind = cfg["kind"]
    if kind == "contents":
        n = run_contents(cfg, out)
    elif kind == "perms":
        n = run_perms(cfg, out)
    elif kind == "limit":
        n = run_limit(cfg, out)
    elif kind == "mtusweep":
        n = run_mtusweep(cfg, out)
    else:
        n = c05.run_faults(cfg, out, props=PROPS, tag="C06", extra=shape_extra)
    return {"evaluations": n, "distinct": sorted(out["distinct"]), "distinct_count": out.get("distinct_n", 0), "counters": dict(out["counters"]),
            "violations": out["violations"][:60], "samples": out["samples"]}


def finish(tier, seed, results):
    m = merge(results)
    inconclusive = []
    need(m["counters"], ["delivered_to_server", "delivered_to_client", "wire_app_messages", "wire_fragments", "wire_fragment_sets_complete",
                         "permutations_delivered", "oversize_sends", "refusals_expected", "crafted_payloads", "reassembly_contexts_expired",
                         "net_duplicated_c2s", "net_lost_s2c", "mtus_swept", "same_length_bursts_of_eight_without_references"], inconclusive)
    if m["counters"].get("perm_capture_mismatch"):
        inconclusive.append("permutation scenario could not capture the fragments of %d messages" % m["counters"]["perm_capture_mismatch"])
    cov = {
        "evaluations": m["evaluations"],
        "distinct_nontrivial": m["distinct_nontrivial"],
        "rule": "contents: every boundary length (0-3, MAXP+-12, k*FRAG+-12, last fragment at the capacity +-12) x retry mode x content class "
                "(zeros, 0xFF, text, random, and content crafted so that fragments begin with the fragment header of another message in "
                "flight) per MTU, over a lossy/duplicating/reordering network; perms: every arrival order of the fragments of 2..5-fragment "
                "messages with one duplicate; limit: send() above the fragmentation limit must raise and queue nothing; faults: seeded "
                "fault worlds as in C05. distinct = distinct (mtu, length, retry, side) / arrival orders / worlds",
        "samples": m["samples"],
        "counters": m["counters"],
    }
    return {"coverage": cov, "inconclusive": inconclusive,
            "assumptions": ["the payload of exactly the fragmentation limit (8 MiB, 8192 datagrams) is sent in the thorough tier only",
                            "id-less payloads (< 11 bytes) are matched by (sending connection, message sequence number) read at send() time"]}
