"""C07 - send callbacks are truthful and fire exactly once; datagrams resolve exactly once.

Reference resolution model (online, ResolutionMonitor): a datagram named by the
(ack, ack_bits) of an accepted inbound datagram must be resolved 'acked' at that very
moment; one never named must time out at a tick T with
  t_emit + timeout - eps <= T <= t_emit + timeout + send_interval + 2 ticks + eps.
Wrappers on _handle_ack/_handle_timeout report the real resolutions; each emitted
sequence number must be resolved exactly once, the same way as the model, and
assembled == acked + timeouts + pending.  Callback log: cb(True) only when the peer
application already holds the message; cb(False) only after the message timeout;
retry-NONE and guaranteed sends: never more than one invocation, exactly one at
quiescence (guaranteed: True).  BEST_EFFORT is excluded from the count, as in the
statement.  An adversary replays stale datagrams and injects forged / rewritten ack
fields; they must resolve nothing.
"""
from mon.core.merge import merge, need
from mon.core.util import Counter, rng
from mon.engines import adversary as A
from mon.engines import traffic as T
from mon.props import c05

ID = "C07"
LEVEL = "fault_enumeration"
SHARD_TIMEOUT = {"quick": 600, "thorough": 3000}
PROPS = ("C07",)


def plan(tier, seed):
    if tier == "quick":
        return [{"kind": "faults", "tier": tier, "seed": seed, "shard": i, "n": 4, "subprocess": True} for i in range(14)]
    return [{"kind": "faults", "tier": tier, "seed": seed, "shard": i, "n": 110, "subprocess": True} for i in range(32)]


def ack_adversary(run, r, c):
    """installs a tick hook: stale replays, forged and rewritten ack fields, towards both endpoints"""
    w = run.world
    recent = []

    def on_wire(direction, addr, datagram, client, n):
        if addr == c.addr:
            recent.append((direction, datagram))
            if len(recent) > 600:
                del recent[:200]
    w.wire_hooks.append(on_wire)

    def tick(world):
        if not recent or r.random() > 0.25:
            return
        kind = r.choice(["stale-replay", "stale-replay", "forged-ack", "rewritten-ack", "rewritten-ack-crc"])
        direction, d = r.choice(recent[:max(1, len(recent) - 40)] if kind == "stale-replay" and len(recent) > 60 else recent)
        conn = run.sconn(c) if direction == "c2s" else c.udp.conn
        if conn is None:
            return
        pend = sorted(int(s) for s in conn.pending_acks)
        if kind == "stale-replay":
            w.net.inject(direction, c.addr, d, "replay:stale")
            run.c.inc("adv_stale_replays")
        elif kind == "forged-ack":
            ack = pend[-1] if pend else r.randint(1, 65535)
            peer = c.udp.conn if direction == "c2s" else run.sconn(c)
            fresh = (int(peer.seq_sending) + r.randint(1, 30)) % 65535 + 1 if peer is not None else 1
            ptype = r.choice([1, 2, 4, 6, 0])
            f = A.forge_crc(direction, ptype, fresh, ack, 0xFFFFFFFF, [] if ptype in (4, 0) else [(r.randint(1, 65535), ptype, b"x" * 8)], int(w.clock.now))
            w.net.inject(direction, c.addr, f, "forged:ack-naming-pending")
            run.c.inc("adv_forged_acks")
        else:
            items = [x for x in A.header_rewrites(d, r, kind.endswith("crc")) if "ack" in x[0] or "bits" in x[0] or "seq" in x[0]]
            name, f = r.choice(items)
            w.net.inject(direction, c.addr, f, "header-rewrite:" + name)
            run.c.inc("adv_rewritten_acks")
    w.tick_hooks.append(tick)
    return lambda: w.tick_hooks.remove(tick)


def run_shard(cfg):
    out = {"violations": [], "counters": Counter(), "samples": [], "distinct": set()}
    n = c05.run_faults(cfg, out, props=PROPS, tag="C07", extra=ack_adversary)
    return {"evaluations": n, "distinct": sorted(out["distinct"]), "distinct_count": out.get("distinct_n", 0), "counters": dict(out["counters"]),
            "violations": out["violations"][:60], "samples": out["samples"]}


def finish(tier, seed, results):
    m = merge(results)
    inconclusive = []
    need(m["counters"], ["callbacks", "callbacks_true", "callbacks_false", "callbacks_exactly_once", "resolved_acked", "resolved_timeout",
                         "acks_matched_model", "adv_stale_replays", "adv_forged_acks", "adv_rewritten_acks", "net_lost_c2s", "net_lost_s2c",
                         "profile_slow", "profile_very-slow", "runs_connection_open"], inconclusive)
    cov = {
        "evaluations": m["evaluations"],
        "distinct_nontrivial": m["distinct_nontrivial"],
        "rule": "one evaluation = one application send (all sizes incl. fragmented, retry NONE/BEST_EFFORT/RETRY_ON_TIMEOUT, with and "
                "without callback) inside a seeded fault world: targeted loss of carrying datagrams and of acks, profiles lossy / dup / "
                "reorder / slow (rtt > resend interval) / very-slow (rtt > message timeout) / one-way ack loss / hostile, plus an "
                "adversary replaying stale datagrams and injecting forged and rewritten ack fields every few ticks; then a healed network "
                "until quiescence. Every _handle_ack/_handle_timeout is compared with the reference resolution model. distinct = "
                "application sends made inside fault worlds (unique payload id, own network fate)",
        "fault_classes": ["k-th carrying datagram lost", "acks lost", "lossy", "dup", "reorder", "slow", "very-slow", "acks-lost", "hostile",
                          "stale replay", "forged ack naming pending datagrams", "rewritten ack field (with/without CRC)"],
        "samples": m["samples"],
        "counters": m["counters"],
    }
    return {"coverage": cov, "inconclusive": inconclusive,
            "assumptions": ["'exactly once' lower bound is judged at quiescence of an open connection; a run that never becomes quiescent "
                            "within the horizon (counted: callbacks_unresolved_not_quiescent) only gets the upper bound (never more than once)",
                            "timing bounds carry one send interval plus two ticks of slack (the code looks for timeouts only on ticks on "
                            "which it may send and mixes > and >=)",
                            "BEST_EFFORT callbacks may repeat (excluded by the statement)"]}
