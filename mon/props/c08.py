"""C08 - sequence-number ring and receive-window bookkeeping are exact.

(a) ring: SeqNum.__add__/__sub__/diff/newer_than/__lt__/__gt__ against integer
    arithmetic on 1..65535 (all values x offsets near 0 and near half the ring).
(b) window: class-wide wrapper on BitField.insert/contains with a set-of-received
    shadow model; seeded insertion histories (in order, gaps, repeats, reversed
    runs, jumps beyond the width, positions straddling the wrap) for widths 8..256.
(c) ack fields on the wire: pair-engine sessions under loss/duplication/reordering;
    for every datagram an endpoint emits, header ack/ack_bits must name exactly
    the peer datagrams it has accepted among the newest 32, judged against the
    monitor's own acceptance record (mon/engines/monitors.py: WireMonitor, RecvMonitor).
    The record is also taken at the server's datagram entry point (EntryRecord): third parties present exact copies of
    genuine datagrams from foreign addresses before/after/around the original; a genuine datagram that reached the
    server from its connection's own address for the first time must be named by the next ack fields emitted.
"""
from mon.core.merge import merge, need
from mon.core.util import Counter, h64, rng
from mon.models.ring import MAXSEQ, HALF, ring, ring_add, ring_diff

ID = "C08"
LEVEL = "exploration"
SHARD_TIMEOUT = {"quick": 300, "thorough": 3000}

OFFSETS = list(range(0, 301)) + list(range(HALF - 300, HALF + 1))
WIDTHS = [8, 16, 32, 64, 128, 256]


def plan(tier, seed):
    shards = []
    if tier == "quick":
        bands = [list(range(1, 302)), list(range(HALF - 150, HALF + 151)), list(range(MAXSEQ - 300, MAXSEQ + 1))]
        vals = sorted(set(sum(bands, [])))
        k = 6
        for i in range(k):
            shards.append({"kind": "ring", "tier": tier, "seed": seed, "values": vals[i::k], "random_pairs": 20000, "shard": i, "subprocess": True})
        for i in range(6):
            shards.append({"kind": "window", "tier": tier, "seed": seed, "shard": i, "n": 150, "subprocess": True})
        for i in range(4):
            shards.append({"kind": "wire", "tier": tier, "seed": seed, "shard": i, "n": 4, "subprocess": True})
    else:
        k = 16
        for i in range(k):
            shards.append({"kind": "ring", "tier": tier, "seed": seed, "range": [i + 1, MAXSEQ + 1, k], "random_pairs": 125000, "shard": i, "subprocess": True})
        for i in range(16):
            shards.append({"kind": "window", "tier": tier, "seed": seed, "shard": i, "n": 4000, "subprocess": True})
        for i in range(16):
            shards.append({"kind": "wire", "tier": tier, "seed": seed, "shard": i, "n": 80, "subprocess": True})
    return shards


def run_ring(cfg, counters, violations, samples):
    from mpgameserver.connection import SeqNum
    r = rng("C08", cfg["seed"], "ring", cfg["shard"])
    values = cfg.get("values") or list(range(*cfg["range"]))

    def viol(mech, msg, case):
        counters.inc("viol:" + mech)
        if sum(1 for v in violations if v["mechanism"] == mech) < 5:
            violations.append({"mechanism": mech, "msg": msg, "case": case, "case_key": case})

    n = 0
    for a in values:
        A = SeqNum(a)
        for k in OFFSETS:
            n += 1
            # forward / backward steps
            p = A + k
            m = A - k
            wp, wm = ring_add(a, k), ring_add(a, -k)
            if int(p) != wp or int(p) == 0 or not isinstance(p, SeqNum):
                viol("ring-add", "SeqNum(%d) + %d = %r, ring says %d" % (a, k, p, wp), {"a": a, "k": k, "op": "+"})
            if int(m) != wm or int(m) == 0 or not isinstance(m, SeqNum):
                viol("ring-sub", "SeqNum(%d) - %d = %r, ring says %d" % (a, k, m, wm), {"a": a, "k": k, "op": "-"})
            # +k then -k is the identity
            if int(p - k) != a or int(m + k) != a:
                viol("ring-identity", "(%d + %d) - %d = %d, (%d - %d) + %d = %d" % (a, k, k, p - k, a, k, k, m + k), {"a": a, "k": k})
            # signed distance and comparisons, both directions, judged on the reference neighbours
            B, Cc = SeqNum(wp), SeqNum(wm)
            d1, d2 = B.diff(A), Cc.diff(A)
            if d1 != k or d2 != -k or A.diff(B) != -k or A.diff(Cc) != k:
                viol("ring-diff", "diff: (%d+%d).diff(%d)=%r, (%d-%d).diff(%d)=%r" % (a, k, a, d1, a, k, a, d2), {"a": a, "k": k, "op": "diff"})
            if k > 0:
                ok = (B.newer_than(A) is True and A.newer_than(B) is False and Cc.newer_than(A) is False and A.newer_than(Cc) is True
                      and (A < B) is True and (B < A) is False and (B > A) is True and (A > B) is False
                      and (Cc < A) is True and (A < Cc) is False and (A > Cc) is True and (Cc > A) is False)
                if not ok:
                    viol("ring-compare", "comparison wrong for %d and its neighbours at distance %d (%d, %d)" % (a, k, wp, wm), {"a": a, "k": k, "op": "cmp"})
            else:
                if A.newer_than(B) or (A < B) or (A > B):
                    viol("ring-compare", "a number compares newer/older than itself: %d" % a, {"a": a, "k": 0})
    counters.inc("ring_pairs", n)
    counters.inc("ring_values", len(values))
    # random pairs anywhere within half the ring
    for _ in range(cfg["random_pairs"]):
        a = r.randint(1, MAXSEQ)
        k = r.randint(-HALF, HALF)
        b = ring_add(a, k)
        A, B = SeqNum(a), SeqNum(b)
        counters.inc("ring_random_pairs")
        if B.diff(A) != k or A.diff(B) != -k or B.newer_than(A) != (k > 0) or (A < B) != (k > 0) or (A > B) != (k < 0):
            viol("ring-diff", "random pair %d, %d (distance %d): diff %r/%r newer %r lt %r gt %r" % (
                a, b, k, B.diff(A), A.diff(B), B.newer_than(A), A < B, A > B), {"a": a, "b": b})
    # the first number: an uninitialised SeqNum() advances to 1, the maximum wraps to 1
    z = SeqNum()
    if int(z + 1) != 1 or int(SeqNum(MAXSEQ) + 1) != 1 or int(SeqNum(1) - 1) != MAXSEQ:
        viol("ring-wrap", "SeqNum()+1=%d, SeqNum(65535)+1=%d, SeqNum(1)-1=%d" % (z + 1, SeqNum(MAXSEQ) + 1, SeqNum(1) - 1), {})
    counters.inc("ring_wrap_checks")
    if len(samples) < 1:
        samples.append({"ring": "value %d with offsets %r..%r and %r..%r; ops + - diff newer_than < >" % (
            values[0], OFFSETS[0], OFFSETS[300], OFFSETS[301], OFFSETS[-1])})
    return n + cfg["random_pairs"]


def gen_history(r, nbits):
    """a list of unwrapped indices to insert, all within half the ring of the running top"""
    start = r.choice([1, 2, MAXSEQ - nbits, MAXSEQ - 3, MAXSEQ, MAXSEQ + 1, r.randint(1, 3 * MAXSEQ), 2 * MAXSEQ - nbits // 2])
    hist = []
    top = start
    length = r.randint(nbits, 6 * nbits)
    mode = r.choice(["inorder", "gaps", "repeats", "reversed-runs", "jumps", "mixed", "mixed", "behind"])
    u = start
    hist.append(u)
    while len(hist) < length:
        m = mode if mode != "mixed" else r.choice(["inorder", "gaps", "repeats", "reversed-runs", "jumps", "behind"])
        if m == "inorder":
            for _ in range(r.randint(1, nbits)):
                top += 1
                hist.append(top)
        elif m == "gaps":
            top += r.randint(1, max(2, nbits // 4))
            hist.append(top)
        elif m == "repeats":
            hist.append(r.choice(hist[-min(len(hist), nbits + 8):]))
        elif m == "reversed-runs":
            k = r.randint(2, nbits + 2)
            run = list(range(top + 1, top + k + 1))
            top += k
            run.reverse()
            hist += run
        elif m == "jumps":
            top += r.choice([nbits - 1, nbits, nbits + 1, 2 * nbits, nbits + r.randint(0, 1000)])
            hist.append(top)
        elif m == "behind":
            # something older: inside the window, at its edge, or beyond it
            d = r.choice([1, 2, nbits - 1, nbits, nbits + 1, nbits + 2, r.randint(1, 2 * nbits), r.randint(1, 3000)])
            if top - d >= 1:
                hist.append(top - d)
            else:
                top += 1
                hist.append(top)
    return start, hist[:length], mode


def run_window(cfg, counters, violations, samples, distinct):
    from mpgameserver.connection import BitField, SeqNum, DuplicationError
    from mon.engines.hooks import BitFieldMonitor
    r = rng("C08", cfg["seed"], "window", cfg["shard"])
    current = {}

    def report(mech, msg):
        counters.inc("viol:" + mech)
        if sum(1 for v in violations if v["mechanism"] == mech) < 5:
            violations.append({"mechanism": mech, "msg": msg + " | history %r" % (current.get("hist"),),
                               "case": dict(current), "case_key": dict(current)})

    mon = BitFieldMonitor(report, counters, sweep_every=0).install()
    try:
        for case in range(cfg["n"]):
            nbits = WIDTHS[(case + cfg["shard"]) % len(WIDTHS)]
            start, hist, mode = gen_history(r, nbits)
            current.clear()
            current.update({"nbits": nbits, "mode": mode, "hist": [ring(u) for u in hist[:80]]})
            bf = BitField(nbits)
            for u in hist:
                try:
                    bf.insert(SeqNum(ring(u)))
                except DuplicationError:
                    pass
                if r.random() < 0.1:
                    bf.contains(SeqNum(ring(u - r.randint(0, nbits))))
            counters.inc("window_histories")
            counters.inc("window_width_%d" % nbits)
            if any(ring(u) < ring(v) and u > v for u, v in zip(hist[1:], hist)):
                counters.inc("window_histories_crossing_wrap")
            distinct.add(h64(nbits, hist))
            if len(samples) < 2:
                samples.append({"window_width": nbits, "mode": mode, "inserted": [ring(u) for u in hist[:40]]})
        # BitField refuses widths that are not a multiple of 8 (documented constructor contract)
        try:
            BitField(12)
            report("window-width", "BitField(12) was accepted")
        except ValueError:
            counters.inc("window_width_refused")
    finally:
        mon.uninstall()
    return counters.get("bitfield_insert", 0)


def foreign_address(w, r, own):
    """an address that is not the sender's: unknown to the server, the sender's host with another port, or the address of
    another connected client"""
    others = [c.addr for c in w.clients if c.addr != own]
    k = r.random()
    if others and k < 0.3:
        return r.choice(others)
    if k < 0.5:
        return (own[0], own[1] % 60000 + 1 + r.randint(1, 5000))
    return ("10.%d.%d.%d" % (r.randint(40, 250), r.randint(0, 255), r.randint(1, 254)), r.randint(1024, 65000))


class EntryRecord(object):
    """the acceptance record taken one step further out, at the server's datagram entry point (TwistedServer.datagramReceived):
    a genuine datagram of an established connection that reaches the server FROM THAT CONNECTION'S OWN ADDRESS for the first
    time has been received, whatever else arrived around it from whatever other address.  The first header the server emits
    to that peer after it has worked through the batch must name it in ack / ack_bits if it is among the newest 32 (an ack
    number OLDER than it is wrong as well).  Datagrams that have left the window by then are not judged."""

    def __init__(self, run):
        self.run = run
        self.w = run.world
        self.c = run.c
        self.pending = {}            # id(conn) -> {unwrapped index -> entry}
        self.seen = {}               # id(conn) -> set of unwrapped indices presented from the own address before
        self.last_offer = None       # (addr, datagram) of the previous datagram offered to the server
        self.w.after_offer_hooks.append(self.offered)
        run.tap.listeners.append(self)

    def offered(self, addr, datagram, origin):
        w = self.w
        prev, self.last_offer = self.last_offer, (addr, datagram)
        conn = w.ctxt.connections.get(addr)
        if conn is None or getattr(conn.status, "value", 0) != 2 or conn.session_key_bytes is None:
            return
        e = self.run.tap.end(conn)
        G = self.run.tap.genuine_for(e, conn.session_key_bytes, datagram)
        if G is None or G != datagram:
            return
        from mon.engines.lockstep import parse_header
        h = parse_header(datagram)
        u = e.unwrap_peer(h[2])
        seen = self.seen.setdefault(id(conn), set())
        if u in seen or u in e.acc:
            return                   # not the first presentation: a duplicate verdict is right (judged by RecvMonitor)
        seen.add(u)
        if len(seen) > 4096:
            lo = max(seen) - 2048
            self.seen[id(conn)] = {x for x in seen if x >= lo}
        if e.acc_top is not None and u < e.acc_top - 32:
            return                   # older than the window already
        self.c.inc("entry_received_recorded")
        self.pending.setdefault(id(conn), {})[u] = {
            "seq": h[2], "iter": w.server_iterations, "dropped": conn.stats.dropped,
            "shadow": (prev[0] if (prev is not None and prev[1] == datagram and prev[0] != addr) else None), "ptype": h[4]}

    def emitted(self, e, direction, addr, datagram, dec, n):
        if direction != "s2c" or e.role != "server" or not dec.ok or getattr(self.w, "reactor_lag", 0):
            return
        pend = self.pending.get(id(e.conn))
        if not pend:
            return
        if getattr(e.conn.status, "value", 0) != 2:
            pend.clear()
            return
        it = self.w.server_iterations
        for u in sorted(pend):
            ent = pend[u]
            if ent["iter"] >= it:
                continue             # the loop has not yet worked through the batch that datagram is in
            del pend[u]
            if dec.ack == 0:
                back, named = None, False
            else:
                back = ring_diff(dec.ack, ent["seq"])
                if back > 32:
                    self.c.inc("entry_received_left_window_unjudged")
                    continue
                named = back == 0 or (back > 0 and bool(dec.ack_bits & (0x80000000 >> (back - 1))))
            self.c.inc("entry_received_judged")
            if ent["shadow"] is not None:
                self.c.inc("entry_received_after_foreign_copy_judged")
            if not named:
                self.run.report("C08", "received-datagram-not-named-by-ack",
                                "datagram seq %d (type %d) reached the server's entry point from its connection's own address %s:%d for the first time%s; "
                                "%d loop iterations later the server emits ack=%d bits=%08x, which %s. The connection's acceptance record %s it; "
                                "its stats.dropped went %d -> %d%s" % (
                                    ent["seq"], ent["ptype"], addr[0], addr[1],
                                    (" (an exact copy from the foreign address %s:%d was presented just before it)" % ent["shadow"]) if ent["shadow"] else "",
                                    it - ent["iter"], dec.ack, dec.ack_bits,
                                    "does not name it" if (back is None or back >= 0) else "is an older number",
                                    "holds" if u in e.acc else "does not hold", ent["dropped"], e.conn.stats.dropped,
                                    " (a duplicate verdict for a datagram never received before)" if (u not in e.acc and e.conn.stats.dropped > ent["dropped"]) else ""),
                                {"shadowed_by_foreign_copy": ent["shadow"] is not None})


def run_wire(cfg, counters, violations, samples, distinct):
    """lockstep sessions under loss/duplication/reordering with the wire/recv monitors: every emitted header's
    ack and ack_bits and every duplicate verdict are compared with the monitor's own acceptance record; the
    class-wide BitField shadow stays on for every window of every connection"""
    from mon.props import c05
    from mon.engines import adversary as A
    out = {"violations": [], "counters": Counter(), "samples": [], "distinct": set()}

    def corruption(run, r, c):
        """a damaged copy of a datagram overtakes the intact one; forged headers with a sequence number far ahead.
        Neither may enter the window: the ack fields must keep naming exactly what was really received."""
        w = run.world

        def flt(direction, addr, d, info):
            x = r.random()
            if x < 0.06 and len(d) > 24:
                b = bytearray(d)
                i = r.randrange(20, len(b))
                b[i] ^= 1 << r.randrange(8)
                run.c.inc("adv_damaged_copy_first")
                return ("replace", [(bytes(b), "bitflip"), (d, "honest")])       # same delay: FIFO order keeps the damaged one first
            if x < 0.08:
                h = L.parse_header(d)
                forged = A.header(direction, h[1], (h[2] + r.choice([1, 2, 40, 500])) % 65535 + 1, h[3], h[4], h[5], h[6], h[7]) + d[20:]
                run.c.inc("adv_forged_future_seq")
                return ("replace", [(d, "honest"), (forged, "forged:future-seq")])
            if x < 0.13 and direction == "c2s":
                # a third party that sees the traffic (reflector, hairpinning NAT, sniffing attacker) presents exact copies of a
                # genuine datagram from OTHER source addresses - before, after or around the original, back to back
                h = L.parse_header(d)
                if h is None or h[4] == 1:
                    return None
                place = r.choice(["first", "first", "first", "after", "around", "first-twice"])
                seq_ = {"first": ["f", "o"], "after": ["o", "f"], "around": ["f", "o", "f"], "first-twice": ["f", "f", "o"]}[place]
                for what in seq_:
                    if what == "o":
                        w.net.inject("c2s", addr, d, "honest", 0.004)
                    else:
                        w.net.inject("c2s", foreign_address(w, r, addr), d, "dup:foreign-address", 0.004)
                run.c.inc("adv_foreign_copy_" + ("first" if seq_[0] == "f" else "after"))
                return "drop"                                                     # (this filter has taken over the delivery)
            return None
        w.net.filters.append(flt)
        if not getattr(run, "_c08_entry", None):
            run._c08_entry = EntryRecord(run)
        return lambda: w.net.filters.remove(flt) if flt in w.net.filters else None
    from mon.engines import lockstep as L
    n = c05.run_faults({"seed": cfg["seed"], "shard": cfg["shard"], "n": cfg["n"], "tier": cfg["tier"]}, out, props=("C08",), tag="C08",
                       profiles_pool=["lossy", "dup", "reorder", "hostile", "slow", "acks-lost"], extra=corruption)
    counters.merge(out["counters"])
    violations += out["violations"]
    samples += out["samples"][:1]
    distinct.update(out["distinct"])
    return counters.get("wire_datagrams_checked", 0)


def run_shard(cfg):
    counters = Counter()
    violations, samples, distinct = [], [], set()
    out = {"counters": counters, "violations": violations, "samples": samples}
    if cfg["kind"] == "ring":
        n = run_ring(cfg, counters, violations, samples)
        out.update({"evaluations": n, "distinct_count": n})
    elif cfg["kind"] == "window":
        n = run_window(cfg, counters, violations, samples, distinct)
        out.update({"evaluations": n, "distinct": sorted(distinct)})
    else:
        n = run_wire(cfg, counters, violations, samples, distinct)
        out.update({"evaluations": n, "distinct": sorted(distinct)})
    out["counters"] = dict(counters)
    return out


def finish(tier, seed, results):
    m = merge(results)
    inconclusive = []
    need(m["counters"], ["ring_pairs", "ring_random_pairs", "bitfield_insert", "bitfield_dup_raised", "bitfield_window_sweeps",
                         "window_histories_crossing_wrap", "wire_datagrams_checked", "wire_ackbits_nonzero",
                         "wire_duplicates_presented", "adv_damaged_copy_first", "adv_forged_future_seq",
                         "adv_foreign_copy_first", "adv_foreign_copy_after", "entry_received_judged",
                         "entry_received_after_foreign_copy_judged"], inconclusive)
    cov = {
        "evaluations": m["evaluations"],
        "distinct_nontrivial": m["distinct_nontrivial"],
        "rule": "ring: every (value, offset) pair for the listed values x offsets 0..300 and 32467..32767, each judged for + - "
                "identity diff newer_than < > against integer ring arithmetic (distinct by construction), plus random pairs within "
                "half the ring; window: seeded insertion histories per width %r judged after every insert by a set-of-received "
                "shadow model (current, every bit, contains() over the whole window, duplicate flag) - distinct = distinct "
                "histories; wire: pair-engine sessions under loss/dup/reorder where every emitted header's ack/ack_bits and every "
                "duplicate verdict is compared with the monitor's own acceptance record, and every genuine datagram first presented "
                "at the server's entry point from its connection's own address (also right behind exact copies from foreign "
                "addresses) must be named by the next emitted ack fields - distinct = distinct sessions" % (WIDTHS,),
        "exhaustive": tier == "thorough",
        "exhaustive_scope": "ring part only: all 65535 values x the listed offsets (thorough); quick covers three bands of 300 values",
        "samples": m["samples"],
        "counters": m["counters"],
    }
    return {"coverage": cov, "inconclusive": inconclusive,
            "assumptions": ["numbers presented to a window are less than half the ring (32767) from its newest, as the statement requires",
                            "outside the window the duplicate flag is not judged here (C04 covers stale replays)"]}
