"""C09 - wire codec round-trips; datagrams respect the MTU; packing never fails.

codec   Packet.create/to_bytes -> PacketHeader.from_bytes/Packet.from_bytes AND the
        monitor's independent decoder, for header extremes (time 0 / 2^32-1, seq/ack
        0 / 65535, all 8 types, 0/1/2/3/255 messages, empty and maximal payloads,
        random ack bits) in CRC and AES form.  The same wrapper checks every packet
        of live traffic.
packing one MTU per world (Packet.setMTU is process-global): random send sequences
        per tick (empty payloads, hundreds of 0-3 byte messages, boundary sizes, all
        retry modes, resends due).  Every datagram handed to a socket is <= MTU-28;
        first-fit maximality (no message left waiting that would have fit); nothing
        raises in _build_packet / to_bytes / UdpClient.update / the server send
        path; every message accepted by send() is on the wire or still queued.
"""
import struct

from mon.core.merge import merge, need
from mon.core.util import Counter, h64, rng
from mon.engines import lockstep as L
from mon.engines import traffic as T
from mon.props import c05

ID = "C09"
LEVEL = "exploration"
SHARD_TIMEOUT = {"quick": 600, "thorough": 3000}
PROPS = ("C09",)
MTUS_QUICK = [512, 513, 576, 700, 1000, 1023, 1071, 1072, 1200, 1400, 1499, 1500]


def plan(tier, seed):
    shards = [{"kind": "codec", "tier": tier, "seed": seed, "shard": i, "n": 1500 if tier == "quick" else 40000, "subprocess": True}
              for i in range(2 if tier == "quick" else 8)]
    if tier == "quick":
        for i, mtu in enumerate(MTUS_QUICK):
            shards.append({"kind": "packing", "tier": tier, "seed": seed, "mtus": [mtu], "shard": i, "ticks": 260, "subprocess": True})
    else:
        allm = list(range(512, 1501))
        k = 43
        for i in range(k):
            shards.append({"kind": "packing", "tier": tier, "seed": seed, "mtus": allm[i::k], "shard": i, "ticks": 220, "subprocess": True})
    shards.append({"kind": "interleaved", "tier": tier, "seed": seed, "shard": 0, "ticks": 1500 if tier == "quick" else 12000, "subprocess": True})
    return shards


def run_codec(cfg, out):
    import mpgameserver.connection as C
    r = rng("C09", cfg["seed"], "codec", cfg["shard"])
    c = out["counters"]

    def viol(mech, msg, case):
        c.inc("viol:" + mech)
        if sum(1 for v in out["violations"] if v["mechanism"] == mech) < 6:
            out["violations"].append({"mechanism": mech, "msg": msg, "case": case, "case_key": case})

    types = [C.PacketType.UNKNOWN, C.PacketType.CLIENT_HELLO, C.PacketType.SERVER_HELLO, C.PacketType.CHALLENGE_RESP, C.PacketType.KEEP_ALIVE,
             C.PacketType.DISCONNECT, C.PacketType.APP, C.PacketType.APP_FRAGMENT]
    n = 0
    maxp = C.Packet.MAX_PAYLOAD_SIZE
    for i in range(cfg["n"]):
        ptype = types[i % 8]
        count = [0, 1, 2, 3, 255, r.randint(4, 254)][(i // 8) % 6]
        ctime = r.choice([0, 1, 2 ** 32 - 1, 2 ** 31, r.getrandbits(32)])
        seq = r.choice([0, 1, 65535, 32767, r.randint(0, 65535)])
        ack = r.choice([0, 1, 65535, r.randint(0, 65535)])
        bits = r.choice([0, 0xFFFFFFFF, 1, 0x80000000, r.getrandbits(32)])
        is_server = bool(i & 1)
        msgs = []
        room = maxp + 2
        for k in range(count):
            if count == 1:
                ln = r.choice([0, 1, maxp, maxp - 1, r.randint(0, maxp)])
            else:
                per = max(0, room // count - 5)
                ln = r.choice([0, 0, 1, per, r.randint(0, per)])
            mt = ptype if count == 1 else r.choice(types)
            msgs.append(C.PendingMessage(C.SeqNum(r.choice([0, 1, 65535, r.randint(0, 65535)])), mt, r.randbytes(ln), None, 0))
        key = r.choice([None, r.randbytes(16)])
        hdr = C.PacketHeader.create(is_server, ctime, ptype, C.SeqNum(seq), C.SeqNum(ack), bits)
        case = {"type": ptype.value, "count": count, "ctime": ctime, "seq": seq, "ack": ack, "bits": bits, "key": key is not None,
                "lens": [len(m.payload) for m in msgs][:6]}
        try:
            pkt = C.Packet.create(hdr, msgs)
            d = pkt.to_bytes(key)
        except Exception as e:
            viol("encode-raised", "Packet.create/to_bytes raised %r for %s" % (e, case), case)
            continue
        n += 1
        c.inc("codec_packets")
        c.inc("codec_form_" + ("gcm" if key and ptype != C.PacketType.SERVER_HELLO else "crc"))
        out["distinct"].add(h64("codec", ptype.value, count, ctime, seq, ack, bits, key is not None, case["lens"]))
        use_key = key if (key and ptype != C.PacketType.SERVER_HELLO) else None
        if pkt.total_size(key) != len(d):
            viol("total-size", "total_size() = %d but the encoding has %d bytes for %s" % (pkt.total_size(key), len(d), case), case)
        want_msgs = [(int(m.seq), (m.type.value if count > 1 else ptype.value), bytes(m.payload)) for m in msgs]
        # the real decoder
        try:
            h2 = C.PacketHeader.from_bytes(not is_server, d)
            p2 = C.Packet.from_bytes(h2, use_key, d)
            got = [(int(m.seq), m.type.value, bytes(m.payload)) for m in p2.msgs]
            hdr_ok = (h2.ctime, int(h2.seq), int(h2.ack), h2.ack_bits, h2.pkt_type.value, h2.count, h2.length) == (
                ctime, seq, ack, bits, ptype.value, count, len(pkt.msg))
            if got != want_msgs or not hdr_ok:
                viol("roundtrip-differs", "decode(encode(p)) != p for %s: header ok=%s, %d vs %d messages" % (case, hdr_ok, len(got), len(want_msgs)), case)
            else:
                c.inc("codec_roundtrips_real")
        except Exception as e:
            viol("roundtrip-raised", "decoding the encoding of %s raised %r" % (case, e), case)
        # the independent decoder
        dec = L.decode_datagram(d, use_key)
        if not dec.ok or dec.msgs != want_msgs or (dec.ctime, dec.seq, dec.ack, dec.ack_bits, dec.ptype, dec.count, dec.length) != (
                ctime, seq, ack, bits, ptype.value, count, len(pkt.msg)):
            viol("wire-format-differs", "independent decoder disagrees for %s (%s)" % (case, dec.error), case)
        else:
            c.inc("codec_roundtrips_independent")
        if len(out["samples"]) < 3 and count in (2, 255):
            out["samples"].append({"codec_case": case, "encoded_bytes": len(d)})
    # the count field is one byte: 256 messages cannot be represented and must be refused by the encoder, not mis-encoded
    msgs = [C.PendingMessage(C.SeqNum(1), C.PacketType.APP, b"", None, 0) for _ in range(256)]
    try:
        d = C.Packet.create(C.PacketHeader.create(False, 1, C.PacketType.APP, C.SeqNum(1), C.SeqNum(1), 0), msgs).to_bytes(None)
        dec = L.decode_datagram(d, None)
        if dec.count != 256:
            viol("count-overflow-misencoded", "256 messages were encoded with count=%d" % dec.count, {})
    except Exception:
        c.inc("codec_256_refused")
    return n


def open_connection(run, what):
    """opening a connection is the first send of every session: connect() queues the client hello like any other protocol message,
    and the statement's 'for every configured MTU ... whatever is queued' covers it - the hello is on the wire in a datagram of at
    most MTU-28 bytes, or the packer has lost/stranded a queued message.  Returns the connected client, or None after reporting why
    the world could not be opened (the caller collects the run and moves on instead of dying with the evidence)."""
    w, P, cnt = run.world, run.C.Packet, run.c
    c = w.add_client()
    mtu = P.MTU
    cnt.inc("handshakes_judged")
    if mtu < 1500:
        cnt.inc("handshakes_judged_below_the_default_mtu")
    try:
        return w.connect_client(c)
    except L.Inconclusive:
        pass
    # ten connect() calls without a session.  Once more on a network that loses nothing, as an application would, watching the
    # client's send queue and its socket from the moment connect() returns
    w.net.heal()
    if c.udp.conn is not None:
        c.udp.forceDisconnect()
        c.sock_open = True
        c.sock.fifo.clear()
    wire0 = cnt.get("wire_c2s", 0)
    c.connect()
    conn = c.udp.conn
    queued0 = [(str(m.type), len(m.payload)) for m in conn.outgoing_messages]
    still, ticks = list(queued0), 0
    for ticks in range(1, 241):
        w.step()
        if c.udp.conn is not conn:
            break                    # the client gave up (hello timeout) and dropped the connection object
        if getattr(conn.status, "value", 0) == 2 and c.addr in w.ctxt.connections:
            cnt.inc("handshakes_completed_only_on_a_clean_network")
            return c
        still = [(str(m.type), len(m.payload)) for m in conn.outgoing_messages]
    sent = cnt.get("wire_c2s", 0) - wire0
    cap = mtu - 28 - 20 - 16 - 2
    case = {"mtu": mtu, "world": what}
    if sent == 0 and still:
        run.report("C09", "handshake-message-never-leaves-send-queue",
                   "MTU %d, clean network: connect() queued %s; %d client frames (%.1f s) later the client has not handed a single datagram to "
                   "its socket and %s is still in the send queue (a datagram carries up to %d payload bytes at this MTU): the connection "
                   "can not be opened" % (mtu, queued0, ticks, ticks * w.dt, still, cap), case)
    elif sent == 0:
        run.report("C09", "handshake-message-lost" if queued0 else "handshake-message-never-queued",
                   "MTU %d, clean network: connect() queued %s; %d client frames later no datagram was handed to the socket and the send "
                   "queue is empty: the connection can not be opened" % (mtu, queued0, ticks), case)
    elif not run.report.of("C09"):
        # datagrams flow and nothing about them breaks this property: why the session is not established is not C09's to say
        raise L.Inconclusive("honest handshake did not complete at MTU %d although the client put %d datagrams on the wire" % (mtu, sent))
    cnt.inc("worlds_that_could_not_be_opened")
    return None


def hitch_with_resends_pending(run, c, r, kind):
    """the client application sends retry-mode messages into an outage (acks withheld), they leave in two or more datagrams on
    successive frames, and then the application's frame loop stalls for a little more than the resend interval (a frame hitch:
    no update() call).  At the next update() the resends of ALL those datagrams are due together.
    kind 'count':  256-300 EMPTY retry-mode messages - more due resends than the one-byte count field can describe;
    kind 'medium': medium-sized messages whose resends do not fit into one datagram together.
    Oracle (packing never raises or loses queued messages): nothing raises (judged by the update()/send-path monitors), and as
    long as no datagram can have been acked (outage) or timed out (younger than the message timeout) every one of the messages
    is still registered for a resend or back in the send queue."""
    w, P = run.world, run.C.Packet
    conn = c.udp.conn
    if conn is None or not run.open(c):
        return
    for _ in range(90):              # the application lets its backlog drain first (no new sends)
        if len(conn.outgoing_messages) < 50:
            break
        w.step()
    if c.udp.conn is not conn or not run.open(c) or len(conn.outgoing_messages) >= 50:
        return
    interval = getattr(conn, "send_keep_alive_interval", 0.1)
    if interval + 12 * w.dt >= conn.outgoing_timeout:
        return                       # the first copy times out before a resend is due: nothing to observe
    normal = dict(w.net.policy)
    w.net.set(c2s=L.Policy(outage=True), s2c=L.Policy(outage=True))
    saved = c.updates_per_step
    try:
        recs = []
        if kind == "count":
            k = r.randint(256, 300)
            modes = r.choice([[1], [-1], [1, -1]])
            for _ in range(k):
                recs.append(run.app.send(c, "client", 0, r.choice(modes), with_cb=False))
        else:
            size = min(r.randint(300, 700), P.MAX_PAYLOAD_SIZE)
            n = (2 * P.MAX_PAYLOAD_SIZE) // size + r.randint(2, 3)
            modes = r.choice([[1], [1], [-1], [1, -1]])
            for _ in range(n):
                recs.append(run.app.send(c, "client", max(11, size - r.randint(0, 40)), r.choice(modes), with_cb=False))
        recs = [x for x in recs if x["refused"] is None and x.get("nmsgs") == 1 and x["status_at_send"] == 2]
        mine = {x["msgseq_first"] for x in recs}
        for _ in range(12):
            if not any(int(m.seq) in mine for m in conn.outgoing_messages):
                break
            w.step()
        # the frame hitch
        c.updates_per_step = 0
        w.step(int((interval + 0.02) / w.dt) + 1)
        c.updates_per_step = saved
        judged = 0
        for _ in range(6):
            w.step()
            if c.udp.conn is not conn or not run.open(c) or not recs:
                break
            if w.clock.now - min(x["t"] for x in recs) >= conn.outgoing_timeout - 2 * w.dt:
                break
            held = {int(s) for s in conn.pending_retry_msg} | {int(m.seq) for m in conn.outgoing_messages}
            gone = sorted(mine - held)
            judged += 1
            if gone:
                run.report("C09", "due-resend-dropped-from-resend-registry",
                           "MTU %d: %d retry-mode messages (%s, %d bytes) were sent by the client into an outage in several datagrams; "
                           "after a frame hitch of %.3f s their resends fell due together; %.3f s after send() (message timeout %.2f s, "
                           "nothing acked) %d of them (message seq %s) are neither registered for a resend nor in the send queue: they "
                           "will never be sent again" % (P.MTU, len(recs), kind, recs[0]["len"], interval + 0.02, w.clock.now - recs[0]["t"],
                                                         conn.outgoing_timeout, len(gone), gone[:6]),
                           {"mtu": P.MTU, "kind": kind})
                break
        if judged:
            run.c.inc("frame_hitch_%s_resends_judged" % kind)
    finally:
        c.updates_per_step = saved
        w.net.set(c2s=normal["c2s"], s2c=normal["s2c"])


def run_packing(cfg, out):
    total = 0
    for mtu in cfg["mtus"]:
        r = rng("C09", cfg["seed"], "packing", mtu)
        # in half of the worlds the connection is opened under ANOTHER MTU and the MTU under test is set afterwards (the documented
        # runtime use of setMTU): everything below then runs on connection objects that were created before the change
        pre_mtu = mtu if r.random() < 0.5 else r.choice([m for m in (512, 576, 1000, 1200, 1500) if m != mtu])
        with T.Run(r, mtu=pre_mtu, dt=r.choice([1 / 60, 1 / 30])) as run:
            w = run.world
            P = run.C.Packet
            w.net.set(c2s=L.Policy(loss=0.05, dup=0.05, delay=(0.003, 0.02)), s2c=L.Policy(loss=0.05, dup=0.05, delay=(0.003, 0.02)))
            c = open_connection(run, "packing")
            if c is None:
                c05.collect(run, out, PROPS, {"kind": "packing", "mtu": mtu, "opened_at_mtu": pre_mtu})
                continue
            import mpgameserver.client as _K
            if r.random() < 0.5:
                # select() reports the client's socket as not writable now and then (send buffer full)
                _K.select.unwritable_rate = 0.03
                _K.select.rng = w.fault_rng
                run.c.inc("worlds_with_unwritable_socket")
            if r.random() < 0.4:
                # a message timeout below the resend interval: one copy in flight at a time
                c.udp.setKeepAliveInterval(0.5)
                c.udp.setMessageTimeout(0.3)
                run.c.inc("worlds_with_timeout_below_resend_interval")
            if pre_mtu != mtu:
                w.step(5)
                P.setMTU(mtu)
                run.mtu = mtu
                run.c.inc("mtu_changes_on_open_connections")
            if P.MTU != mtu:
                raise RuntimeError("MTU not applied")
            c.updates_per_step = 2
            run.report.context = {"mtu": mtu}
            maxp = P.MAX_PAYLOAD_SIZE
            staged = None            # (tick, side, k): second half of a resend+fresh flood
            normal = dict(w.net.policy)
            import array
            for t in range(cfg["ticks"]):
                mode = r.random()
                if t % 40 == 7:
                    # payloads that are not bytes: refused with TypeError - or, if a version accepts them, handled like bytes of the
                    # same content (the wire monitors judge what comes out)
                    for side in ("client", "server"):
                        ep = (c.udp if side == "client" else run.sconn(c))
                        if ep is None:
                            continue
                        for obj in (bytearray(b"x" * 700), memoryview(b"y" * 900), memoryview(array.array("I", range(340))), "text", 5, None, [1, 2]):
                            try:
                                ep.send(obj)
                                run.c.inc("non_bytes_payload_accepted")
                                # followed by something that only fits next to it if its size is miscounted
                                ep.send(bytes(1000))
                            except TypeError:
                                run.c.inc("non_bytes_payload_refused")
                            except Exception as e:
                                run.report("C09", "send-raised-other", "send(%s) raised %r instead of TypeError" % (type(obj).__name__, e))
                if staged is None and t in (60, 110, 160, 210):
                    hitch_with_resends_pending(run, c, r, "count" if t in (60, 210) else "medium")
                if staged is None and (mode >= 0.7 and mode < 0.78 or (t in (20, 120) and mtu >= 1345)):
                    # resend + fresh: k1 empty BEST_EFFORT messages go out into an outage (nothing is acked); once their
                    # resend is overdue the application adds k2 fresh empty messages in one tick: the datagram built then is
                    # offered k1 + k2 > 255 zero-length messages
                    side0 = r.choice(["client", "server"])
                    ep0 = c if side0 == "client" else run.sconn(c)
                    if ep0 is not None and len((c.udp.conn if side0 == "client" else ep0).outgoing_messages) < 50:
                        w.net.set(c2s=L.Policy(outage=True), s2c=L.Policy(outage=True))
                        for _ in range(r.choice([120, 200, 250])):
                            run.app.send(ep0, side0, 0, 1, with_cb=False)
                        # (the resend of a BEST_EFFORT message is due one keep-alive interval after it was sent)
                        conn0 = c.udp.conn if side0 == "client" else ep0
                        due = int((getattr(conn0, "send_keep_alive_interval", 0.1) + 0.03) / w.dt) + 1
                        staged = (t + max(due, r.randint(7, 10)), side0, r.choice([60, 150, 250]))
                        run.c.inc("resend_plus_fresh_floods")
                if staged is not None:
                    if t == staged[0]:
                        ep0 = c if staged[1] == "client" else run.sconn(c)
                        if ep0 is not None:
                            for _ in range(staged[2]):
                                run.app.send(ep0, staged[1], 0, r.choice([1, 1, -1, 0]), with_cb=False)
                    if t >= staged[0] + 3:
                        w.net.set(c2s=normal["c2s"], s2c=normal["s2c"])
                        staged = None
                    w.step()
                    continue
                for side in ("client", "server"):
                    ep = c if side == "client" else run.sconn(c)
                    if ep is None:
                        continue
                    q = len((c.udp.conn if side == "client" else ep).outgoing_messages)
                    if q > 600:
                        continue
                    if mode < 0.08:
                        k = r.choice([254, 255, 256, 257, 300, 400])       # hundreds of tiny messages in one tick
                        sizes = r.choice([[0], [0], [0, 0, 1, 2, 3], [0, 1]])
                        for _ in range(k):
                            run.app.send(ep, side, r.choice(sizes), r.choice([0, 0, 0, 1, -1]), with_cb=False)
                        run.c.inc("tiny_floods")
                    elif mode < 0.5:
                        for _ in range(r.randint(1, 6)):
                            size = r.choice([0, 1, 2, 3, maxp, maxp - 1, maxp - 2, maxp - 3, maxp // 2, maxp // 2 + 1, maxp // 3, r.randint(0, maxp),
                                             maxp + 1, r.randint(maxp + 1, 3 * maxp),
                                             # a last fragment that just fits / just does not fit a datagram of its own
                                             P.MAX_FRAGMENT_SIZE * r.randint(1, 2) + maxp - r.randint(0, 8),
                                             P.MAX_FRAGMENT_SIZE * r.randint(1, 2) + maxp - r.randint(0, 8)])
                            run.app.send(ep, side, size, r.choice([0, 1, -1]) if size <= maxp else r.choice([0, -1]), with_cb=False)
                    elif mode < 0.7:
                        # pairs that fit together exactly / miss by one
                        a = r.randint(0, maxp - 8)
                        cap = mtu - 28 - 20 - 16
                        b = cap - 10 - a + r.choice([-1, 0, 1])
                        if 0 <= b <= maxp:
                            run.app.send(ep, side, a, 0, with_cb=False)
                            run.app.send(ep, side, b, 0, with_cb=False)
                w.step()
            w.net.heal()
            healed = run.settle([c], min_ticks=30, horizon=40.0)
            # the MTU is changed while the connection is open (documented: lower it when the network drops packets)
            if healed is not None and c05.change_mtu(run, c, r):
                healed = run.settle([c], min_ticks=30, horizon=40.0)
            # --- a backlog longer than half the 16-bit message ring: an application that queues tens of thousands of small unreliable
            #     messages in one go (a replay dump, a map download in chunks); the link is clean - every one of them leaves
            if healed is not None and run.open(c) and P.MTU >= 1200 and cfg.get("big_backlog", True) and (cfg["shard"] + cfg["seed"]) % 4 == 0:
                w.net.heal(0.004)
                side = r.choice(["client", "server"])
                ep = c if side == "client" else run.sconn(c)
                if ep is not None:
                    for _ in range(33100):
                        run.app.send(ep, side, r.choice([11, 11, 12, 14]), 0, with_cb=False)
                    run.c.inc("backlogs_beyond_half_the_message_ring")
                    healed = run.settle([c], min_ticks=30, horizon=60.0)
            T.final_checks(run, [c], healed, horizon=40.0)
            # --- last act: the application closes the connection while resends are due that fill the next datagram to the last byte
            #     (or to the last slot of its count field): whatever is built then still fits
            if w.alive() and run.open(c):
                side = r.choice(["client", "server"])
                ep = c if side == "client" else run.sconn(c)
                conn = c.udp.conn if side == "client" else ep
                if ep is not None and not conn.outgoing_messages:
                    w.net.set(c2s=L.Policy(outage=True), s2c=L.Policy(outage=True))
                    if r.random() < 0.3:
                        for _ in range(255):
                            run.app.send(ep, side, 0, 1, with_cb=False)
                    else:
                        run.app.send(ep, side, max(11, P.MAX_PAYLOAD_SIZE - r.choice([0, 0, 1, 2, 3, 4, 5])), 1, with_cb=False)
                    # (steered so that the close falls into the frame before the resend is due: both are in the next datagram's queue)
                    interval = getattr(conn, "send_keep_alive_interval", 0.1)
                    w.step(2)
                    for _ in range(int(3 * interval / w.dt) + 8):
                        pend = list(conn.pending_retry_msg.values())
                        if pend and all(conn.clock() + 0.9 * w.dt - m.assembled_time >= interval for m in pend):
                            run.c.inc("closes_steered_onto_due_resend")
                            break
                        w.step()
                    (c.udp if side == "client" else ep).disconnect()
                    w.step(12)
                    run.c.inc("closes_with_datagram_filling_resend_due")
            if not w.alive():
                run.report("C09", "server-loop-died", "the server thread died: %s" % (w.thread_errors[:2],))
            for t, err in w.send_errors[:3]:
                run.report("C09", "send-path-raised", "the server's send path raised %s" % err)
            for t, err, origin in c.update_errors[:3]:
                if origin in (None, "honest", "dup"):
                    run.report("C09", "client-update-raised", "UdpClient.update() raised %s" % err)
            total += run.c.get("app_sends", 0)
            out["counters"].inc("mtus_run")
            out["distinct"].add(h64("mtu", mtu))
            if len(out["samples"]) < 2:
                out["samples"].append({"scenario": "packing", "mtu": mtu, "sends": run.c.get("app_sends"), "datagrams": run.c.get("wire_total"),
                                       "max_payload": maxp})
            c05.collect(run, out, PROPS, {"kind": "packing", "mtu": mtu})
    return total


def run_interleaved(cfg, out):
    """another thread calls send() while the connection builds a packet.  The monitor plays that thread: a sys.monitoring LINE
    event inside ConnectionBase._build_packet_impl - a different line of the function at every invocation - runs one whole
    send() on the connection being built (a thread switch at a line boundary, the other thread's send() running to completion,
    is one of the schedules threads can produce).  Nothing that send() accepted may be lost."""
    import sys
    r = rng("C09", cfg["seed"], "interleaved")
    total = 0
    with T.Run(r, mtu=1500, dt=1 / 60) as run:
        w = run.world
        w.net.heal(0.004)
        c = open_connection(run, "interleaved")
        if c is None:
            c05.collect(run, out, PROPS, {"kind": "interleaved"})
            return total
        mon = sys.monitoring
        TOOL = 3
        code = run.tap._orig["build"].__code__
        state = {"conn": None, "line_no": 0, "target": 0, "fired": False, "builds": 0, "injected": 0, "max_lines": 1, "busy": False}
        orig_build = run.C.ConnectionBase._build_packet_impl

        def build(conn, *a, **kw):
            if state["busy"]:
                return orig_build(conn, *a, **kw)
            state.update(conn=conn, line_no=0, fired=False, busy=True)
            state["target"] = state["builds"] % (state["max_lines"] + 1)
            state["builds"] += 1
            try:
                return orig_build(conn, *a, **kw)
            finally:
                state["max_lines"] = max(state["max_lines"], state["line_no"])
                state["busy"] = False
                state["conn"] = None
        run.C.ConnectionBase._build_packet_impl = build

        def on_line(co, line):
            conn = state["conn"]
            if conn is None:
                return
            state["line_no"] += 1
            if not state["fired"] and state["line_no"] >= state["target"]:
                state["fired"] = True
                side = "client" if conn is c.udp.conn else "server"
                ep = c if side == "client" else conn
                if getattr(conn.status, "value", 0) == 2:
                    run.app.send(ep, side, r.choice([0, 11, 40, 700]), r.choice([0, 0, 1, -1]), with_cb=False)
                    state["injected"] += 1
        mon.use_tool_id(TOOL, "verif-c09-interleave")
        mon.register_callback(TOOL, mon.events.LINE, on_line)
        mon.set_local_events(TOOL, code, mon.events.LINE)
        try:
            for t in range(cfg["ticks"]):
                # a backlog of varied messages so that the builder has something to scan
                for side in ("client", "server"):
                    ep = c if side == "client" else run.sconn(c)
                    if ep is not None and len((c.udp.conn if side == "client" else ep).outgoing_messages) < 40:
                        for _ in range(r.randint(0, 5)):
                            run.app.send(ep, side, r.choice([0, 5, 30, 400, 900, 1400]), r.choice([0, 1, -1]), with_cb=False)
                w.step()
        finally:
            mon.set_local_events(TOOL, code, 0)
            mon.register_callback(TOOL, mon.events.LINE, None)
            mon.free_tool_id(TOOL)
            run.C.ConnectionBase._build_packet_impl = orig_build
        out["counters"].inc("interleaved_sends_injected", state["injected"])
        out["counters"].inc("builder_lines_covered_by_injection", state["max_lines"])
        healed = run.settle([c], min_ticks=30, horizon=40.0)
        T.final_checks(run, [c], healed, horizon=40.0)
        total += run.c.get("app_sends", 0)
        out["distinct"].add(h64("interleaved", state["max_lines"]))
        out["samples"].append({"scenario": "interleaved-producer", "builds": state["builds"], "sends_injected_mid_build": state["injected"], "lines_of_the_builder_reached": state["max_lines"]})
        c05.collect(run, out, PROPS, {"kind": "interleaved"})
    return total


def run_shard(cfg):
    out = {"violations": [], "counters": Counter(), "samples": [], "distinct": set()}
    n = run_codec(cfg, out) if cfg["kind"] == "codec" else run_interleaved(cfg, out) if cfg["kind"] == "interleaved" else run_packing(cfg, out)
    return {"evaluations": n, "distinct": sorted(out["distinct"]), "counters": dict(out["counters"]),
            "violations": out["violations"][:60], "samples": out["samples"]}


def finish(tier, seed, results):
    m = merge(results)
    inconclusive = []
    need(m["counters"], ["codec_packets", "codec_form_gcm", "codec_form_crc", "codec_roundtrips_real", "codec_roundtrips_independent",
                         "mtus_run", "wire_checked", "maximality_checked", "roundtrips_checked", "tiny_floods", "resend_plus_fresh_floods", "frame_hitch_count_resends_judged", "frame_hitch_medium_resends_judged", "mtu_changes_on_open_connections", "non_bytes_payload_refused", "interleaved_sends_injected", "worlds_with_unwritable_socket", "worlds_with_timeout_below_resend_interval", "conservation_checked",
                         "packets_built", "handshakes_judged", "handshakes_judged_below_the_default_mtu"], inconclusive)
    cov = {
        "evaluations": m["evaluations"],
        "distinct_nontrivial": m["distinct_nontrivial"],
        "rule": "codec: one evaluation = one generated packet (8 types x counts {0,1,2,3,255,random} x header extremes x CRC/AES form) "
                "encoded by the library and decoded by the library and by the monitor's own decoder; packing: one evaluation = one "
                "application send in a world with one MTU (quick: %r; thorough: every MTU 512..1500) where each tick queues empty "
                "payloads, floods of 254-400 tiny messages, boundary sizes, exact-fit pairs, fragments, in all retry modes; every built "
                "packet is checked for first-fit maximality and capacity, every datagram for the MTU bound, every send for conservation. "
                "distinct = distinct generated packets + distinct MTUs" % (MTUS_QUICK,),
        "exhaustive": tier == "thorough",
        "exhaustive_scope": "MTU values 512..1500 (thorough); everything else is sampled",
        "samples": m["samples"],
        "counters": m["counters"],
    }
    return {"coverage": cov, "inconclusive": inconclusive,
            "assumptions": ["CRC-form decoding is exercised through Packet.from_bytes (the codec); which CRC packets a connection admits is C01's business",
                            "maximality is judged for messages waiting in the send queue (first-fit); resends that are not yet due are not counted"]}
