"""C10 - server handler lifecycle: connect once, then messages, then disconnect once.

The real server loop (lockstep engine) serves up to several dozen real clients that
connect, send, disconnect, go silent, reconnect from the same address (after and
while the old connection exists), while the monitoring handler disconnects clients
from inside connect / handle_message / update, raises (seeded) in every event type,
garbage / duplicated / stale datagrams arrive in between and the server is shut down
at a seeded tick.  The token generator's randomness is an input: a shim for
mpgameserver.context.os replays a seeded byte sequence that repeats tokens in use.

A second mode ("realnet") runs the real ThreadedServer (Twisted reactor thread + server
thread) with real UdpClient sockets on loopback for a few real seconds and applies the
same lifecycle automaton (safety only, no timing verdicts).

Offline checker over the handler's event log: per client object the events match
connect . message* . disconnect, each of connect/disconnect exactly once; connect only
with proof of key and of the token issued to that connection (as C02c: rogue peers that
hold a session key never answer the challenge, or answer it with wrong tokens); every message was minted by that very client; nothing
for objects that never connected; tokens of simultaneously connected objects are
pairwise distinct; one thread id for all events; after shutdown every connected
object has had its disconnect; events keep flowing after a handler exception.
"""
import struct

from mon.core.merge import merge, need
from mon.core.util import Counter, h64, rng
from mon.engines import adversary as A
from mon.engines import lockstep as L

ID = "C10"
LEVEL = "exploration"
SHARD_TIMEOUT = {"quick": 600, "thorough": 3000}


def plan(tier, seed):
    if tier == "quick":
        return [{"tier": tier, "seed": seed, "shard": i, "n": 3, "subprocess": True} for i in range(12)] + [
            {"kind": "realnet", "tier": tier, "seed": seed, "shard": 100, "clients": 6, "seconds": 3.0, "subprocess": True}]
    return [{"tier": tier, "seed": seed, "shard": i, "n": 200, "subprocess": True} for i in range(32)] + [
        {"kind": "realnet", "tier": tier, "seed": seed, "shard": 100 + i, "clients": [4, 8, 16, 32][i % 4], "seconds": 20.0, "subprocess": True} for i in range(8)]


class OsShim(object):
    """stands in for the module `os` inside mpgameserver.context: urandom(4) replays tokens in use"""

    def __init__(self, r, world, counters):
        import os
        self._os = os
        self.r = r
        self.world = world
        self.c = counters
        self.repeat_budget = 0

    def urandom(self, n):
        if n == 4:
            self.c.inc("token_draws")
            live = [c.token for c in list(self.world.ctxt.connections.values()) + list(self.world.ctxt.temp_connections.values()) if c.token]
            if live and self.repeat_budget < 3 and self.r.random() < 0.5:
                self.repeat_budget += 1
                self.c.inc("token_draws_repeating_a_live_token")
                return struct.pack(">L", self.r.choice(live))
            self.repeat_budget = 0
            if self.r.random() < 0.05:
                return bytes(4)
            return self.r.randbytes(4)
        return self._os.urandom(n)

    def __getattr__(self, name):
        return getattr(self._os, name)


def lifecycle_check(log, message_ok, viol, c):
    """the per-client automaton connect . message* . disconnect over a handler event log of
    (event, thread id, t, client object id, addr, token, extra) tuples.  Returns the final state per client."""
    threads = {e[1] for e in log}
    if len(threads) != 1:
        viol("events-on-several-threads", "handler events ran on %d threads" % len(threads))
    if not log or log[0][0] != "starting":
        viol("no-starting-event", "the first handler event is %r" % (log[0][0] if log else None))
    if log and log[-1][0] != "shutdown":
        viol("no-shutdown-event", "the last handler event is %r" % (log[-1][0],))
    state = {}
    live_tokens = {}
    for i, (event, tid, t, cid, addr, token, extra) in enumerate(log):
        if cid is None:
            continue
        st = state.get(cid)
        if event == "connect":
            c.inc("events_connect")
            if st is not None:
                viol("connect-twice", "second connect event for the client object at %s (state %s)" % (addr, st))
            if token in live_tokens.values():
                viol("duplicate-token", "two simultaneously connected clients carry token %r" % (token,))
            live_tokens[cid] = token
            state[cid] = "connected"
        elif event == "message":
            c.inc("events_message")
            if st != "connected":
                viol("message-outside-lifecycle" if st is None else "message-after-disconnect",
                     "message event for the client at %s while its state is %s" % (addr, st))
            if not message_ok(addr, extra):
                viol("foreign-message", "client object at %s was handed a message it did not send" % (addr,))
            else:
                c.inc("messages_attributed_to_their_client")
        elif event == "disconnect":
            c.inc("events_disconnect")
            if st != "connected":
                viol("disconnect-without-connect" if st is None else "disconnect-twice",
                     "disconnect event for the client at %s while its state is %s" % (addr, st))
            state[cid] = "disconnected"
            live_tokens.pop(cid, None)
    for cid, st in state.items():
        if st == "connected":
            viol("no-disconnect-after-shutdown", "a client connected but never got its disconnect (shutdown included)")
        else:
            c.inc("lifecycles_complete")
    return state


def run_realnet(cfg, out):
    """real ThreadedServer (Twisted reactor thread + server thread) and real UdpClient sockets on loopback for a
    few real seconds: safety invariants of the lifecycle only, no timing verdicts"""
    import socket
    import threading
    import time
    import logging
    from mpgameserver import ServerContext, EventHandler, UdpClient
    from mpgameserver.twisted import ThreadedServer
    logging.getLogger("mpgameserver").setLevel(100)
    r = rng("C10", cfg["seed"], "realnet", cfg["shard"])
    c = out["counters"]

    def viol(mech, msg):
        c.inc("viol:" + mech)
        if sum(1 for v in out["violations"] if v["mechanism"] == mech) < 5:
            out["violations"].append({"mechanism": mech, "msg": "[realnet] " + msg, "case_key": ["realnet", cfg["shard"]], "case": {}})
    log = []
    keep = {}
    errors = []
    block = {"arm": False, "entered": None, "left": None}
    old_hook = threading.excepthook
    threading.excepthook = lambda a: errors.append(repr(a.exc_value))

    class H(EventHandler):
        def _rec(self, event, client=None, extra=None):
            if client is not None:
                keep[id(client)] = client
            log.append((event, threading.get_ident(), time.time(), id(client) if client is not None else None,
                        getattr(client, "addr", None), getattr(client, "token", None), extra))

        def starting(self):
            self._rec("starting")

        def shutdown(self):
            self._rec("shutdown")

        def connect(self, client):
            self._rec("connect", client)
            if r.random() < 0.1:
                raise RuntimeError("seeded handler failure in connect")

        def disconnect(self, client):
            self._rec("disconnect", client)

        def update(self, delta_t):
            if block["arm"]:
                # the application is busy inside a handler event for longer than anybody would wait for it - while the owner
                # calls stop() from its own thread
                block["arm"] = False
                block["entered"] = time.time()
                time.sleep(3.6)
                block["left"] = time.time()

        def handle_message(self, client, seqnum, msg=b""):
            self._rec("message", client, (int(seqnum), bytes(msg)))
            client.send(msg)
            if r.random() < 0.02:
                client.disconnect()
            if r.random() < 0.05:
                raise RuntimeError("seeded handler failure in message")

    ctxt = ServerContext(H())
    ctxt.setConnectionTimeout(0.6)
    s = socket.socket(socket.AF_INET, socket.SOCK_DGRAM)
    s.bind(("127.0.0.1", 0))
    port = s.getsockname()[1]
    s.close()
    server = ThreadedServer(ctxt, ("127.0.0.1", port))
    server.start()
    time.sleep(0.4)
    pub = ctxt.server_root_key.getPublicKey()
    n = cfg.get("clients", 6)
    clients = [UdpClient(pub) for _ in range(n)]
    local_port = {}              # client index -> set of local ports it used
    sent_by_port = {}            # local port -> set of payloads
    counters = [0] * n
    silent = set()
    for i, cl in enumerate(clients):
        cl.connect(("127.0.0.1", port))
    # on a loaded machine the first handshakes can take a while: the action phase starts once somebody is connected
    t_wait = time.time() + 20.0
    while time.time() < t_wait and not any(cl.connected() for cl in clients):
        for cl in clients:
            try:
                cl.update()
            except Exception:
                pass
            if cl.conn is not None and getattr(cl.conn.status, "value", 0) == 4:
                cl.forceDisconnect()
                cl.connect(("127.0.0.1", port))
        time.sleep(1 / 200)
    t_end = time.time() + cfg.get("seconds", 3.0)
    while time.time() < t_end:
        for i, cl in enumerate(clients):
            if i in silent:
                continue
            try:
                cl.update()
            except Exception as e:
                c.inc("realnet_client_update_raised")
            if cl.sock is not None:
                try:
                    lp = cl.sock.getsockname()[1]
                except Exception:
                    lp = None
            else:
                lp = None
            x = r.random()
            if x < 0.3:
                if not (cl.connected() and lp):
                    cl.getMessages()
                    continue
                counters[i] += 1
                p = L.make_payload(i + 1, counters[i], r.choice([11, 60, 400, 2000]))
                sent_by_port.setdefault(lp, set()).add(p)
                cl.send(p, retry=r.choice([0, 1, -1]))
                c.inc("realnet_sends")
            elif x < 0.302 and cl.conn is not None:
                cl.disconnect()
                c.inc("realnet_client_disconnects")
            elif x < 0.304:
                # give up the socket and reconnect from a new port
                cl.forceDisconnect()
                cl.connect(("127.0.0.1", port))
                c.inc("realnet_reconnects")
            elif x < 0.3045:
                silent.add(i)
                c.inc("realnet_go_silent")
            cl.getMessages()
        time.sleep(1 / 200)
    time.sleep(0.2)
    if cfg["shard"] % 2 == 0:
        # stop() is called while a handler event keeps the server loop busy for 3.6 s: stop() waits; every event still comes
        # from the server thread
        last = UdpClient(pub)            # somebody is connected when it happens (the idle loop would not call update())
        last.connect(("127.0.0.1", port))
        t_w = time.time() + 3.0
        while time.time() < t_w and not last.connected():
            try:
                last.update()
            except Exception:
                pass
            time.sleep(1 / 200)
        c.inc("realnet_connections_when_stop_is_called", len(ctxt.connections))
        block["arm"] = True
        t_w = time.time() + 2.0
        while block["entered"] is None and time.time() < t_w:
            try:
                last.update()
            except Exception:
                pass
            time.sleep(0.01)
        if block["entered"] is not None:
            c.inc("realnet_stop_during_blocked_handler")
    server.stop()
    threading.excepthook = old_hook
    if errors:
        viol("server-loop-died", "a thread died: %s" % errors[:2])

    def message_ok(addr, extra):
        return extra[1] in sent_by_port.get(addr[1], ())
    lifecycle_check(log, message_ok, viol, c)
    c.inc("realnet_runs")
    c.inc("realnet_events", len(log))
    out["distinct"].add(h64("realnet", cfg["shard"], len(log)))
    out["samples"].append({"scenario": "realnet", "clients": n, "seconds": cfg.get("seconds", 3.0), "events": len(log),
                           "first_events": [(e[0], e[4]) for e in log if e[0] != "update"][:12]})
    return len(log)


class ApplicationError(Exception):
    """an exception class of the application's own"""


class Scenario(object):
    def __init__(self, r, key, out):
        import mpgameserver.context as CTX
        self.CTX = CTX
        self.r = r
        self.key = key
        self.out = out
        self.c = out["counters"]
        # a stream of its own decides about the configuration / exception variants (the worlds themselves stay as they were)
        self.rv = rng("C10", *(list(key) + ["variants"]))
        # the context's access log (ServerContext.enableAccessLogs, a documented configuration) is switched on in half of the worlds
        self.access_log_dir = None
        if self.rv.random() < 0.5:
            import tempfile
            self.access_log_dir = tempfile.mkdtemp(prefix="c10_access_")
            self.c.inc("worlds_with_access_log")
        # a coarse clock (timer granularity of the platform) in half of the worlds: it stands still across some ticks of the loop
        self.coarse_clock = self.rv.random() < 0.5

        def ctxt_setup(ctxt):
            ctxt.setConnectionTimeout(r.choice([0.5, 1.0, 2.0]))
            ctxt.setTempConnectionTimeout(0.5)
            if self.access_log_dir:
                import os as _os
                ctxt.enableAccessLogs(_os.path.join(self.access_log_dir, "access.log"))
        self.w = L.World(r, dt=1 / 60, ctxt_setup=ctxt_setup)
        w = self.w
        self.orig_os = CTX.os
        CTX.os = OsShim(r, w, self.c)
        # when did each server-side connection object last ACCEPT a datagram (first arrival of a genuine one)?
        import mpgameserver.connection as CN
        self.CN = CN
        self.orig_recv = CN.ConnectionBase._recv_datagram
        self.last_accept = {}
        orig_recv, last_accept, clock = self.orig_recv, self.last_accept, w.clock

        def _recv_datagram(conn, hdr, datagram):
            res = orig_recv(conn, hdr, datagram)
            if res and conn.isServer:
                last_accept[id(conn)] = clock.now
            return res
        CN.ConnectionBase._recv_datagram = _recv_datagram
        self.offered = {}
        w.offer_hooks.append(lambda addr, d, origin: self.offered.setdefault(addr, []).append(d))
        self.connected = {}          # id(client obj) -> client obj, currently connected per the log
        self.raise_p = r.choice([0.0, 0.05, 0.2])
        self.raised = Counter()
        self.flow_check = []         # (event index of a raise, server iteration at that time)
        self.pending_after_raise = []    # (event index behind the raising message event, client id, addr, messages waiting behind it)
        h = w.handler
        h.on["connect"] = [self.on_connect]
        h.on["disconnect"] = [self.on_disconnect]
        h.on["message"] = [self.on_message]
        h.on["update"] = [self.on_update]
        h.on["starting"] = [lambda: self.maybe_raise("starting")]
        h.on["shutdown"] = [lambda: self.maybe_raise("shutdown")]
        self.kick = []               # client objects the handler will disconnect from inside update()
        self.junk_inside_tick = []   # (addr, own datagrams) of silent clients: junk offered from inside handler.update()
        self.kick_in_disconnect = [] # client objects the handler will disconnect from inside the NEXT disconnect event
        self.shutdown_in_update = False
        self.handler_shutdown_done = False
        self.violations = []
        w.start()

    def viol(self, mech, msg):
        self.c.inc("viol:" + mech)
        if sum(1 for v in self.out["violations"] if v["mechanism"] == mech) < 5:
            self.out["violations"].append({"mechanism": mech, "msg": msg, "case_key": self.key, "case": {"case": self.key}})

    def maybe_raise(self, event, client=None, current=None):
        if self.r.random() < self.raise_p:
            self.raised.inc(event)
            self.c.inc("handler_raised_in_" + event)
            self.flow_check.append((len(self.w.handler.log), self.w.server_iterations, event))
            if event == "message" and client is not None:
                # the messages of the same datagram the connection has already handed over and that wait behind this one
                inc = list(getattr(client, "incoming_messages", ()) or ())
                at = [i for i, (s_, m_) in enumerate(inc) if int(s_) == int(current[0]) and m_ is current[1]]
                if len(at) == 1:
                    self.pending_after_raise.append((len(self.w.handler.log), id(client), client.addr,
                                                     [(int(s_), m_) for (s_, m_) in inc[at[0] + 1:]]))
            # a family of exceptions: with a text, without any argument, a failing bare assert, arguments that are not text,
            # classes of the application's own
            kind = self.rv.choice(["text", "text", "no-args", "no-args-value", "bare-assert", "key-error-no-args", "non-text-arg",
                                   "own-class-no-args", "own-class-many-args", "none-arg"])
            self.c.inc("handler_raised_kind_" + kind)
            if kind in ("no-args", "no-args-value", "bare-assert", "key-error-no-args", "own-class-no-args"):
                self.c.inc("handler_raised_with_empty_args_in_" + event)
            if kind == "no-args":
                raise RuntimeError()
            if kind == "no-args-value":
                raise ValueError()
            if kind == "bare-assert":
                assert False
            if kind == "key-error-no-args":
                raise KeyError()
            if kind == "non-text-arg":
                raise RuntimeError(self.rv.choice([0, b"\xff\x00", ("%d", "%s"), {}, 1.5]))
            if kind == "own-class-no-args":
                raise ApplicationError()
            if kind == "own-class-many-args":
                raise ApplicationError("seeded %s %d", event, 3)
            if kind == "none-arg":
                raise RuntimeError(None)
            raise RuntimeError("seeded handler failure in %s" % event)

    # ---- the challenge response message (the library's own serialization layer, as C02c)
    def challenge_token(self, payload):
        """the token a CHALLENGE_RESP payload carries; None when it is not a challenge response message"""
        try:
            msg = self.CN.Serializable.loadb(payload)
            if type(msg).__name__ == "HandshakeClientChallengeResponseMessage" and isinstance(msg.token, int):
                return msg.token
        except Exception:
            pass
        return None

    def challenge_payload(self, token):
        m = self.CN.HandshakeClientChallengeResponseMessage()
        m.token = token
        return m.dumpb()

    # ---- handler side behaviour
    def on_connect(self, client):
        w = self.w
        # tokens of simultaneously connected clients must be distinct
        for other in self.connected.values():
            if other is not client and other.token == client.token:
                self.viol("duplicate-token", "two simultaneously connected clients carry token %r (%s and %s)" % (client.token, other.addr, client.addr))
        self.connected[id(client)] = client
        # the handshake is complete once the peer has answered the challenge: proof of key AND of the token the server issued to
        # this very connection (as C02c) - among the datagrams offered from this address so far
        ok = False
        answered_with = []
        for d in self.offered.get(client.addr, []):
            dec = L.decode_datagram(d, client.session_key_bytes)
            if dec.ok and dec.form == "gcm" and dec.ptype == 3 and dec.count == 1:
                tok = self.challenge_token(dec.msgs[0][2])
                if tok is not None and tok == client.token:
                    ok = True
                    break
                answered_with.append(tok)
        if ok:
            self.c.inc("connects_with_proof_of_key_and_token")
            if answered_with:
                self.c.inc("connects_after_wrong_tokens_then_the_right_one")
        elif answered_with:
            self.viol("connect-with-wrong-challenge-token", "connect event for %s (token %r) although every challenge response that opens under its key "
                      "carries another token: %r" % (client.addr, client.token, answered_with[:4]))
        else:
            self.viol("connect-without-handshake", "connect event for %s without a challenge response that opens under its key" % (client.addr,))
        if self.r.random() < 0.1:
            client.disconnect()          # server-initiated disconnect from inside connect
            self.c.inc("server_disconnect_in_connect")
            if self.access_log_dir:
                self.c.inc("server_disconnect_in_connect_with_access_log")
                if self.coarse_clock:
                    self.c.inc("server_disconnect_in_connect_with_access_log_and_coarse_clock")
        elif self.r.random() < 0.3:
            client.send(L.make_payload(0, self.r.randrange(1 << 30), 20))
        elif self.r.random() < 0.4:
            client.send_guaranteed(L.make_payload(0, self.r.randrange(1 << 30), 30))      # a reliable message the peer may never ack
            self.c.inc("server_guaranteed_sends")
        self.maybe_raise("connect")

    def on_disconnect(self, client):
        self.connected.pop(id(client), None)
        for cl in self.kick_in_disconnect:
            if cl is not client:
                cl.disconnect()      # the application closes further clients from inside a disconnect event
                self.c.inc("server_disconnect_in_disconnect")
        self.kick_in_disconnect = []
        self.maybe_raise("disconnect")

    def on_message(self, client, seqnum, msg):
        if self.r.random() < 0.03:
            client.disconnect()
            self.c.inc("server_disconnect_in_message")
        elif self.r.random() < 0.3:
            client.send(msg)
        elif self.r.random() < 0.2:
            client.send_guaranteed(msg)
            self.c.inc("server_guaranteed_sends")
        self.maybe_raise("message", client, (seqnum, msg))

    def on_update(self, dt):
        # datagrams also arrive WHILE a tick is running (the socket thread appends them whenever it likes): junk from the addresses
        # of silent clients is handed to the entry point from here, i.e. after this tick's batch was taken and before its sweep
        for addr, own in self.junk_inside_tick:
            if self.r.random() < 0.95:
                self.w.offer_server(addr, self.r.randbytes(self.r.randint(20, 60)) if self.r.random() < 0.5 else
                                    A.forge_crc("c2s", self.r.choice([1, 4, 6]), self.r.randint(1, 65535), 1, 0, [(1, 6, b"k" * 12)], int(self.w.clock.now)), "random")
                self.c.inc("junk_offered_inside_the_tick")
        for cl in self.kick:
            cl.disconnect()
            self.c.inc("server_disconnect_in_update")
        self.kick = []
        if self.shutdown_in_update:
            self.shutdown_in_update = False
            self.handler_shutdown_done = True
            self.c.inc("shutdown_called_from_handler")
            self.w.ctxt.shutdown()   # the application stops the server from inside a handler event
        self.maybe_raise("update")

    # ---- the run
    def run(self):
        w, r = self.w, self.r
        nmax = r.choice([4, 12, 40])
        addrs = [("10.3.0.%d" % (i + 2), 30000 + i) for i in range(nmax)]
        live = {}                    # addr -> ClientEnd currently driving that address
        sender_of = {}               # sender id -> addr
        silent = []
        junk_for = []
        self.silenced = {}
        self.t_shutdown = None
        shutdown_at = r.randint(150, 900)
        w.net.set(c2s=L.Policy(loss=0.02, dup=0.1, delay=(0.002, 0.03)), s2c=L.Policy(loss=0.02, dup=0.1, delay=(0.002, 0.03)))
        recent = []
        w.wire_hooks.append(lambda direction, addr, d, client, n: recent.append((direction, addr, d)) if direction == "c2s" else None)
        next_sender = [1]
        rogues = []
        blocked_live = []
        ra_in_temp = lambda a: a in w.ctxt.temp_connections
        # peers that complete the hello exchange and DO answer the challenge - with a token the server did not issue to them (a
        # stream of its own decides about them)
        r2 = rng("C10", *(list(self.key) + ["wrong-token-peers"]))
        answerers = []               # [client end, tick of its hello, datagrams sent so far, style, own msgseq base]

        def wrong_token(tok):
            """one member of the family of tokens that are not `tok`"""
            others = [c.udp.conn.token for c in list(live.values()) + [x[0] for x in answerers] + [x[0] for x in rogues]
                      if c.udp.conn is not None and c.udp.conn.token and c.udp.conn.token != tok]
            kind = r2.choice(["plus1", "minus1", "zero", "random32", "random-in-range", "bitflip", "other-live", "wider", "negative", "low-bits"])
            if kind == "other-live" and not others:
                kind = "random-in-range"
            v = {"plus1": tok + 1, "minus1": tok - 1, "zero": 0, "random32": r2.getrandbits(32),
                 "random-in-range": r2.getrandbits(30) | 0x40000000, "bitflip": tok ^ (1 << r2.randrange(32)),
                 "other-live": r2.choice(others) if others else 0, "wider": tok + (1 << 32), "negative": -tok, "low-bits": tok & 0xFFFF}[kind]
            if v == tok:
                v, kind = tok + 1, "plus1"
            return v, kind

        def new_client(addr):
            c = L.ClientEnd(w, addr, next_sender[0] % 250 + 1, pinned=r.random() < 0.8)
            c.sender_id = next_sender[0] % 250 + 1
            sender_of.setdefault(c.sender_id, set()).add(addr)
            next_sender[0] += 1
            old = live.get(addr)
            if old is not None:
                w.remove_client(old)
            w.clients.append(c)
            w.clients_by_addr[addr] = c
            live[addr] = c
            c.connect()
            return c

        for t in range(shutdown_at):
            x = r.random()
            if x < 0.10:
                addr = r.choice(addrs)
                old = live.get(addr)
                if old is None or old.udp.conn is None or getattr(old.udp.conn.status, "value", 0) != 2:
                    new_client(addr)
                    self.c.inc("act_connect")
                elif r.random() < 0.3:
                    # reconnect from the same address WHILE the old connection still exists at the server
                    new_client(addr)
                    self.c.inc("act_reconnect_while_connected")
            elif x < 0.45 and live:
                c = r.choice(list(live.values()))
                if c.udp.conn is not None and getattr(c.udp.conn.status, "value", 0) == 2:
                    for _ in range(r.randint(1, 4)):
                        c.counter += 1
                        c.udp.send(L.make_payload(c.sender_id, c.counter, r.choice([11, 40, 200, 1500, 3000])), retry=r.choice([0, 1, -1]))
                    self.c.inc("act_send")
            elif x < 0.50 and live:
                c = r.choice(list(live.values()))
                if c.udp.conn is not None:
                    c.udp.disconnect()
                    self.c.inc("act_client_disconnect")
            elif x < 0.54 and live:
                c = r.choice(list(live.values()))
                if c.active and c.udp.conn is not None and getattr(c.udp.conn.status, "value", 0) == 2 and c.addr in w.ctxt.connections:
                    sobj = w.ctxt.connections[c.addr]
                    self.silenced[id(sobj)] = (w.clock.now, c.addr)          # server-side object -> when its client fell silent
                    # stale copies: only datagrams of this client that are more than 40 of its datagrams old - a copy the
                    # network lost could otherwise be its legitimate first arrival and refresh the liveness clock rightly
                    last_seq = int(c.udp.conn.seq_sending)
                    old = [d for (dr, ad, d) in recent if ad == c.addr and len(d) >= 20
                           and ((last_seq - L.parse_header(d)[2] + 32767) % 65535 - 32767) > 40]
                    junk_for.append((c.addr, old))
                    if r.random() < 0.8:
                        self.junk_inside_tick.append((c.addr, old))
                c.active = False                     # goes silent: the server must time it out
                silent.append(c)
                self.c.inc("act_go_silent")
            elif x < 0.57 and w.ctxt.connections:
                self.kick.append(r.choice(list(w.ctxt.connections.values())))
            elif x < 0.59 and len(blocked_live) < 2 and live:
                # the operator block-lists the IP address of a client that is connected right now: its datagrams are discarded from
                # here on, the server loop (and only it) ends the session once the silence timeout is over
                bc = r.choice(list(live.values()))
                if bc.addr in w.ctxt.connections and bc.addr[0] not in w.ctxt.blocklist:
                    w.ctxt.setBlockList(set(w.ctxt.blocklist) | {bc.addr[0]})
                    blocked_live.append(bc.addr)
                    self.c.inc("act_blocklist_connected_client")
            elif x < 0.605 and len(rogues) < 6:
                # a rogue peer: the hello exchange gives it a session key, its challenge response never arrives
                ra = ("10.3.9.%d" % (len(rogues) + 2), 31000 + len(rogues))
                rc = L.ClientEnd(w, ra, 251, pinned=True)
                rc.sender_id = 251
                sender_of.setdefault(251, set()).add(ra)
                w.clients.append(rc)
                w.clients_by_addr[ra] = rc
                w.net.filters.append(lambda direction, a, d, info, ra=ra: "drop" if (direction == "c2s" and a == ra and len(d) >= 20 and d[12] == 3) else None)
                rc.connect()
                rogues.append([rc, t, 0])
                self.c.inc("act_rogue_peer")
            elif x < 0.65 and recent:
                # duplicated / stale / garbage datagrams in between
                direction, addr, d = r.choice(recent[-300:])
                kind = r.choice(["dup", "stale", "garbage", "flip", "forged"])
                if kind == "dup":
                    w.net.inject("c2s", addr, d, "dup")
                elif kind == "stale":
                    direction, addr, d = r.choice(recent[:max(1, len(recent) // 2)])
                    w.net.inject("c2s", addr, d, "replay:stale")
                elif kind == "garbage":
                    w.net.inject("c2s", addr, r.randbytes(r.randint(0, 60)), "random")
                elif kind == "flip":
                    b = bytearray(d)
                    b[r.randrange(len(b))] ^= 1 << r.randrange(8)
                    w.net.inject("c2s", addr, bytes(b), "bitflip")
                else:
                    w.net.inject("c2s", addr, A.forge_crc("c2s", r.randint(0, 7), r.randint(1, 65535), 1, 0, [(1, 6, b"x" * 12)], int(w.clock.now)), "forged")
                self.c.inc("act_hostile_datagram")
            if len(answerers) < 6 and r2.random() < 0.02:
                # a peer whose own (correct) challenge response never arrives; what it sends instead is decided below
                ra = ("10.3.8.%d" % (len(answerers) + 2), 32000 + len(answerers))
                rc = L.ClientEnd(w, ra, 252, pinned=True)
                rc.sender_id = 252
                sender_of.setdefault(252, set()).add(ra)
                w.clients.append(rc)
                w.clients_by_addr[ra] = rc
                w.net.filters.append(lambda direction, a, d, info, ra=ra: "drop" if (direction == "c2s" and a == ra and len(d) >= 20 and d[12] == 3) else None)
                rc.connect()
                answerers.append([rc, t, 0, r2.choice(["wrong", "wrong", "wrong-then-right"]), r2.randrange(10, 20000)])
                self.c.inc("act_wrong_token_peer")
            # they hold the session key and the token of the server hello; as soon as they have both they answer the challenge with a
            # well-formed, correctly sealed single CHALLENGE_RESP that carries ANOTHER token (several times, different wrong tokens),
            # send application data and a disconnect as if they had been admitted - and, one style, finally the right token
            for ag in answerers:
                rc, t0, n_sent, style, ms0 = ag
                conn_ = rc.udp.conn
                key_ = conn_.session_key_bytes if conn_ is not None else None
                tok_ = conn_.token if conn_ is not None else None
                if key_ and tok_ and t >= t0 + 2 and n_sent < 8:
                    rc.active = False
                    k = n_sent
                    pl = L.make_payload(252, 1000 * (answerers.index(ag) + 1) + k, r2.choice([11, 30, 200]))
                    in_temp = ra_in_temp(rc.addr)
                    if k in (0, 2, 4):
                        wt, kind = wrong_token(tok_)
                        ptype, msgs = 3, [(ms0 + k, 3, self.challenge_payload(wt))]
                        if in_temp:
                            self.c.inc("wrong_token_challenge_responses")
                            self.c.inc("wrong_token_kind_" + kind)
                    elif k == 5 and style == "wrong-then-right":
                        ptype, msgs = 3, [(ms0 + k, 3, self.challenge_payload(tok_))]
                        if in_temp:
                            self.c.inc("right_token_after_wrong_ones")
                    elif k == 7 and style == "wrong":
                        ptype, msgs = 5, [(ms0 + k, 5, b"")]
                    else:
                        ptype, msgs = 6, [(ms0 + k, 6, pl)]
                    w.net.inject("c2s", rc.addr, A.seal(key_, "c2s", ptype, 3 + k, 1, 0, msgs, int(w.clock.now), count=1), "forged:wrong-token-peer")
                    ag[2] += 1
            # rogue peers seal whatever they like under the key they hold - without ever having answered the challenge
            for rg in rogues:
                rc, t0, n_sent = rg
                key_ = rc.udp.conn.session_key_bytes if rc.udp.conn is not None else None
                if key_ and t >= t0 + 4 and n_sent < 6 and ra_in_temp(rc.addr):
                    rc.active = False
                    k = n_sent
                    pl = L.make_payload(251, 1000 * len(rogues) + k, 30)
                    ptype, msgs = [(3, [(10 + 2 * k, 6, pl), (11 + 2 * k, 5, b"")]), (6, [(10 + 2 * k, 6, pl)]), (3, [(10 + 2 * k, 6, pl)]),
                                   (3, [(10 + 2 * k, 5, b""), (11 + 2 * k, 6, pl)])][k % 4]
                    w.net.inject("c2s", rc.addr, A.seal(key_, "c2s", ptype, 3 + k, 1, 0, msgs, int(w.clock.now), count=len(msgs)), "forged:rogue-keyed-peer")
                    rg[2] += 1
                    self.c.inc("rogue_sealed_datagrams")
            # junk keeps arriving from the addresses of silent clients: garbage, stale copies of their own datagrams, forged
            for addr, own in junk_for:
                if r.random() < 0.6:
                    kind = r.choice(["garbage", "stale", "forged", "flip"])
                    if kind == "stale" and own:
                        w.net.inject("c2s", addr, r.choice(own), "replay:stale")
                    elif kind == "flip" and own:
                        b = bytearray(r.choice(own))
                        b[r.randrange(len(b))] ^= 1 << r.randrange(8)
                        w.net.inject("c2s", addr, bytes(b), "bitflip")
                    elif kind == "forged":
                        w.net.inject("c2s", addr, A.forge_crc("c2s", r.choice([1, 4, 6]), r.randint(1, 65535), 1, 0, [(1, 6, b"j" * 12)], int(w.clock.now)), "forged")
                    else:
                        w.net.inject("c2s", addr, r.randbytes(r.randint(20, 60)), "random")
                    self.c.inc("junk_from_silent_addresses")
            if self.coarse_clock and self.rv.random() < 0.5:
                w.step(dt_override=0.0)      # a tick during which the (non-decreasing) clock reads the same as before
                self.c.inc("ticks_with_the_clock_standing_still")
            else:
                w.step()
            if not w.alive():
                break
            if len(recent) > 3000:
                del recent[:1500]
        alive_before_stop = w.alive()
        self.t_shutdown = w.clock.now
        still = dict(self.connected)
        self.c.inc("connected_at_shutdown", len(still))
        # --- rogue peers that hold a session key (hello exchange done) but never sent a valid challenge: whatever they
        #     seal under that key, the handler must not hear of them
        # --- the last tick: the application closes clients from inside update() and from inside the disconnect event that
        #     follows (clients the sweep has already passed), and the server is shut down in that same tick - by the owner
        #     (stop) or by the handler itself
        conns = list(w.ctxt.connections.values())
        if alive_before_stop and len(conns) >= 2 and r.random() < 0.7:
            self.kick.append(conns[-1])
            self.kick_in_disconnect = conns[:r.randint(1, len(conns) - 1)]
            self.c.inc("last_tick_kick_chains")
            if r.random() < 0.4:
                self.shutdown_in_update = True
                w.step()
                alive_before_stop = self.handler_shutdown_done and not w.thread_errors
        w.stop()
        self.check_log(alive_before_stop, sender_of)
        return shutdown_at

    def check_log(self, alive, sender_of):
        w = self.w
        log = w.handler.log
        if not alive or w.thread_errors:
            self.viol("server-loop-died", "the server thread died: %s" % (w.thread_errors[:2],))
        threads = {e[1] for e in log}
        if len(threads) != 1:
            self.viol("events-on-several-threads", "handler events ran on %d threads" % len(threads))
        if not log or log[0][0] != "starting":
            self.viol("no-starting-event", "the first handler event is %r" % (log[0][0] if log else None))
        if log and log[-1][0] != "shutdown":
            self.viol("no-shutdown-event", "the last handler event is %r" % (log[-1][0],))
        state = {}                   # id(client) -> "connected" | "disconnected"
        per = {}
        for i, (event, tid, t, cid, addr, token, extra) in enumerate(log):
            if cid is None:
                continue
            per.setdefault(cid, []).append(event)
            st = state.get(cid)
            if event == "connect":
                self.c.inc("events_connect")
                if st is not None:
                    self.viol("connect-twice", "second connect event for the client object at %s (state %s)" % (addr, st))
                state[cid] = "connected"
            elif event == "message":
                self.c.inc("events_message")
                if st != "connected":
                    self.viol("message-outside-lifecycle" if st is None else "message-after-disconnect",
                              "message event for the client at %s while its state is %s" % (addr, st))
                pid = L.payload_id(extra[1])
                if pid is None or addr not in sender_of.get(pid[0], ()):
                    self.viol("foreign-message", "client object at %s was handed a message minted by sender %r" % (addr, pid))
                else:
                    self.c.inc("messages_attributed_to_their_client")
            elif event == "disconnect":
                self.c.inc("events_disconnect")
                if st != "connected":
                    self.viol("disconnect-without-connect" if st is None else "disconnect-twice",
                              "disconnect event for the client at %s while its state is %s" % (addr, st))
                state[cid] = "disconnected"
        for cid, st in state.items():
            if st == "connected":
                cl = w.handler.clients.get(cid)
                self.viol("no-disconnect-after-shutdown", "client at %s connected but never got its disconnect (shutdown included)" % (getattr(cl, "addr", None),))
            else:
                self.c.inc("lifecycles_complete")
        # silence is detected in time although junk keeps arriving from the silent client's address
        timeout = w.ctxt.connection_timeout
        for cid, (t_silent, addr) in self.silenced.items():
            disc = [e[2] for e in log if e[0] == "disconnect" and e[3] == cid]
            # reference: the last datagram this connection ACCEPTED (a copy the network had lost can still be a legitimate
            # first arrival after the client fell silent); junk - rejected datagrams - must not postpone the timeout
            t_ref = max(t_silent, self.last_accept.get(cid, t_silent))
            deadline = t_ref + timeout + 3 * w.dt
            if self.t_shutdown is not None and deadline >= self.t_shutdown:
                self.c.inc("silence_deadline_after_shutdown_not_judged")
                continue
            self.c.inc("silence_timeouts_checked")
            if not disc or disc[0] > deadline + 1e-6:
                self.viol("silent-client-not-timed-out", "client at %s fell silent at t=%.3f (timeout %.2f) but its disconnect came %s although only junk arrived from its address" % (
                    addr, t_silent - L.EPOCH, timeout, ("%.3fs later" % (disc[0] - t_silent)) if disc else "never (before shutdown)"))
        # events keep flowing after a handler exception: the loop must have produced later events / iterations
        for idx, iteration, event in self.flow_check:
            if event in ("shutdown",):
                continue
            later = len(log) > idx
            if not later and w.server_iterations <= iteration:
                self.viol("events-stop-after-handler-exception", "no handler event after the exception raised in %s" % event)
            else:
                self.c.inc("flow_after_exception_checked")
        # ... also within one datagram: the messages that waited behind a message whose handler raised are the very next events
        for idx, cid, addr, waiting in self.pending_after_raise:
            if not waiting:
                self.c.inc("raises_in_the_last_message_of_a_datagram")
                continue
            self.c.inc("raises_with_messages_waiting_behind_checked")
            got = [(e[0], e[3], e[6]) for e in log[idx:idx + len(waiting)]]
            want = [("message", cid, (s_, m_)) for (s_, m_) in waiting]
            if [(g[0], g[1], g[2][0] if g[0] == "message" else None, bytes(g[2][1]) if g[0] == "message" else None) for g in got] != \
                    [(x[0], x[1], x[2][0], bytes(x[2][1])) for x in want]:
                self.viol("messages-dropped-after-handler-exception", "the handler raised in a message event of the client at %s while %d more "
                          "messages of the same datagram waited behind it (seqnums %r): the events that followed are %r" % (
                              addr, len(waiting), [x[0] for x in waiting], [(g[0], g[2][0] if g[0] == "message" else None) for g in got]))
        self.out["distinct"].add(h64(self.key, len(log)))
        if len(self.out["samples"]) < 2:
            brief = [(e[0], e[4]) for e in log if e[0] != "update"][:30]
            self.out["samples"].append({"case": self.key, "events": len(log), "first_events": brief, "raised": dict(self.raised)})

    def close(self):
        self.CTX.os = self.orig_os
        self.CN.ConnectionBase._recv_datagram = self.orig_recv
        try:
            self.w.stop()
        except Exception:
            pass
        if self.access_log_dir:
            import logging
            import shutil
            lg = logging.getLogger("mpgameserver.AccessLog")
            for hd in list(lg.handlers):
                lg.removeHandler(hd)
                try:
                    hd.close()
                except Exception:
                    pass
            shutil.rmtree(self.access_log_dir, ignore_errors=True)


def run_shard(cfg):
    out = {"violations": [], "counters": Counter(), "samples": [], "distinct": set()}
    n = 0
    if cfg.get("kind") == "realnet":
        run_realnet(cfg, out)
        cfg = dict(cfg, n=0)
    for case in range(cfg["n"]):
        key = [cfg["seed"], cfg["shard"], case]
        if cfg.get("only_case") and cfg["only_case"] != key:
            continue
        S = Scenario(rng("C10", *key), key, out)
        try:
            n += S.run()
            out["counters"].inc("worlds")
        finally:
            S.close()
    return {"evaluations": int(out["counters"].get("events_connect", 0) + out["counters"].get("events_message", 0) + out["counters"].get("events_disconnect", 0)),
            "distinct": sorted(out["distinct"]), "counters": dict(out["counters"]), "violations": out["violations"], "samples": out["samples"]}


def finish(tier, seed, results):
    m = merge(results)
    inconclusive = []
    need(m["counters"], ["events_connect", "events_message", "events_disconnect", "lifecycles_complete", "act_reconnect_while_connected",
                         "act_go_silent", "act_client_disconnect", "server_disconnect_in_connect", "server_disconnect_in_message",
                         "server_disconnect_in_update", "token_draws_repeating_a_live_token", "handler_raised_in_connect",
                         "handler_raised_in_message", "handler_raised_in_update", "handler_raised_in_disconnect", "connected_at_shutdown",
                         "flow_after_exception_checked", "messages_attributed_to_their_client", "act_hostile_datagram", "realnet_runs",
                         "realnet_sends", "realnet_stop_during_blocked_handler", "silence_timeouts_checked", "junk_from_silent_addresses", "rogue_sealed_datagrams", "junk_offered_inside_the_tick", "server_guaranteed_sends", "act_blocklist_connected_client", "last_tick_kick_chains",
                         "server_disconnect_in_disconnect", "shutdown_called_from_handler", "wrong_token_challenge_responses",
                         "connects_with_proof_of_key_and_token", "server_disconnect_in_connect_with_access_log",
                         "server_disconnect_in_connect_with_access_log_and_coarse_clock", "ticks_with_the_clock_standing_still",
                         "handler_raised_with_empty_args_in_message", "raises_with_messages_waiting_behind_checked"], inconclusive)
    cov = {
        "evaluations": m["evaluations"],
        "distinct_nontrivial": m["distinct_nontrivial"],
        "rule": "one evaluation = one connect/message/disconnect handler event judged against the per-client lifecycle automaton; worlds of up "
                "to 4/12/40 client addresses with seeded actions per tick (connect, send, client disconnect, go silent, reconnect from the "
                "same address while connected, server-side disconnect inside connect/message/update, hostile datagrams), seeded handler "
                "exceptions in every event type (with a text, without arguments, bare assert, non-text arguments, own classes; the messages "
                "of the same datagram that wait behind a raising message event are the next events), the context's access log enabled in half of the worlds, a coarse clock that stands still across half of the ticks in half of the worlds, token draws that repeat live tokens, shutdown at a seeded tick; rogue peers that hold a session "
                "key but never answered the challenge and seal APP / CHALLENGE_RESP-typed multi-message datagrams; peers that hold a session key and answer the challenge with a "
                "well-formed, sealed single CHALLENGE_RESP carrying a token the server did not issue to them (token+-1, 0, random, bit flip, "
                "another live peer's token, wider / negative / truncated values), then APP and DISCONNECT datagrams, one style finally the right "
                "token - a connect needs a challenge response under the connection's key WITH its token; on the last tick the handler "
                "closes clients from inside update() and from inside the following disconnect event while the server is shut down by its owner "
                "or by the handler itself. distinct = distinct worlds",
        "samples": m["samples"],
        "counters": m["counters"],
    }
    return {"coverage": cov, "inconclusive": inconclusive,
            "assumptions": ["strict alternation of driver and server loop (lockstep): handler events are observed in the order the loop produces them",
                            "the token generator's byte source is replaced by a seeded sequence (bounded repeats, then fresh values)"]}
