"""C11 - hostile datagrams cannot stop the server, hurt other clients or be amplified.

Through the real TwistedServer.datagramReceived (lockstep engine): random byte
strings of every length 0..RECV_SIZE, valid headers of every type with garbage /
truncated / oversized bodies, towards new addresses, half-open addresses and spoofed
from the honest client's address; hello floods from thousands of addresses;
undersized hellos; hostile but authenticated clients flooding an echo handler;
several block lists and MTUs.  Monitors:
  liveness       the server thread is alive and its tick counter advances
  service        an honest echo client gets every request echoed within a bound
  amplification  per address, at the mock transport: while the address has not
                 completed the handshake, bytes_out <= bytes_in at all times
  block list     for block-listed IPs: bytes_out == 0, thread.append never called,
                 no connection object created
  half-open      len(temp_connections) bounded by the hellos of the last timeout
  conservation   offered = block-listed + header-rejected + appended, and
                 appended = consumed - also in a free-running mode with many real
                 producer threads (the lock discipline of UdpServerThread.queue)
"""
import struct
import threading
import time as _time

from mon.core.merge import merge, need
from mon.core.util import Counter, h64, rng
from mon.engines import adversary as A
from mon.engines import lockstep as L
from mon.engines import traffic as T

ID = "C11"
LEVEL = "fault_enumeration"
SHARD_TIMEOUT = {"quick": 600, "thorough": 3000}


def plan(tier, seed):
    shards = []
    mtus = [1500, 1500, 576, 1200, 512, 1500, 1000, 1500]
    n = 8 if tier == "quick" else 32
    for i in range(n):
        shards.append({"kind": "attack", "tier": tier, "seed": seed, "shard": i, "mtu": mtus[i % len(mtus)],
                       "ticks": 500 if tier == "quick" else 5000, "subprocess": True})
    for i in range(2 if tier == "quick" else 8):
        shards.append({"kind": "freerun", "tier": tier, "seed": seed, "shard": i, "producers": 6,
                       "per_producer": 4000 if tier == "quick" else 60000, "subprocess": True})
    return shards


def valid_hello(world, r):
    """a well-formed CLIENT_HELLO datagram as a fresh real client would send it (captured from a real client object)"""
    from mpgameserver.connection import ClientServerConnection
    conn = ClientServerConnection(L.SERVER_ADDR)
    conn._sendClientHello()
    pkt = conn._build_packet()
    return conn._encode_packet(pkt)


def run_attack(cfg, out):
    r = rng("C11", cfg["seed"], cfg["shard"])
    blocked_ips = {"10.66.0.%d" % i for i in range(1, 6)} if cfg["shard"] % 2 == 0 else {"10.66.1.1"}
    # IPv6 sources (Twisted hands datagramReceived a (host, port) pair for those too)
    blocked_ips |= {"2001:db8::bad:1", "::1", "::ffff:10.66.9.9"} if cfg["shard"] % 3 != 1 else {"fe80::66"}
    c = out["counters"]

    def viol(mech, msg):
        c.inc("viol:" + mech)
        if sum(1 for v in out["violations"] if v["mechanism"] == mech) < 5:
            out["violations"].append({"mechanism": mech, "msg": msg, "case_key": [cfg["seed"], cfg["shard"]], "case": {"shard": cfg["shard"]}})

    with T.Run(r, mtu=cfg["mtu"], blocklist=set(blocked_ips), bitfield=False, light=True, blocklist_after_construction=(cfg["shard"] % 4 < 2),
               ctxt_setup=lambda ctxt: ctxt.setTempConnectionTimeout(r.choice([0.5, 2.0]))) as run:
        w = run.world
        P = run.C.Packet
        w.net.heal(0.002)
        # ---- byte accounting at the socket boundary
        bytes_in, bytes_out, promoted = Counter(), Counter(), set()
        ended = {}        # addr -> (bytes_in, bytes_out) at the moment its session was gone from the server's tables
        w.handler.on["connect"] = [lambda client: (promoted.add(client.addr), ended.pop(client.addr, None))]
        w.handler.on["message"] = [lambda client, seqnum, msg: client.send(msg)]          # echo service
        appended = [0]
        orig_append = w.thread.append

        def append(addr, hdr, datagram):
            appended[0] += 1
            if addr[0] in blocked_ips:
                viol("blocklisted-datagram-processed", "thread.append called for block-listed address %s" % (addr,))
            return orig_append(addr, hdr, datagram)
        w.thread.append = append
        offered = Counter()

        def before_offer(addr, d, origin):
            bytes_in.inc(addr, len(d))
            offered.inc("all")
            if addr[0] in blocked_ips:
                offered.inc("blocklisted")
            else:
                try:
                    from mpgameserver.connection import PacketHeader
                    h = L.parse_header(d)
                    ok = h is not None and h[0] == b"FSOS" and 0 <= h[4] <= 7
                except Exception:
                    ok = False
                offered.inc("header_ok" if ok else "header_bad")
                if ok and h[4] == 1:
                    recent_hellos.append((w.clock.now, addr))        # anything typed CLIENT_HELLO may open a half-open entry
        recent_hellos = []
        w.offer_hooks.append(before_offer)

        def on_wire(direction, addr, d, client, n):
            if direction != "s2c":
                return
            bytes_out.inc(addr, len(d))
            if addr[0] in blocked_ips:
                viol("reply-to-blocklisted-address", "%d bytes sent to block-listed %s" % (len(d), addr))
            elif addr not in promoted and bytes_out[addr] > bytes_in.get(addr, 0):
                viol("amplification", "address %s has not completed the handshake: %d bytes sent to it, %d received from it" % (
                    addr, bytes_out[addr], bytes_in.get(addr, 0)))
            if addr in ended:
                # the session of this address is over (it is neither connected nor connecting any more): its completed handshake
                # belongs to the past; from here on it is an address without a handshake like any other
                post_in, post_out = bytes_in.get(addr, 0) - ended[addr][0], bytes_out[addr] - ended[addr][1]
                c.inc("bytes_to_former_session_addresses", len(d))
                if post_out > post_in:
                    viol("amplification-after-session-end", "address %s: its session ended and it has not completed a new handshake: since then "
                         "%d bytes sent to it (last datagram %d bytes), %d received from it" % (addr, post_out, len(d), post_in))
            if addr not in promoted:
                c.inc("bytes_to_unauthenticated_addresses", len(d))
        w.wire_hooks.append(on_wire)

        honest = w.connect_client()
        honest.updates_per_step = 2
        pending_echo = {}
        echo_n = [0]
        echo_late = [0]

        def on_deliver(side, endpoint, seqnum, payload):
            if side == "client" and endpoint is honest:
                pid = L.payload_id(bytes(payload))
                if pid in pending_echo:
                    lat = w.ticks - pending_echo.pop(pid)
                    c.inc("echoes_received")
                    out["max_echo_ticks"] = max(out.get("max_echo_ticks", 0), lat)
        w.deliver_hooks.append(on_deliver)

        hello = valid_hello(w, r)
        hello_n = [0]
        half_open = []
        max_temp = 0
        rogue = None
        iter0 = w.server_iterations
        recv_size = P.RECV_SIZE
        # ---- a self-consistent short hello (valid CRC, valid key and version, padding cut off) of EVERY length, each from its own
        #      address: whatever the server makes of it, it never sends back more than it got
        def short_hello(cut):
            h = L.parse_header(hello)
            body = hello[20:cut - 4]
            hdr = struct.pack(">4sLHHBHBL", h[0], h[1], h[2], h[3], h[4], len(body), h[6], h[7])
            return hdr + body + A.crc(hdr + body)
        for k, cut in enumerate(range(25 + cfg["shard"] % 2, len(hello), 2)):
            w.offer_server(("10.12.%d.%d" % (k >> 8, k & 255), 11), short_hello(cut), "hello-undersized")
            c.inc("inj_hello_every_length")
            if k % 8 == 7:
                w.step()
        w.step(3)
        for t in range(cfg["ticks"]):
            # the honest client keeps asking
            if t % 5 == 0 and honest.udp.conn is not None and getattr(honest.udp.conn.status, "value", 0) == 2:
                echo_n[0] += 1
                p = L.make_payload(honest.sender_id, echo_n[0], r.choice([16, 200, 1000]))
                pending_echo[L.payload_id(p)] = w.ticks
                honest.udp.send(p, retry=0)
                c.inc("echo_requests")
            # ---- hostile input of this tick
            for _ in range(r.randint(1, 12)):
                x = r.random()
                if x < 0.2:
                    ln = (t * 13 + _ * 101) % (recv_size + 1)            # every length 0..RECV_SIZE over time
                    addr = r.choice([("10.7.%d.%d" % (r.randrange(256), r.randrange(256)), r.randint(1, 65535)), honest.addr])
                    w.offer_server(addr, r.randbytes(ln), "random")
                    c.inc("inj_random_bytes")
                elif x < 0.4:
                    for label, d in A.random_datagrams(r, "c2s", 4, recv_size):
                        addr = r.choice([("10.8.%d.%d" % (r.randrange(256), r.randrange(256)), 9), honest.addr] + half_open[-5:])
                        w.offer_server(addr, d, label)
                        c.inc("inj_" + label)
                elif x < 0.6:
                    # hello flood from fresh addresses (real, full-size hellos): each may be answered once
                    hello_n[0] += 1
                    addr = ("10.9.%d.%d" % ((hello_n[0] >> 8) & 255, hello_n[0] & 255), 1000 + (hello_n[0] >> 16))
                    if r.random() < 0.35:
                        # ... or from the honest client's own IP address, other ports (a NAT neighbour, or spoofed): bursts of them
                        addr = (honest.addr[0], 20000 + hello_n[0] % 30000)
                        c.inc("inj_hello_flood_from_honest_ip")
                    w.offer_server(addr, hello, "hello-flood")
                    half_open.append(addr)
                    c.inc("inj_hello_flood")
                    if r.random() < 0.3:
                        w.offer_server(addr, hello, "hello-repeat")          # repeated hello from a half-open address
                        c.inc("inj_hello_repeat")
                elif x < 0.7:
                    # undersized / truncated hellos: must not be answered at all
                    cut = r.choice([20, 24, 60, 200, len(hello) // 2, len(hello) - 5, len(hello) - 1, r.randrange(24, len(hello)), r.randrange(24, len(hello))])
                    d = hello[:cut]
                    if r.random() < 0.5 and cut > 24:
                        h = L.parse_header(d)
                        body = d[20:cut - 4]
                        hdr = struct.pack(">4sLHHBHBL", h[0], h[1], h[2], h[3], h[4], len(body), h[6], h[7])
                        d = hdr + body + A.crc(hdr + body)             # short but self-consistent (valid CRC)
                    addr = ("10.10.%d.%d" % (r.randrange(256), r.randrange(256)), 7)
                    w.offer_server(addr, d, "hello-undersized")
                    c.inc("inj_hello_undersized")
                elif x < 0.8:
                    addr = (r.choice(sorted(blocked_ips)), r.randint(1, 65535))
                    w.offer_server(addr, r.choice([hello, r.randbytes(40), hello[:100]]), "from-blocklisted")
                    c.inc("inj_from_blocklisted")
                elif x < 0.9:
                    # spoofed from the honest client's address: forged, truncated and oversized variants
                    d = r.choice([A.forge_crc("c2s", r.randint(0, 7), r.randint(1, 65535), 1, 0xFFFFFFFF, [(1, 6, b"x" * 20)], int(w.clock.now)),
                                  hello, hello + r.randbytes(400), A.header("c2s", 0, 1, 1, 6, 65535, 255, 0) + r.randbytes(30)])
                    w.offer_server(honest.addr, d, "spoofed-from-honest")
                    c.inc("inj_spoofed_from_honest")
                else:
                    # a hostile but authenticated client floods the echo handler
                    if rogue is None or rogue.udp.conn is None or getattr(rogue.udp.conn.status, "value", 0) != 2:
                        if rogue is None:
                            rogue = w.add_client()
                            rogue.updates_per_step = 1
                            rogue.connect()
                    else:
                        for _k in range(r.choice([50, 200, 400])):
                            rogue.udp.send(L.make_payload(rogue.sender_id, r.randrange(1 << 30), r.choice([11, 12, 64])), retry=0)
                        c.inc("inj_authenticated_flood")
                        if r.random() < 0.25:
                            # ... and authenticated but malformed: well-sealed datagrams no honest implementation would build
                            # (a DISCONNECT followed by a 3-byte fragment, fragments with index 0 / count 0 / index > count,
                            # a keep-alive with a body, count 0, a second DISCONNECT).  The session is the rogue's to lose; the loop
                            # and everybody else carry on
                            key_ = rogue.udp.conn.session_key_bytes
                            sq = (int(rogue.udp.conn.seq_sending) + 200 + hello_n[0] % 1000) % 65535 + 1
                            ms = (int(rogue.udp.conn.seq_message) + 2000) % 65535 + 1
                            fr = lambda fid, idx, cnt, data=b"z" * 9: struct.pack(">HHH", fid, idx, cnt) + data
                            weird = [(6, [(ms, 5, b""), (ms + 1, 7, b"abc")]), (7, [(ms, 7, fr(3, 0, 2))]), (7, [(ms, 7, fr(4, 1, 0))]), (7, [(ms, 7, fr(5, 3, 2))]),
                                     (7, [(ms, 7, b"ab")]), (4, [(ms, 4, b"body-in-keep-alive")]), (6, []), (6, [(ms, 5, b""), (ms + 1, 5, b"")]),
                                     (6, [(ms, 7, fr(6, 1, 65535)), (ms + 1, 6, b"x" * 20)]), (6, [(ms, 0, b"unknown-type")]), (6, [(ms, 3, bytes(8))]), (6, [(ms, 1, bytes(60))])]
                            ptype_, msgs_ = r.choice(weird)
                            w.offer_server(rogue.addr, A.seal(key_, "c2s", ptype_, sq, 1, 0, msgs_, int(w.clock.now), count=len(msgs_)), "forged:authenticated-malformed")
                            c.inc("inj_authenticated_malformed")
            w.step()
            if not w.alive():
                viol("server-loop-died", "the server thread died: %s" % (w.thread_errors[:2],))
                break
            # half-open table bounded by the hellos of the last timeout
            horizon = w.ctxt.temp_connection_timeout + 3 * w.dt
            recent_hellos[:] = [(tt, a) for tt, a in recent_hellos if w.clock.now - tt <= horizon]
            nt = len(w.ctxt.temp_connections)
            max_temp = max(max_temp, nt)
            if nt > len(recent_hellos) + 2:
                viol("half-open-table-unbounded", "%d half-open connections but only %d hellos in the last %.2fs" % (nt, len(recent_hellos), horizon))
            for a in list(w.ctxt.temp_connections) + list(w.ctxt.connections):
                if a[0] in blocked_ips:
                    viol("connection-object-for-blocklisted-address", "a connection object exists for block-listed %s" % (a,))
            # the echo service keeps working: nothing may be outstanding for long
            late = [k for k, t0 in pending_echo.items() if w.ticks - t0 > 60]
            for k in late:
                pending_echo.pop(k)
                echo_late[0] += 1
        # ---- address HISTORY: a client completes a session and is then removed (client disconnect / server-side kick / timeout);
        #      within the next seconds short datagrams with a valid header (every type, every length 20..RECV-ish, mostly 20-25) are
        #      spoofed from exactly that address.  After the session's end the address is unauthenticated again
        for mode in ([cfg["shard"] % 3, (cfg["shard"] + 1) % 3] if w.alive() else []):
            cl = w.connect_client()
            if cl.udp.conn is None or getattr(cl.udp.conn.status, "value", 0) != 2 or cl.addr not in w.ctxt.connections:
                c.inc("former_session_connect_failed")
                continue
            p = L.make_payload(cl.sender_id, 1, 40)
            cl.udp.send(p, retry=0)
            w.step(r.randint(3, 20))
            if mode == 0:
                cl.udp.disconnect()
            elif mode == 1:
                w.ctxt.connections[cl.addr].disconnect()
            else:
                cl.active = False                                    # the client falls silent: connection timeout at the server
            gone = w.run_until(lambda world: cl.addr not in world.ctxt.connections and cl.addr not in world.ctxt.temp_connections,
                               max_ticks=int((w.ctxt.connection_timeout + 3.0) / w.dt))
            if not gone:
                c.inc("former_session_not_removed")
                continue
            cl.active = False
            w.step(r.randint(2, 4))                                   # the final datagrams of the session are on the wire by now
            w.remove_client(cl)
            ended[cl.addr] = (bytes_in.get(cl.addr, 0), bytes_out.get(cl.addr, 0))
            c.inc("former_sessions_ended")
            c.inc("former_sessions_ended_by_" + ["client_disconnect", "server_kick", "timeout"][mode])
            types = [0, 3, 4, 5, 6, 7]
            r.shuffle(types)
            k = 0
            for burst in range(6):
                for _ in range(r.randint(3, 8)):
                    ptype = types[k % len(types)]
                    ln = r.choice([20, 21, 22, 23, 24, 25, 20 + k % 6, r.randint(20, 64)])
                    k += 1
                    nbody = ln - 20
                    d = A.header("c2s", int(w.clock.now), r.randint(1, 65535), r.randint(0, 65535), ptype,
                                 r.choice([0, nbody, max(0, nbody - 4), 24]), r.choice([0, 1, 2]), r.choice([0, 0xFFFFFFFF])) + r.randbytes(nbody)
                    if nbody >= 4 and r.random() < 0.3:
                        d = d[:-4] + A.crc(d[:-4])
                    w.offer_server(cl.addr, d, "former-session-short")
                    c.inc("inj_former_session_short")
                w.step(r.randint(1, 30))
                if not w.alive():
                    viol("server-loop-died", "the server thread died: %s" % (w.thread_errors[:2],))
                    break
            c.inc("former_session_bytes_in", bytes_in.get(cl.addr, 0) - ended[cl.addr][0])
        # ---- more junk in ONE tick than any plausible queue bound, tick after tick, each batch arriving right behind the honest
        #      client's datagrams of that tick (well-formed headers from unknown addresses: they get as far as the loop's queue)
        if w.alive() and (cfg["shard"] % 4 == 3 or cfg.get("tier") != "quick"):
            junk = [A.header("c2s", int(w.clock.now), k * 97 % 65535 + 1, 1, 6, 24, 1, 0) + r.randbytes(40) for k in range(64)]

            def batch(world):
                for k in range(4500):
                    world.offer_server(("10.13.%d.%d" % ((k >> 8) & 255, k & 255), 13), junk[k & 63], "random")
                c.inc("inj_big_batches")
                c.inc("inj_random_bytes", 4500)
            for t in range(15):
                if t % 3 == 0 and honest.udp.conn is not None and getattr(honest.udp.conn.status, "value", 0) == 2:
                    echo_n[0] += 1
                    p = L.make_payload(honest.sender_id, echo_n[0], r.choice([16, 200, 1000]))
                    pending_echo[L.payload_id(p)] = w.ticks
                    honest.udp.send(p, retry=0)
                    c.inc("echo_requests")
                w.step(actions=batch)
                if not w.alive():
                    viol("server-loop-died", "the server thread died: %s" % (w.thread_errors[:2],))
                    break
            w.step(62)
            for k in [k for k, t0 in pending_echo.items() if w.ticks - t0 > 60]:
                pending_echo.pop(k)
                echo_late[0] += 1
        w.step(30)
        c.inc("server_iterations", w.server_iterations - iter0)
        if w.server_iterations - iter0 < cfg["ticks"] * 0.9:
            viol("server-loop-stalled", "the loop advanced %d iterations in %d ticks" % (w.server_iterations - iter0, cfg["ticks"]))
        if echo_late[0]:
            viol("service-disturbed", "%d of %d echo requests of the honest client were not answered within 60 ticks during the attack" % (
                echo_late[0], echo_n[0]))
        if getattr(honest.udp.conn.status, "value", 0) != 2 or honest.addr not in w.ctxt.connections:
            viol("honest-client-dropped", "the honest client lost its connection during the attack (status %s)" % honest.udp.conn.status)
        # conservation at the entry point
        if offered["all"] != offered["blocklisted"] + offered["header_ok"] + offered["header_bad"]:
            viol("harness-accounting", "offered accounting inconsistent")
        honest_appended = appended[0]
        c.inc("offered_total", offered["all"])
        c.inc("offered_blocklisted", offered["blocklisted"])
        c.inc("appended", appended[0])
        c.inc("max_half_open", max_temp)
        c.inc("log_exceptions_caught_by_server", len(w.logs.exceptions))
        c.merge({k: v for k, v in run.c.items() if k.startswith("wire_") or k.startswith("delivered")})
        out["distinct"].add(h64("attack", cfg["shard"]))
        if len(out["samples"]) < 1:
            out["samples"].append({"scenario": "attack", "mtu": cfg["mtu"], "blocklist": sorted(blocked_ips), "ticks": cfg["ticks"],
                                   "offered": dict(offered), "appended": appended[0], "max_half_open": max_temp,
                                   "echo": {"requests": echo_n[0], "late": echo_late[0], "max_ticks": out.get("max_echo_ticks")},
                                   "caught_exceptions_sample": w.logs.exceptions[:3]})
    return offered["all"]


def run_freerun(cfg, out):
    """real threads: N producers call datagramReceived concurrently with the running loop"""
    import sys
    from mpgameserver import ServerContext, EventHandler
    from mpgameserver.twisted import TwistedServer
    import logging
    logging.getLogger("mpgameserver").setLevel(100)
    r = rng("C11", cfg["seed"], "freerun", cfg["shard"])
    c = out["counters"]
    old_switch = sys.getswitchinterval()
    sys.setswitchinterval(1e-6)
    errors = []
    old_hook = threading.excepthook
    threading.excepthook = lambda args: errors.append(repr(args.exc_value))
    tids = set()

    class H(EventHandler):
        def update(self, dt):
            tids.add(threading.get_ident())

    ctxt = ServerContext(H())
    ctxt.setInterval(1 / 2000)
    ctxt.setBlockList({"10.66.0.1"})
    srv = TwistedServer(ctxt, L.SERVER_ADDR, install_signals=False)

    class Tr(object):
        def write(self, d, addr):
            pass
    srv.transport = Tr()
    srv.thread.send = lambda seq: srv.sendPacketsUnsafe(seq)
    th = srv.thread
    consumed = [0]
    orig_stats = th.update_stats

    def update_stats():
        consumed[0] += th.received_count
        orig_stats()
    th.update_stats = update_stats
    appended = [0] * cfg["producers"]
    offered = [0] * cfg["producers"]
    rejected_expected = [0] * cfg["producers"]
    th.start()

    def producer(i):
        rr = rng("C11p", cfg["seed"], cfg["shard"], i)
        for k in range(cfg["per_producer"]):
            x = rr.random()
            addr = ("10.20.%d.%d" % (i, k & 255), 1000 + (k >> 8))
            if x < 0.7:
                # valid header, not a hello: appended, then dropped by the loop's pool gate (cheap)
                d = A.header("c2s", k, (k % 65535) + 1, 1, rr.choice([3, 4, 5, 6, 7]), 0, 0, 0) + bytes(4)
                appended[i] += 1
            elif x < 0.85:
                d = rr.randbytes(rr.randint(0, 19))                      # too short: header-rejected
                rejected_expected[i] += 1
            elif x < 0.95:
                d = b"XXXX" + rr.randbytes(40)                           # bad magic: header-rejected
                rejected_expected[i] += 1
            else:
                addr = ("10.66.0.1", 5)
                d = A.header("c2s", k, 1, 1, 4, 0, 0, 0) + bytes(4)
                rejected_expected[i] += 1
            offered[i] += 1
            srv.datagramReceived(d, addr)
    threads = [threading.Thread(target=producer, args=(i,)) for i in range(cfg["producers"])]
    t0 = _time.time()
    for t in threads:
        t.start()
    for t in threads:
        t.join(240)
    # drain
    deadline = _time.time() + 20
    while _time.time() < deadline:
        with th.lk_queue:
            empty = not th.queue
        if empty and consumed[0] + th.received_count >= sum(appended):
            break
        _time.sleep(0.01)
    alive = th.is_alive()
    total_consumed = consumed[0] + th.received_count
    ctxt.shutdown()
    th._wake()
    th.join(10)
    sys.setswitchinterval(old_switch)
    threading.excepthook = old_hook
    c.inc("freerun_offered", sum(offered))
    c.inc("freerun_appended", sum(appended))
    c.inc("freerun_consumed", total_consumed)
    c.inc("freerun_producer_threads", cfg["producers"])
    if not alive or errors:
        out["violations"].append({"mechanism": "server-loop-died", "msg": "free-running server thread died: %s" % errors[:2], "case_key": ["freerun", cfg["shard"]]})
    if total_consumed != sum(appended):
        out["violations"].append({"mechanism": "queue-conservation", "case_key": ["freerun", cfg["shard"]],
                                  "msg": "%d datagrams were appended by %d producer threads but the loop consumed %d" % (sum(appended), cfg["producers"], total_consumed)})
    if len(tids) > 1:
        out["violations"].append({"mechanism": "events-on-several-threads", "msg": "handler.update ran on %d threads" % len(tids), "case_key": ["freerun"]})
    if th.is_alive():
        out["counters"].inc("freerun_thread_did_not_exit")
    out["distinct"].add(h64("freerun", cfg["shard"]))
    out["samples"].append({"scenario": "freerun", "producers": cfg["producers"], "offered": sum(offered), "appended": sum(appended),
                           "consumed": total_consumed, "seconds": round(_time.time() - t0, 2)})
    return sum(offered)


def run_shard(cfg):
    out = {"violations": [], "counters": Counter(), "samples": [], "distinct": set()}
    n = run_attack(cfg, out) if cfg["kind"] == "attack" else run_freerun(cfg, out)
    out.pop("max_echo_ticks", None)
    return {"evaluations": n, "distinct": sorted(out["distinct"]), "counters": dict(out["counters"]),
            "violations": out["violations"], "samples": out["samples"]}


def finish(tier, seed, results):
    m = merge(results)
    inconclusive = []
    need(m["counters"], ["echo_requests", "echoes_received", "inj_random_bytes", "inj_hello_flood", "inj_hello_repeat", "inj_hello_undersized", "inj_hello_every_length", "inj_hello_flood_from_honest_ip", "inj_authenticated_malformed",
                         "inj_from_blocklisted", "inj_former_session_short", "former_session_bytes_in", "former_sessions_ended_by_client_disconnect",
                         "former_sessions_ended_by_server_kick", "former_sessions_ended_by_timeout", "inj_spoofed_from_honest", "inj_authenticated_flood", "bytes_to_unauthenticated_addresses",
                         "offered_blocklisted", "appended", "server_iterations", "freerun_appended", "freerun_consumed"], inconclusive)
    cov = {
        "evaluations": m["evaluations"],
        "distinct_nontrivial": max(2, m["counters"].get("offered_total", 0) + m["counters"].get("freerun_offered", 0)),
        "rule": "one evaluation = one datagram delivered to the real datagramReceived entry point. attack worlds: each tick 1-12 hostile "
                "datagrams (random bytes of every length 0..RECV_SIZE over time, valid headers with garbage/truncated/oversized bodies, hello "
                "floods from fresh addresses with repeats, undersized hellos with and without a consistent CRC, block-listed sources, "
                "spoofing from the honest client's address, floods by an authenticated rogue client) while an honest echo client is served; "
                "freerun: 6 real producer threads against the free-running loop with a 1 microsecond switch interval. distinct = datagrams "
                "offered (payloads are random, addresses rotate)",
        "fault_classes": sorted(k for k in m["counters"] if k.startswith("inj_")),
        "samples": m["samples"],
        "counters": m["counters"],
    }
    return {"coverage": cov, "inconclusive": inconclusive,
            "assumptions": ["the deployment hands outgoing batches to the reactor thread; the harness calls sendPacketsUnsafe in a try/except "
                            "and records failures (none expected)",
                            "the echo bound (60 ticks) is a logical bound in virtual time, not wall-clock",
                            "free-running mode uses only schedule-independent invariants (conservation, liveness, one handler thread)"]}
