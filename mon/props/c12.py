"""C12 - keep-alives and timeouts: idle links stay up, dead peers are detected.

Virtual time makes configurations cheap.  Per seeded configuration (keep-alive
intervals, connection / handshake / message timeouts, tick length with jitter, order
of the client setter calls relative to connect) one lockstep world checks:
  K1  idle and connected: consecutive emissions of each side are at most
      max(keep-alive, send_interval) + one tick + eps apart
  K2  neither side reports timeout / DROPPED / disconnect while idle over a working link
  K3  after the link is cut (last accepted datagram at T_r): server disconnect event at
      T in [T_r + timeout - eps, T_r + timeout + 2 ticks + eps]; client DROPPED at
      T in [T_r + 5 - eps, T_r + 5 + 2 ticks + eps]
  K4  an unanswered connect is DISCONNECTED within timeout + 2 ticks and not before the
      timeout; the callback (if given) is invoked exactly once, with False - with and
      without a callback
  K5  every setter call, in every order relative to connect, returns normally and takes
      effect: observed keep-alive gap, connect timeout and message timeout follow the
      configured values; ServerContext setters made before start apply to new connections
"""
from mon.core.merge import merge, need
from mon.core.util import Counter, h64, rng
from mon.engines import lockstep as L

ID = "C12"
LEVEL = "exploration"
SHARD_TIMEOUT = {"quick": 600, "thorough": 3000}
EPS = 1e-6


def plan(tier, seed):
    real = [{"kind": "realsock", "tier": tier, "seed": seed, "shard": 100 + i, "n": 3 if tier == "quick" else 12, "subprocess": True} for i in range(1 if tier == "quick" else 2)]
    if tier == "quick":
        return [{"tier": tier, "seed": seed, "shard": i, "n": 6, "subprocess": True} for i in range(12)] + real
    return [{"tier": tier, "seed": seed, "shard": i, "n": 350, "subprocess": True} for i in range(32)] + real


def run_realsock(cfg, out):
    """the real UdpClient on a real OS socket, real clocks: connect attempts to loopback ports where nobody listens (the kernel
    answers those with ICMP port-unreachable, which a socket may or may not get to see).  Real time decides nothing by itself:
    the verdicts are 'update() raised', 'the callback was called other than once with False' and 'no end after 20x the configured
    timeout on the client's own clock'."""
    import socket
    import time
    import logging
    from mpgameserver import UdpClient, EllipticCurvePrivateKey
    logging.getLogger("mpgameserver").setLevel(100)
    c = out["counters"]
    r = rng("C12real", cfg["seed"], cfg["shard"])

    def viol(mech, msg, case):
        c.inc("viol:" + mech)
        if sum(1 for v in out["violations"] if v["mechanism"] == mech) < 3:
            out["violations"].append({"mechanism": mech, "msg": msg, "case_key": [cfg["seed"], cfg["shard"], case], "case": {"kind": "realsock"}})
    pub = EllipticCurvePrivateKey.new().getPublicKey()
    for case in range(cfg["n"]):
        host, fam = (("127.0.0.1", socket.AF_INET), ("127.0.0.1", socket.AF_INET), ("::1", socket.AF_INET6))[case % 3]
        try:
            s_ = socket.socket(fam, socket.SOCK_DGRAM)
            s_.bind((host, 0))
            port = s_.getsockname()[1]
            s_.close()                       # nobody listens there now
        except OSError:
            c.inc("realsock_family_unavailable")
            continue
        timeout = r.choice([0.3, 0.5, 0.8])
        cl = UdpClient(pub if case % 2 else None)
        cl.setConnectionTimeout(timeout)
        calls = []
        with_cb = case % 4 != 3
        try:
            cl.connect((host, port), callback=(lambda ok: calls.append(ok)) if with_cb else None)
        except Exception as e:
            viol("connect-raised", "UdpClient.connect(%r) to a port nobody listens on raised %r" % ((host, port), e), case)
            continue
        c.inc("realsock_connect_attempts")
        raised = None
        t0 = time.monotonic()
        while time.monotonic() - t0 < 20 * timeout + 5.0:
            try:
                cl.update()
                c.inc("realsock_updates")
            except Exception as e:
                raised = e
                break
            if cl.conn is None or getattr(cl.conn.status, "value", 0) in (3, 4, 5) and time.monotonic() - t0 > timeout + 0.3:
                break
            time.sleep(1 / 120)
        st = {1: "CONNECTING", 2: "CONNECTED", 3: "DISCONNECTING", 4: "DISCONNECTED", 5: "DROPPED"}.get(getattr(cl.conn.status, "value", None)) if cl.conn is not None else None
        if raised is not None:
            viol("client-update-raised-on-unanswered-connect", "UdpClient.update() raised %r %.2fs into a connect attempt to %s port %d where nobody listens (real socket)" % (
                raised, time.monotonic() - t0, host, port), case)
        elif st != "DISCONNECTED":
            viol("unanswered-connect-not-ended", "real socket, nobody listening: status %s after %.1fs (connect timeout %.1fs)" % (st, time.monotonic() - t0, timeout), case)
        elif with_cb and calls != [False]:
            viol("connect-callback-history", "real socket, nobody listening: connect callback history %r (expected [False])" % (calls,), case)
        else:
            c.inc("realsock_unanswered_connects_ended_properly")
            c.inc("k4_unanswered_connects")
        try:
            cl.forceDisconnect() if hasattr(cl, "forceDisconnect") else None
        except Exception:
            pass
        out["distinct"].add(h64("realsock", host, timeout, with_cb))


def pick_config(r, case):
    dt = r.choice([1 / 120, 1 / 60, 1 / 60, 1 / 30, 1 / 20, 1 / 10])
    ka_c = r.choice([1 / 30, 0.05, 0.1, 0.25, 0.5, 1.0, 2.0, round(r.uniform(1 / 30, 2.0), 3)])
    ka_s = r.choice([1 / 30, 0.05, 0.1, 0.25, 0.5, 1.0, 2.0, round(r.uniform(1 / 30, 2.0), 3)])
    conn_to = round(r.uniform(max(ka_c, ka_s) * 1.5 + 4 * dt, 30.0), 3) if r.random() < 0.7 else r.choice([3.0, 5.0, 10.0, 30.0])
    conn_to = max(conn_to, max(ka_c, ka_s) * 1.5 + 4 * dt + 0.2)
    cfg = {
        "dt": dt, "jitter": r.choice([0.0, 0.0, 0.2]),
        "client_keep_alive": ka_c, "server_keep_alive": ka_s,
        "server_connection_timeout": conn_to,
        "client_connect_timeout": r.choice([0.1, 0.5, 1.0, 2.0, 5.0, 10.0, round(r.uniform(0.1, 10.0), 3)]),
        "client_message_timeout": r.choice([0.1, 0.25, 0.5, 1.0, 2.0, 4.0, 10.0, round(r.uniform(0.1, 4.0), 3)]),
        "server_message_timeout": r.choice([0.1, 0.25, 0.5, 1.0, 2.0, 4.0, round(r.uniform(0.1, 4.0), 3)]),
        "server_temp_timeout": r.choice([0.5, 2.0, 5.0]),
        # when is each client setter called: before connect, after connect, both (first with a decoy value), never (default)
        "order": {k: r.choice(["before", "after", "both", "never"]) for k in ("keep_alive", "connect_timeout", "message_timeout")},
        "idle": max(3 * max(ka_c, ka_s) + 1.0, r.choice([2.0, 10.0, 60.0, 600.0]) if case % 4 == 0 else r.choice([2.0, 5.0, 20.0])),
        "with_callback": r.random() < 0.5,
    }
    return cfg


def extra_scenarios(w, cfg, cfg_shard, case, key, c, viol, configured_client, tick_max, a):
    """run at the end of a world (own random stream: the scenarios above keep their draws):
    K4x  unanswered connects during which something else happens to the client while the server stays silent: somebody who cannot
         sign injects SERVER_HELLO datagrams (signed with a root key of his own, or junk) at seeded moments of the wait, or the
         application calls disconnect() at a seeded moment of the wait.  The attempt is unanswered all the same: the callback is
         invoked exactly once, with False, inside [timeout, timeout + 2 ticks], and the attempt ends DISCONNECTED
    K3x  'every moment at which the link is cut' includes the moment right after the client has processed the SERVER_HELLO, before
         any datagram of the encrypted session has reached it (link cut in both directions = the server died, or only towards
         the client): DROPPED at T in [T_r + 5, T_r + 5 + 2 ticks], T_r = arrival of the SERVER_HELLO (the last datagram it accepted)"""
    from mpgameserver import EllipticCurvePrivateKey
    from mpgameserver.connection import HandshakeServerHelloMessage
    from mon.engines import adversary as A
    r2 = rng("C12x", *key)
    w.remove_client(a)
    status = lambda cl: getattr(cl.udp.conn.status, "value", 0) if cl.udp.conn is not None else 0
    # ---------------- K4x
    for kind in ("forged-hello-during-wait", "app-disconnect-during-wait"):
        w.net.set(c2s=L.Policy(outage=True), s2c=L.Policy(outage=True))
        with_cb = r2.random() < 0.8
        x, eff = configured_client(with_cb)
        t0 = w.clock.now
        timeout = eff["connect_timeout"]
        plan_ = []
        if kind == "forged-hello-during-wait":
            sub = r2.choice(["own-root", "own-root", "own-root-repeated", "junk-then-own-root"])
            seq0 = r2.randint(1, 60000)
            fake_root = EllipticCurvePrivateKey.new()
            for i in range({"own-root": 1, "own-root-repeated": 3, "junk-then-own-root": 2}[sub]):
                if sub == "junk-then-own-root" and i == 0:
                    payload = r2.randbytes(r2.randint(1, 120))
                else:
                    m = HandshakeServerHelloMessage()
                    m.token = r2.randrange(1, 1 << 31)
                    m.server_pubkey = EllipticCurvePrivateKey.new().getPublicKey()
                    m.salt = r2.randbytes(16)
                    payload = m.dumpb(server_root_key=fake_root)
                plan_.append((r2.uniform(0.02, 0.9) * timeout, (seq0 + i, payload)))
        else:
            sub = r2.choice(["at-once", "later", "later"])
            plan_.append((0.0 if sub == "at-once" else r2.uniform(0.02, 0.9) * timeout, None))
        plan_.sort(key=lambda e: e[0])
        left_connecting = disc_at_timeout = False
        while w.clock.now - t0 < timeout + 2 * tick_max + EPS:
            while plan_ and w.clock.now - t0 >= plan_[0][0]:
                _t, what = plan_.pop(0)
                if what is None:
                    try:
                        x.udp.disconnect()
                    except Exception as e:
                        viol("disconnect-raised-while-connecting", "UdpClient.disconnect() %.3fs into an unanswered connect raised %r" % (w.clock.now - t0, e))
                else:
                    w.net.inject("s2c", x.addr, A.forge_crc("s2c", 2, what[0], 0, 0, [(what[0], 2, what[1])], int(w.clock.now), count=1), "forged:server-hello")
            w.step()
            if status(x) != 1 and w.clock.now - t0 < timeout - EPS:
                left_connecting = True
            if status(x) == 4 and w.clock.now - t0 >= timeout - EPS:
                disc_at_timeout = True
        w.step(3)
        c.inc("k4_unanswered_connects")
        c.inc("k4x_" + kind)
        if left_connecting:
            c.inc("k4x_status_left_connecting_before_the_timeout:" + kind)
        tag = "%s/%s/%s" % (kind, sub, "with-callback" if with_cb else "without-callback")
        good = True
        # (a client that accepted a - forged - datagram reports DROPPED 5 s after it, also after the attempt has ended: the attempt
        #  ended DISCONNECTED when that is the status in the window [timeout, timeout + 2 ticks]; later it is DISCONNECTED or DROPPED)
        if not disc_at_timeout or status(x) not in (4, 5):
            good = False
            viol("unanswered-connect-never-disconnected:" + kind, "unanswered connect (%s): never DISCONNECTED within [timeout, timeout + 2 ticks]; status %s %.3fs after connect(); configured connect timeout %.3f" % (
                tag, x.udp.conn.status, w.clock.now - t0, timeout))
        if with_cb:
            calls = [(t - t0, v) for t, v in x.connect_cb]
            if [v for _t, v in calls] != [False]:
                good = False
                viol("unanswered-connect-callback-not-once-false:" + kind, "unanswered connect (%s): callback invocations %r within %.3fs, expected exactly one False (connect timeout %.3f)" % (
                    tag, [(round(t, 4), v) for t, v in calls], w.clock.now - t0, timeout))
            elif not (timeout - EPS <= calls[0][0] <= timeout + 2 * tick_max + EPS):
                good = False
                viol("connect-callback-outside-timeout-window:" + kind, "unanswered connect (%s): callback(False) %.4fs after connect(), configured timeout %.3f (+2 ticks of %.4f)" % (
                    tag, calls[0][0], timeout, tick_max))
        if good:
            c.inc("k4x_ended_properly:" + kind)
        w.remove_client(x)
    # ---------------- K3x
    w.net.heal(0.002)
    cut = r2.choice([("s2c",), ("c2s", "s2c"), ("c2s", "s2c")])
    seen = {}

    def on_connected(cl):
        if "t" not in seen:
            seen["t"] = w.clock.now
            w.net.filters.append(lambda direction, addr, d_, info: "drop" if addr == cl.addr and direction in cut else None)
            w.net.heap[:] = [e for e in w.net.heap if not (e[3] == cl.addr and e[2] in cut)]
            import heapq
            heapq.heapify(w.net.heap)
    # (an address the server has not seen: the earlier clients of this world are gone from the world, not yet from the server)
    d, effd = configured_client(True, prepare=lambda cl: cl.on_connected.append(on_connected), addr=("10.7.%d.%d" % (r2.randint(0, 250), r2.randint(2, 250)), r2.randint(20000, 60000)))
    t0 = w.clock.now
    w.run_until(lambda ww: "t" in seen or status(d) in (4, 5), 400)
    if "t" not in seen or [v for _t, v in d.connect_cb] != [True]:
        c.inc("k3x_skipped_connect_timed_out_before_the_hello")      # (a connect timeout shorter than the round trip: outside K3x)
    else:
        t_r = seen["t"]
        t_drop = None
        st_seen = set()
        while w.clock.now - t_r < 5.0 + 2 * tick_max + EPS:
            w.step()
            st_seen.add(status(d))
            if t_drop is None and status(d) == 5:
                t_drop = w.clock.now
        w.step(3)
        if t_drop is None and status(d) == 5:
            t_drop = w.clock.now
        c.inc("k3x_cuts_right_after_server_hello")
        how = "link cut %s at the moment the client had processed the SERVER_HELLO (no datagram of the encrypted session reached it)" % ("in both directions" if len(cut) == 2 else "towards the client")
        if t_drop is None:
            viol("dead-peer-not-detected:client-cut-right-after-server-hello", "%s: client status %s %.3fs later, last_recv_time %r (hello arrived at %r)" % (
                how, d.udp.conn.status, w.clock.now - t_r, d.udp.conn.last_recv_time, t_r))
        elif t_drop - t_r < 5.0 - EPS or t_drop - t_r > 5.0 + 2 * tick_max + EPS:
            viol("client-dropped-window", "%s: DROPPED %.4fs after the SERVER_HELLO, the last datagram it accepted (expected 5 s + 2 ticks)" % (how, t_drop - t_r))
        else:
            c.inc("k3x_client_in_window")
    w.remove_client(d)


def run_case(cfg_shard, case, out):
    key = [cfg_shard["seed"], cfg_shard["shard"], case]
    r = rng("C12", *key)
    cfg = pick_config(r, case)
    c = out["counters"]

    def viol(mech, msg):
        c.inc("viol:" + mech)
        if sum(1 for v in out["violations"] if v["mechanism"] == mech) < 5:
            out["violations"].append({"mechanism": mech, "msg": msg + " | config %s" % ({k: v for k, v in cfg.items() if k != "order"},) + " order %s" % (cfg["order"],),
                                      "case_key": key, "case": {"config": cfg}})

    def setup(ctxt):
        ctxt.setKeepAliveInterval(cfg["server_keep_alive"])
        ctxt.setConnectionTimeout(cfg["server_connection_timeout"])
        ctxt.setMessageTimeout(cfg["server_message_timeout"])
        ctxt.setTempConnectionTimeout(cfg["server_temp_timeout"])
    # "settings made on the ServerContext before the server starts": in half of the worlds the server object already exists
    late_setup = (case + cfg_shard["shard"] + cfg_shard["seed"]) % 2 == 1
    w = L.World(r, dt=cfg["dt"], jitter=cfg["jitter"], ctxt_setup=setup, ctxt_setup_after_construction=late_setup)
    c.inc("worlds_configured_after_server_construction" if late_setup else "worlds_configured_before_server_construction")
    tick_max = cfg["dt"] * (1 + cfg["jitter"])
    events = []                    # (t, what)
    w.handler.on["disconnect"] = [lambda client: events.append((w.clock.now, "server-disconnect", client.addr, client.last_recv_time))]
    emissions = {"c2s": {}, "s2c": {}}
    w.wire_hooks.append(lambda direction, addr, d, client, n: emissions[direction].setdefault(addr, []).append(w.clock.now))
    w.start()
    try:
        w.net.heal(0.002)
        # effective client values: the last setter call wins, default otherwise
        defaults = {"keep_alive": 0.1, "connect_timeout": 2.0, "message_timeout": 1.0}
        want = {"keep_alive": cfg["client_keep_alive"], "connect_timeout": cfg["client_connect_timeout"], "message_timeout": cfg["client_message_timeout"]}
        setters = {"keep_alive": "setKeepAliveInterval", "connect_timeout": "setConnectionTimeout", "message_timeout": "setMessageTimeout"}

        def call_setter(cl, which, value, when):
            c.inc("setter_calls")
            c.inc("setter_%s_%s" % (which, when))
            try:
                getattr(cl.udp, setters[which])(value)
            except Exception as e:
                viol("setter-raised:%s-%s-connect" % (setters[which], when), "UdpClient.%s(%r) %s connect raised %r" % (setters[which], value, when, e))

        def configured_client(with_cb, answered=True, prepare=None, addr=None):
            cl = w.add_client(addr=addr)
            if prepare is not None:
                prepare(cl)
            eff = dict(defaults)
            for which, order in cfg["order"].items():
                if order in ("before", "both"):
                    call_setter(cl, which, want[which] if order == "before" else want[which] * 3 + 1, "before")
                    eff[which] = want[which] if order == "before" else want[which] * 3 + 1
            cl.connect(with_callback=with_cb)
            for which, order in cfg["order"].items():
                if order in ("after", "both"):
                    call_setter(cl, which, want[which], "after")
                    eff[which] = want[which]
            return cl, eff

        # ---------------- K4: unanswered connect (nothing ever comes back)
        for with_cb in (cfg["with_callback"], not cfg["with_callback"]):
            w.net.set(c2s=L.Policy(outage=True), s2c=L.Policy(outage=True))
            x, eff = configured_client(with_cb)
            t0 = w.clock.now
            timeout = eff["connect_timeout"]
            t_disc = None
            limit = timeout + 4 * tick_max + 0.5
            while w.clock.now - t0 < limit:
                w.step()
                st = getattr(x.udp.conn.status, "value", 0)
                if st == 4 and t_disc is None:
                    t_disc = w.clock.now
                    break
            c.inc("k4_unanswered_connects")
            tag = "with-callback" if with_cb else "without-callback"
            if t_disc is None:
                viol("unanswered-connect-never-disconnected:%s" % tag,
                     "unanswered connect (%s) is still %s %.3fs after connect(); configured connect timeout %.3f" % (
                         tag, x.udp.conn.status, w.clock.now - t0, timeout))
            else:
                el = t_disc - t0
                if el < timeout - EPS:
                    viol("connect-timeout-too-early", "unanswered connect DISCONNECTED after %.4fs, configured timeout %.3f (%s)" % (el, timeout, tag))
                elif el > timeout + 2 * tick_max + EPS:
                    viol("connect-timeout-not-applied" if abs(el - 2.0) < 3 * tick_max else "connect-timeout-too-late",
                         "unanswered connect DISCONNECTED after %.4fs, configured timeout %.3f (+2 ticks of %.4f) (%s)" % (el, timeout, tick_max, tag))
                else:
                    c.inc("k4_in_window")
            w.step(3)
            if with_cb:
                vals = [v for t, v in x.connect_cb]
                if vals != [False]:
                    viol("connect-callback-count", "unanswered connect: callback invocations %r, expected exactly one False" % (vals,))
                else:
                    c.inc("k4_callback_once_false")
            w.remove_client(x)
        # ---------------- handshake, K5 effect of the setters, K1/K2 idle
        w.net.heal(0.002)
        a, eff = configured_client(True)
        ok = w.run_until(lambda ww: getattr(a.udp.conn.status, "value", 0) == 2 and a.addr in ww.ctxt.connections, 400)
        if not ok:
            viol("honest-handshake-failed", "handshake did not complete")
            return
        if eff["connect_timeout"] > 12 * tick_max + 0.1 and [v for t, v in a.connect_cb] != [True]:
            # (a connect timeout shorter than the handshake round trip gives a late answer: outside K4)
            viol("connect-callback-count", "answered connect: callback invocations %r, expected [True]" % ([v for t, v in a.connect_cb],))
        sc = w.ctxt.connections[a.addr]
        # ServerContext setters made before start are what the loop applies to new connections
        if abs(sc.send_keep_alive_interval - cfg["server_keep_alive"]) > EPS or abs(sc.outgoing_timeout - cfg["server_message_timeout"]) > EPS:
            viol("server-setting-not-applied", "new server-side connection has keep-alive %r / message timeout %r" % (sc.send_keep_alive_interval, sc.outgoing_timeout))
        w.step(int(0.3 / cfg["dt"]) + 5)
        t_idle0 = w.clock.now
        n_events0 = len(events)
        idle_ticks = int(cfg["idle"] / cfg["dt"])
        w.step(idle_ticks // 2)
        # a second client behind the same IP address (another port: NAT, a second window of the game) connects while the
        # first one is as quiet as its keep-alive interval lets it be; the first one is not affected
        ems_a = emissions["c2s"].setdefault(a.addr, [])
        w.run_until(lambda ww: ems_a and ww.clock.now - ems_a[-1] >= 0.85 * max(eff["keep_alive"], a.udp.conn.send_interval) - tick_max, int(eff["keep_alive"] / cfg["dt"]) + 5)
        b = w.add_client(addr=(a.addr[0], a.addr[1] + 1))
        b.connect()
        ok_b = w.run_until(lambda ww: getattr(b.udp.conn.status, "value", 0) == 2 and b.addr in ww.ctxt.connections, 400)
        c.inc("same_ip_second_client_connected" if ok_b else "same_ip_second_client_failed")
        if not ok_b:
            viol("honest-handshake-failed", "a second client from the same IP address (port %d) could not connect" % b.addr[1])
        w.step(idle_ticks // 2)
        b.udp.disconnect()
        w.step(6)
        w.remove_client(b)
        events[:] = [e for e in events if e[2] != b.addr]
        t_idle1 = w.clock.now
        c.inc("idle_seconds", int(cfg["idle"]))
        # K2
        if len(events) != n_events0 or getattr(a.udp.conn.status, "value", 0) != 2 or a.addr not in w.ctxt.connections:
            viol("idle-connection-lost", "during %.0fs idle over a working link: client status %s, server events %r" % (
                cfg["idle"], a.udp.conn.status, events[n_events0:]))
            return
        c.inc("k2_idle_periods_survived")
        # K1 and K5 (keep-alive takes effect)
        send_interval = a.udp.conn.send_interval
        for side, ems, ka in (("client", emissions["c2s"].get(a.addr, []), eff["keep_alive"]),
                              ("server", emissions["s2c"].get(a.addr, []), cfg["server_keep_alive"])):
            ts = [t for t in ems if t_idle0 <= t <= t_idle1]
            if len(ts) < 2:
                viol("no-keep-alives:%s" % side, "%s emitted %d datagrams in %.1fs of idle" % (side, len(ts), cfg["idle"]))
                continue
            gaps = [b - x for x, b in zip(ts, ts[1:])]
            bound = max(ka, send_interval) + tick_max + EPS
            c.inc("k1_gaps_checked", len(gaps))
            if max(gaps) > bound:
                viol("keep-alive-gap-exceeded:%s" % side if side == "server" or cfg["order"]["keep_alive"] == "never" else "client-keep-alive-setting-not-applied",
                     "%s idle emission gap %.4fs exceeds keep-alive %.4f + one tick %.4f" % (side, max(gaps), ka, tick_max))
            elif side == "client" and cfg["order"]["keep_alive"] != "never" and ka > 3 * tick_max + send_interval and min(gaps) < ka - tick_max - EPS and abs(ka - 0.1) > 2 * tick_max:
                # takes effect also means: not MORE often than configured (only decidable when the value differs from the default)
                viol("client-keep-alive-setting-not-applied", "client configured keep-alive %.3f but idle gaps are %.4f..%.4f" % (ka, min(gaps), max(gaps)))
            else:
                c.inc("k1_sides_within_bound")
        # ---------------- K1/K2 under one-directional traffic: a side that only RECEIVES application traffic is idle as a
        #                  sender: it must keep emitting (its datagrams carry the acks and the sign of life) and nobody times out
        for streamer in ("client", "server"):
            dur = min(7.0, max(5.6, cfg["server_connection_timeout"] + 0.6)) if cfg["server_connection_timeout"] < 6.4 else 5.6
            t_s0 = w.clock.now
            n_ev = len(events)
            # while the server streams, the client application calls update() every frame but leaves its inbox alone (thousands of
            # messages pile up uncollected): it still reads its socket, the link stays up
            lazy = streamer == "server" and (case + cfg_shard["seed"]) % 2 == 0
            if lazy:
                a.collect_every = 10 ** 9
                c.inc("k2_lazy_reader_streams")
            per_tick = max(1, int(round(2800 / (dur / cfg["dt"])))) if lazy else 1
            for _t in range(int(dur / cfg["dt"])):
                if streamer == "client":
                    a.udp.send(L.make_payload(1, _t, 24), retry=0)
                else:
                    for _q in range(per_tick):
                        sc.send(L.make_payload(0, _t * 64 + _q, 24))
                w.step()
            if lazy:
                c.inc("k2_uncollected_messages_max", len(a.udp.conn.incoming_messages) if a.udp.conn is not None else 0)
                # ... and stays like that for six more seconds of an otherwise idle link
                for _t in range(int(6.0 / cfg["dt"])):
                    w.step()
                    if getattr(a.udp.conn.status, "value", 0) != 2:
                        break
                a.collect_every = 1
            t_s1 = w.clock.now
            c.inc("k1_one_directional_streams")
            if len(events) != n_ev or getattr(a.udp.conn.status, "value", 0) != 2 or a.addr not in w.ctxt.connections:
                viol("connection-lost-under-one-directional-traffic", "%s streamed for %.1fs over a working link while the other side sent nothing: client status %s, server events %r" % (
                    streamer, dur, a.udp.conn.status, events[n_ev:]))
                return
            quiet = "server" if streamer == "client" else "client"
            ems = emissions["s2c" if quiet == "server" else "c2s"].get(a.addr, [])
            ts = [t for t in ems if t_s0 + 0.3 <= t <= t_s1]
            ka = cfg["server_keep_alive"] if quiet == "server" else eff["keep_alive"]
            bound = max(ka, send_interval) + tick_max + EPS
            gaps = [y - x for x, y in zip(ts, ts[1:])]
            if len(ts) < 2 or max(gaps) > bound:
                viol("quiet-side-stops-emitting", "while the %s streamed, the %s (keep-alive %.3f) emitted %d datagrams in %.1fs, largest gap %s (bound %.4f)" % (
                    streamer, quiet, ka, len(ts), dur, ("%.4f" % max(gaps)) if gaps else "n/a", bound))
            else:
                c.inc("k1_quiet_side_within_bound")
            w.step(int(0.5 / cfg["dt"]) + 2)
        # ---------------- K5: a keep-alive interval changed in the middle of an idle connection takes effect at once
        #                  (lowered right after an emission made under a long interval; then raised again)
        if cfg["server_connection_timeout"] > 4.0:
            long_ka = min(2.0, cfg["server_connection_timeout"] / 3.0)
            call_setter(a, "keep_alive", long_ka, "after")
            ems = emissions["c2s"].setdefault(a.addr, [])
            n0 = len(ems)
            w.run_until(lambda ww: len(ems) > n0 + 1, int((2 * long_ka + 1.0) / cfg["dt"]) + 5)      # emissions under the long interval
            short_ka = r.choice([0.05, 0.1, 0.2])
            t_set = w.clock.now
            n1 = len(ems)
            call_setter(a, "keep_alive", short_ka, "after")
            w.run_until(lambda ww: len(ems) > n1, int((long_ka + 1.0) / cfg["dt"]) + 5)
            c.inc("k5_keep_alive_lowered_mid_idle")
            bound = max(short_ka, send_interval) + tick_max + EPS
            last_before = ems[n1 - 1] if n1 else t_set
            if len(ems) <= n1 or ems[n1] - last_before > max(bound, t_set - last_before + bound):
                viol("client-keep-alive-setting-not-applied", "keep-alive lowered from %.2f to %.2f while idle: next emission %s after the change (bound %.4f)" % (
                    long_ka, short_ka, ("%.4fs" % (ems[n1] - t_set)) if len(ems) > n1 else "never", bound))
            else:
                c.inc("k5_keep_alive_lowered_in_window")
            call_setter(a, "keep_alive", eff["keep_alive"], "after")
            w.step(int((eff["keep_alive"] + 0.3) / cfg["dt"]) + 3)
        # ---------------- K5: message timeouts take effect (probe under a full outage)
        mt_c, mt_s = eff["message_timeout"], cfg["server_message_timeout"]
        probe = max(mt_c, mt_s) + 4 * tick_max + send_interval + 0.2
        # the probe's outage must end before either side declares the peer dead (their last datagram may be one
        # keep-alive interval old when the outage starts)
        # (silence seen by a side = age of the peer's last datagram at the start + probe + wait for the peer's next one)
        if probe + 2 * cfg["server_keep_alive"] + 0.3 < 5.0 and probe + 2 * eff["keep_alive"] + 0.3 < cfg["server_connection_timeout"]:
            w.net.set(c2s=L.Policy(outage=True), s2c=L.Policy(outage=True))
            res = {}
            t_probe = w.clock.now
            a.udp.send(L.make_payload(1, 1, 20), retry=0, callback=lambda v: res.setdefault("client", (w.clock.now, v)))
            sc.send(L.make_payload(0, 1, 20), callback=lambda v: res.setdefault("server", (w.clock.now, v)))
            n = int(probe / cfg["dt"]) + 2
            w.step(n)
            for side, mt in (("client", mt_c), ("server", mt_s)):
                c.inc("k5_message_timeout_probes")
                if side not in res:
                    viol("message-timeout-not-applied:%s" % side, "%s: no timeout callback within %.3fs, configured message timeout %.3f" % (side, probe, mt))
                    continue
                t_cb, v = res[side]
                el = t_cb - t_probe
                # measured from the send() call: up to one send interval until the datagram is emitted, then the timeout,
                # then up to one send interval until a tick on which the code looks for timeouts (it does so only when
                # it is allowed to send), plus tick granularity
                lo, hi = mt - EPS, mt + 2 * send_interval + 3 * tick_max + EPS
                if v is not False or el < lo or el > hi:
                    viol("message-timeout-not-applied:%s" % side, "%s: callback(%r) after %.4fs, configured message timeout %.3f (window %.3f..%.3f)" % (
                        side, v, el, mt, lo, hi))
                else:
                    c.inc("k5_message_timeout_in_window")
            w.net.heal(0.002)
            w.step(int(0.5 / cfg["dt"]) + 3)
        else:
            c.inc("k5_message_timeout_probe_skipped")
        if getattr(a.udp.conn.status, "value", 0) != 2 or a.addr not in w.ctxt.connections:
            c.inc("k3_skipped_connection_gone_after_probe")
            return
        # ---------------- K3: the link is cut at a seeded instant
        w.step(int((max(cfg["server_keep_alive"], eff["keep_alive"]) + 0.2) / cfg["dt"]) + r.randint(1, 40))
        if getattr(a.udp.conn.status, "value", 0) != 2 or a.addr not in w.ctxt.connections:
            c.inc("k3_skipped_connection_gone_after_probe")
            return
        # in half of the worlds somebody re-delivers datagrams of this session verbatim (both directions) while the link is cut:
        # copies of what was already received are not a sign of life
        replay = (case + cfg_shard["seed"]) % 2 == 0
        rec_c2s, rec_s2c = [], []
        if replay:
            grab = lambda direction, addr, d, client, n: (rec_c2s if direction == "c2s" else rec_s2c).append(d) if addr == a.addr else None
            w.wire_hooks.append(grab)
            w.step(16)
            w.wire_hooks.remove(grab)
        w.net.set(c2s=L.Policy(outage=True), s2c=L.Policy(outage=True))
        w.net.heap[:] = []                      # nothing in flight survives the cut
        w.step(2)
        if replay and rec_c2s and rec_s2c:
            c.inc("k3_worlds_with_replays_during_the_cut")

            def replayer(ww):
                if ww.ticks % max(1, int(0.2 / cfg["dt"])) == 0:
                    # (not the newest ones: what was in flight when the link was cut never arrived - its copy would be a first arrival)
                    ww.offer_server(a.addr, r.choice(rec_c2s[-10:-3] or rec_c2s[:1]), "replay:recent")
                    if a.sock_open:
                        a.sock.fifo.append((r.choice(rec_s2c[-10:-3] or rec_s2c[:1]), "replay:recent"))
            w.tick_hooks.append(replayer)
        tr_server = sc.last_recv_time
        tr_client = a.udp.conn.last_recv_time
        n_events1 = len(events)
        t_drop = None
        horizon = max(cfg["server_connection_timeout"], 5.0) + 3 * tick_max + 1.0
        t_cut = w.clock.now
        # in a third of the worlds the client application is slow from here on: it calls update() only every 1.5 s (the 5 s rule is
        # about the server's silence, whatever the application's own pace: DROPPED is reported by the first update() after 5 s)
        slow_every = int(1.5 / cfg["dt"]) if (case + cfg_shard["shard"]) % 3 == 0 else 0
        if slow_every:
            c.inc("k3_worlds_with_slow_client_updates")
        while w.clock.now - t_cut < horizon + (1.6 if slow_every else 0):
            if slow_every:
                a.active = (w.ticks % slow_every == 0)
            w.step()
            if t_drop is None and getattr(a.udp.conn.status, "value", 0) == 5:
                t_drop = w.clock.now
        a.active = True
        c.inc("k3_link_cuts")
        w.tick_hooks[:] = [h for h in w.tick_hooks if getattr(h, "__name__", "") != "replayer"]
        del a.sock.fifo[:]
        sev = [e for e in events[n_events1:] if e[1] == "server-disconnect" and e[2] == a.addr]
        timeout = cfg["server_connection_timeout"]
        if len(sev) != 1:
            viol("dead-peer-not-detected:server", "%d disconnect events within %.1fs after the link was cut (connection timeout %.3f)" % (len(sev), horizon, timeout))
        else:
            el = sev[0][0] - sev[0][3]          # relative to the last datagram the server accepted from it
            if el < timeout - EPS or el > timeout + 2 * tick_max + EPS:
                viol("server-timeout-window", "server dropped the silent client %.4fs after its last datagram; configured %.3f (+2 ticks of %.4f)" % (el, timeout, tick_max))
            else:
                c.inc("k3_server_in_window")
        if t_drop is None:
            viol("dead-peer-not-detected:client", "client status %s %.1fs after the link was cut" % (a.udp.conn.status, horizon))
        else:
            el = t_drop - a.udp.conn.last_recv_time      # relative to the last datagram the client accepted
            if el < 5.0 - EPS or el > 5.0 + 2 * tick_max + EPS + (1.5 + tick_max if slow_every else 0):
                viol("client-dropped-window", "client reported DROPPED %.4fs after the last datagram it accepted (expected 5 s + 2 ticks)" % el)
            else:
                c.inc("k3_client_in_window")
        # ---------------- K4 on the SAME UdpClient after DROPPED: the application tries to reconnect while the server is still
        #                  unreachable (hello sent, DISCONNECTED with one False after the connect timeout), then over a healed link
        if t_drop is not None:
            n_cb = len(a.connect_cb)
            t0 = w.clock.now
            n_em = len(emissions["c2s"].get(a.addr, []))
            a.connect(with_callback=True)
            # settings made on the UdpClient - before or after the first connect - hold for every later session of that client
            timeout = eff["connect_timeout"]
            t_disc = None
            while w.clock.now - t0 < timeout + 4 * tick_max + 0.5:
                w.step()
                if getattr(a.udp.conn.status, "value", 0) == 4:
                    t_disc = w.clock.now
                    break
            c.inc("k4_reconnects_after_dropped")
            vals = [v for t, v in a.connect_cb[n_cb:]]
            if len(emissions["c2s"].get(a.addr, [])) == n_em:
                viol("reconnect-after-dropped-ignored", "connect() on a DROPPED UdpClient sent nothing (status %s)" % (a.udp.conn.status,))
            elif t_disc is None or vals != [False] or not (timeout - EPS <= t_disc - t0 <= timeout + 2 * tick_max + EPS):
                viol("reconnect-after-dropped-timeout", "connect() on a DROPPED UdpClient with the server unreachable: status %s after %.3fs, callbacks %r, configured connect timeout %.3f" % (
                    a.udp.conn.status, w.clock.now - t0, vals, timeout))
            else:
                c.inc("k4_reconnect_after_dropped_in_window")
            w.net.heal(0.002)
            w.step(3)
            n_cb = len(a.connect_cb)
            a.connect(with_callback=True)
            ok2 = w.run_until(lambda ww: getattr(a.udp.conn.status, "value", 0) == 2 and a.addr in ww.ctxt.connections, 400)
            if not ok2 and a.udp.temp_connection_timeout > 12 * tick_max + 0.1:
                viol("reconnect-after-dropped-failed", "connect() on the same UdpClient over a healed link: status %s, callbacks %r" % (a.udp.conn.status, [v for t, v in a.connect_cb[n_cb:]]))
            elif ok2:
                c.inc("k4_reconnect_after_heal_connected")
                # K5 for the second session of the same client: the settings are still in force
                conn2 = a.udp.conn
                got = {"keep_alive": conn2.send_keep_alive_interval, "connect_timeout": conn2.temp_connection_timeout, "message_timeout": conn2.outgoing_timeout}
                for which in ("keep_alive", "connect_timeout", "message_timeout"):
                    if abs(got[which] - eff[which]) > EPS:
                        viol("client-setting-lost-on-reconnect:%s" % which, "second session on the same UdpClient: %s is %r, the application had set %r (%s connect)" % (
                            which, got[which], eff[which], cfg["order"][which]))
                    else:
                        c.inc("k5_settings_in_force_in_second_session")
                ems2 = emissions["c2s"].setdefault(a.addr, [])
                t_a = w.clock.now + 0.3
                w.step(int((0.3 + 3 * max(eff["keep_alive"], 0.1) + 0.2) / cfg["dt"]))
                ts = [t for t in ems2 if t >= t_a]
                gaps = [y - x for x, y in zip(ts, ts[1:])]
                bound = max(eff["keep_alive"], conn2.send_interval) + tick_max + EPS
                if getattr(conn2.status, "value", 0) == 2 and (len(ts) < 2 or max(gaps) > bound):
                    viol("client-keep-alive-setting-not-applied", "second session on the same UdpClient: idle emission gaps %s exceed keep-alive %.3f + one tick" % (
                        [round(g, 3) for g in gaps[:4]], eff["keep_alive"]))
                elif gaps:
                    c.inc("k1_second_session_gaps_checked", len(gaps))
        extra_scenarios(w, cfg, cfg_shard, case, key, c, viol, configured_client, tick_max, a)
        out["distinct"].add(h64(sorted((k, str(v)) for k, v in cfg.items())))
        if len(out["samples"]) < 2:
            out["samples"].append({"case": key, "config": cfg})
    finally:
        c.inc("worlds")
        w.stop()


def run_shard(cfg):
    out = {"violations": [], "counters": Counter(), "samples": [], "distinct": set()}
    if cfg.get("kind") == "realsock":
        run_realsock(cfg, out)
        c = out["counters"]
        return {"evaluations": c.get("realsock_connect_attempts", 0), "distinct": sorted(out["distinct"]), "counters": dict(c), "violations": out["violations"], "samples": out["samples"]}
    for case in range(cfg["n"]):
        if cfg.get("only_case") and cfg["only_case"] != [cfg["seed"], cfg["shard"], case]:
            continue
        run_case(cfg, case, out)
    c = out["counters"]
    n = c.get("k1_gaps_checked", 0) + c.get("k4_unanswered_connects", 0) + c.get("k3_link_cuts", 0) * 2 + c.get("k3x_cuts_right_after_server_hello", 0) + c.get("k5_message_timeout_probes", 0) + c.get("setter_calls", 0)
    return {"evaluations": n, "distinct": sorted(out["distinct"]), "counters": dict(c), "violations": out["violations"], "samples": out["samples"]}


def finish(tier, seed, results):
    m = merge(results)
    inconclusive = []
    need(m["counters"], ["k1_gaps_checked", "k1_sides_within_bound", "k2_idle_periods_survived", "k3_link_cuts", "k3_server_in_window",
                         "k3_client_in_window", "k4_unanswered_connects", "k4_in_window", "k4_callback_once_false", "k5_message_timeout_probes",
                         "k5_message_timeout_in_window", "setter_keep_alive_before", "setter_keep_alive_after", "setter_connect_timeout_before",
                         "setter_connect_timeout_after", "setter_message_timeout_before", "setter_message_timeout_after", "k5_keep_alive_lowered_mid_idle",
                         "k5_keep_alive_lowered_in_window", "k1_one_directional_streams", "k1_quiet_side_within_bound",
                         "same_ip_second_client_connected", "k4_reconnect_after_dropped_in_window", "k4_reconnect_after_heal_connected",
                         "k5_settings_in_force_in_second_session", "worlds_configured_after_server_construction", "k3_worlds_with_replays_during_the_cut", "k3_worlds_with_slow_client_updates", "k2_lazy_reader_streams", "realsock_unanswered_connects_ended_properly",
                         "k4x_forged-hello-during-wait", "k4x_app-disconnect-during-wait", "k4x_status_left_connecting_before_the_timeout:forged-hello-during-wait",
                         "k4x_status_left_connecting_before_the_timeout:app-disconnect-during-wait", "k4x_ended_properly:forged-hello-during-wait",
                         "k4x_ended_properly:app-disconnect-during-wait", "k3x_cuts_right_after_server_hello", "k3x_client_in_window"], inconclusive)
    cov = {
        "evaluations": m["evaluations"],
        "distinct_nontrivial": m["distinct_nontrivial"],
        "rule": "one world per seeded configuration (keep-alive client/server in [1/30,2], server connection timeout in (keep-alive,30], "
                "connect/message timeouts in [0.1,10], tick in [1/120,1/10] with optional 20% jitter, each client setter called before / after "
                "/ before-and-after / never relative to connect, idle 2 s .. 10 min). evaluations = judged observations: every idle emission "
                "gap (K1), idle survival (K2), both detection times after a link cut (K3), both unanswered connects with and without callback "
                "(K4), setter calls and the two message-timeout probes (K5). distinct = distinct configurations",
        "samples": m["samples"],
        "counters": m["counters"],
    }
    return {"coverage": cov, "inconclusive": inconclusive,
            "assumptions": ["timing is decided in virtual time with one tick (K1) or two ticks (K3, K4) of slack; wall-clock plays no role",
                            "'indefinitely' (K2) is explored up to 10 virtual minutes of idle",
                            "a late answer to a connect is not 'unanswered' and is outside K4"]}
