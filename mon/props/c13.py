"""C13 - serializer: decode(encode(v)) == v and encodings are self-delimiting.

Contract on the real serialize_value / deserialize_value (and Serializable.dumpb /
loadb for objects): canon(decode(encode(v))) == canon(v) where canon tags every node
with its exact type (bool != int, tuple -> list, float by its float32 bit pattern so
NaN / +-inf / -0.0 compare, Serializable by class and fields, enum by class and
value); the decoder's stream position equals the encoding's length; k concatenated
encodings decode to the k values leaving an empty tail.  Outside the domain any
exception is required and no bytes that decode to something else may be produced.
"""
import os
from io import BytesIO

from mon.core.merge import merge, need
from mon.core.util import Counter, h64, rng, short
from mon.models import sergen as G

ID = "C13"
LEVEL = "exploration"
SHARD_TIMEOUT = {"quick": 600, "thorough": 3000}


def plan(tier, seed):
    if tier == "quick":
        return [{"tier": tier, "seed": seed, "shard": i, "n": 2500, "subprocess": True} for i in range(12)]
    return [{"tier": tier, "seed": seed, "shard": i, "n": 50000, "subprocess": True} for i in range(32)]


def encode(v):
    from mpgameserver import serializable as S
    st = BytesIO()
    S.serialize_value(st, v)
    return st.getvalue()


def decode_all(b, k=1):
    from mpgameserver import serializable as S
    st = BytesIO(b)
    out = [S.deserialize_value(st) for _ in range(k)]
    return out, st.tell()


def classify(v, stage, exc=None, hdepths=()):
    t = type(v)
    if stage == "decode-raised":
        unhashable = isinstance(exc, TypeError) and "unhashable" in str(exc)
        if t in (dict, set) and any(type(k) is tuple for k in v) and (unhashable or not hdepths):
            return "tuple-key-or-member-not-decodable"
        if unhashable:
            return "tuple-key-or-member-not-decodable"
        if hdepths:
            # the value holds an object of a class that writes its own header (serialize_header) and reads it back in deserialize()
            return "custom-header-object-not-decodable:%s" % ("top-level" if 0 in hdepths and len(hdepths) == 1 else "nested")
        return "decode-of-own-encoding-raised"
    return stage


def run_shard(cfg):
    from mpgameserver import serializable as S
    r = rng("C13", cfg["seed"], cfg["shard"])
    c = Counter()
    violations, samples, distinct = [], [], set()

    def viol(mech, msg, case):
        c.inc("viol:" + mech)
        if sum(1 for x in violations if x["mechanism"] == mech) < 6:
            violations.append({"mechanism": mech, "msg": msg, "case": case, "case_key": [cfg["seed"], cfg["shard"]]})

    classes, enums = G.make_classes(r, "c13s%dx%d" % (cfg["seed"], cfg["shard"]), n_classes=8, n_enums=4)
    # classes / enums that customise the documented serialize_header() hook (and read their header extension back in deserialize()):
    # members of the grammar like any other class - generated wherever a value may stand, alone and nested
    plain_classes = list(classes)
    hclasses, henums = G.make_header_classes(r, "c13s%dx%d" % (cfg["seed"], cfg["shard"]), classes, n_classes=4, n_enums=2)
    classes = classes + hclasses
    enums = enums + henums
    gen = G.ValueGen(r, classes, enums)
    pending = []
    for i in range(cfg["n"]):
        v = gen.value(0) if i % 4 else (r.choice(classes)._make(gen, 0) if classes else gen.value(0))
        if i % 40 == 13:
            # distinct doubles that are ONE float32: as set members / dictionary keys (alone or inside tuples) they coincide on the wire;
            # the encoding is still the library's own and decodes - to the collapsed set / dict
            x = r.choice([0.1, 3.141592653589793, 1e-50, 1 / 3, r.random(), -r.random() * 1e6, 16777217.0])
            y = G.f32(x)
            v = r.choice([{x, y}, {(1, x), (1, y)}, {x: "a", y: "b"}, [{x, y, 2.5}, {x: 1, y: 2}], {"k": {x, y}, "m": {(x, "t"): None, (y, "t"): [x]}}])
            c.inc("float32_collisions_in_sets_and_keys")
        if i % 40 == 27:
            o = r.choice(hclasses)._make(gen, 2)
            o2 = r.choice(hclasses)._make(gen, 3)
            e = r.choice(r.choice(henums)._members)
            host = r.choice([k for k in plain_classes if k._fields] or hclasses)._make(gen, 3)
            if "serialize" in type(host).__dict__:
                host.body = o                   # (an envelope class with its own wire format: its body is one object)
            elif type(host)._fields:
                setattr(host, r.choice(type(host)._fields), r.choice([o, e, [o, e], {"h": o}]))
            v = r.choice([o, e, [o, o2, e], (1, o, "x"), {"a": o, "b": e, "c": [o2]}, {o, o2}, {e}, {e: o}, {o: e}, host, [host, o2], {"k": [(o, None, e)]},
                          [gen.value(1), o, gen.value(1)]])
            c.inc("custom_header_values_built")
        c.inc("values")
        hdepths = G.custom_header_depths(v)
        try:
            want = G.canon(v)
        except Exception as e:
            c.inc("generator_skipped")
            continue
        try:
            b = encode(v)
        except Exception as e:
            # a value of the supported grammar was refused?
            viol("in-domain-value-refused", "serialize_value raised %r for %s" % (e, short(v, 30)), {"value": short(v, 60)})
            continue
        c.inc("encoded")
        c.inc("encoded_bytes", len(b))
        distinct.add(hash(b))
        try:
            got, pos = decode_all(b)
        except Exception as e:
            viol(classify(v, "decode-raised", e, hdepths), "decoding the encoding of %s raised %r" % (short(v, 30), e), {"value": short(v, 60), "encoding": b[:64].hex()})
            continue
        if pos != len(b):
            viol("not-self-delimiting", "decoder stopped at %d of %d bytes for %s" % (pos, len(b), short(v, 30)), {"value": short(v, 60)})
        if G.canon(got[0]) != want:
            viol("roundtrip-differs", "decode(encode(v)) != v: %s -> %s" % (short(v, 40), short(got[0], 40)), {"value": short(v, 80), "decoded": short(got[0], 80)})
        else:
            c.inc("roundtrips_equal")
            if 0 in hdepths:
                c.inc("custom_header_top_level_roundtrips")
            if any(d > 0 for d in hdepths):
                c.inc("custom_header_nested_roundtrips")
        # keyword arguments given to loadb() travel to specialised deserialize() methods and are nobody else's business: names
        # an application might pick must not change how the built-in types are decoded
        if i % 7 == 3:
            try:
                st_kw = BytesIO(b)
                got_kw = S.deserialize_value(st_kw, kind="k", limit=1, length=0, size=0, n=0, depth=0, max_length=0, name="x", field="y", cls=None)
                c.inc("decodes_with_foreign_kwargs")
                if G.canon(got_kw) != want:
                    viol("kwargs-change-decoding", "decoding %s with application keyword arguments gives another value" % short(v, 30), {"value": short(v, 60)})
            except Exception as e:
                viol("kwargs-change-decoding", "decoding %s with application keyword arguments (kind=, limit=, length= ...) raised %r" % (short(v, 30), e), {"value": short(v, 60)})
        # the application now owns the decoded value and changes it in place; nothing the decoder hands out later may be affected
        # (a shared empty list, a cached object ...): the following decodes are compared with their sources as always
        if i % 2 == 0:
            G.poison(got[0])
            c.inc("decoded_values_mutated_in_place")
        # dumpb/loadb for objects; the compressed and the persisted form carry the same encoding
        if isinstance(v, S.Serializable):
            try:
                b2 = v.dumpb()
                o2 = S.Serializable.loadb(b2)
                c.inc("dumpb_loadb")
                if b2 != b or G.canon(o2) != want:
                    viol("dumpb-loadb-differs", "dumpb/loadb disagree with serialize_value for %s" % type(v).__name__, {"value": short(v, 80)})
            except Exception as e:
                viol("dumpb-loadb-raised", "dumpb/loadb raised %r for %s" % (e, type(v).__name__), {"value": short(v, 80)})
            if i % 5 == 0:
                try:
                    o3 = S.Serializable.loadz(v.dumpz())
                    st_ = BytesIO()
                    v.store_persistant(st_)
                    o4 = S.Serializable.load_persistant(st_.getvalue())
                    c.inc("dumpz_and_persisted_roundtrips")
                    if G.canon(o3) != want or G.canon(o4) != want:
                        viol("secondary-codec-differs", "%s of %s does not give the object back" % ("dumpz/loadz" if G.canon(o3) != want else "store_persistant/load_persistant", type(v).__name__), {"value": short(v, 80)})
                except Exception as e:
                    viol("secondary-codec-raised", "dumpz/loadz or store_persistant/load_persistant raised %r for %s" % (e, type(v).__name__), {"value": short(v, 80)})
        # a history of refused (truncated / damaged) inputs must not disturb later decodes
        if i % 3 == 0 and len(b) > 3:
            bad = b[:r.randrange(3, len(b))] if i % 5 else bytes([b[0], b[1] ^ 0x40]) + b[2:]
            try:
                decode_all(bad)
            except Exception:
                c.inc("refused_inputs_interleaved")
            try:
                again, pos2 = decode_all(b)
                if G.canon(again[0]) != want or pos2 != len(b):
                    viol("decode-disturbed-by-earlier-failure", "after a refused input the valid encoding of %s decodes differently" % short(v, 30), {"value": short(v, 60)})
                else:
                    c.inc("decodes_after_refused_input_equal")
            except Exception as e:
                viol("decode-disturbed-by-earlier-failure", "after %d refused inputs a valid encoding is refused: %r" % (c.get("refused_inputs_interleaved", 0), e), {"value": short(v, 60)})
        # concatenation: self-delimiting encodings decode one after another
        pending.append((b, want))
        if len(pending) == 5:
            blob = b"".join(x for x, _ in pending)
            try:
                vals, pos = decode_all(blob, len(pending))
                c.inc("concatenations")
                if c.get("concatenations", 0) % 40 == 1:
                    # the same concatenation read from a file: unbuffered (raw) and buffered.  Each decode takes exactly its own bytes,
                    # whatever kind of stream it reads from
                    import tempfile
                    with tempfile.NamedTemporaryFile(dir=os.environ.get("VERIF_SCRATCH", "/var/tmp"), delete=True) as tf:
                        tf.write(blob + b"TRAILER")
                        tf.flush()
                        for buffering in (0, -1):
                            with open(tf.name, "rb", buffering=buffering) as fh:
                                try:
                                    vals_f = [S.Serializable.loadb(fh) for _ in range(len(pending))]
                                    rest = fh.read()
                                    c.inc("concatenations_from_files")
                                    if [G.canon(x) for x in vals_f] != [w_ for _, w_ in pending] or rest != b"TRAILER":
                                        viol("concatenation-differs", "5 concatenated encodings read from a %s file: values %s, %d bytes left instead of the 7-byte trailer" % (
                                            "raw (unbuffered)" if buffering == 0 else "buffered", "equal" if [G.canon(x) for x in vals_f] == [w_ for _, w_ in pending] else "differ", len(rest)), {})
                                except Exception as e_:
                                    viol("concatenation-raised", "decoding 5 concatenated encodings from a %s file raised %r" % ("raw" if buffering == 0 else "buffered", e_), {})
                if pos != len(blob) or [G.canon(x) for x in vals] != [w for _, w in pending]:
                    viol("concatenation-differs", "5 concatenated encodings do not decode to the 5 values (stopped at %d of %d)" % (pos, len(blob)), {})
            except Exception as e:
                if not any(vv["mechanism"].startswith("tuple-key") for vv in violations[-3:]):
                    viol("concatenation-raised", "decoding 5 concatenated encodings raised %r" % (e,), {})
            pending = []
        if len(samples) < 3 and i > 20 and type(v) in (dict, list) and len(b) < 200:
            samples.append({"value": short(v, 80), "encoding_hex": b.hex()[:160], "bytes": len(b)})
    c.inc("fields_none_with_non_none_default", getattr(gen, "none_fields", 0))
    # ---- the documented size limits themselves are inside the domain (shard 0 only: they are large)
    if cfg["shard"] == 0:
        limits = [("str-1MiB", "a" * (2 ** 20)), ("str-1MiB-utf8", "é" * (2 ** 19)), ("bytes-1MiB", b"\x01" * (2 ** 20)),
                  ("list-16384", list(range(16384))), ("tuple-16384", tuple(range(16384))), ("dict-16384", {i: None for i in range(16384)}),
                  ("set-16384", set(range(16384))), ("str-1MiB-1", "b" * (2 ** 20 - 1)), ("list-16383", [None] * 16383)]
        for name, v in limits:
            c.inc("limit_values")
            try:
                b = encode(v)
                got, pos = decode_all(b)
                if pos != len(b) or G.canon(got[0]) != G.canon(v):
                    viol("limit-value-roundtrip:%s" % name, "%s (exactly at / just below the documented limit) does not round-trip" % name, {"name": name})
                else:
                    c.inc("limit_values_roundtrip")
            except Exception as e:
                viol("limit-value-refused:%s" % name, "%s is inside the documented limits but raised %r" % (name, e), {"name": name})
    # ---- the size limits are module settings read by the encoder and by the decoder: raised or lowered, both sides follow
    if cfg["shard"] == 1:
        old_limit = S.MAX_ARRAY_LENGTH
        try:
            for new_limit, n_items in ((2 ** 15, 20000), (100, 100), (100, 101)):
                S.MAX_ARRAY_LENGTH = new_limit
                for name, v in (("list", list(range(n_items))), ("dict", {k: None for k in range(n_items)}), ("set", set(range(n_items)))):
                    c.inc("limit_settings_tried")
                    try:
                        b = encode(v)
                    except Exception:
                        if n_items <= new_limit:
                            viol("limit-setting-not-followed", "MAX_ARRAY_LENGTH=%d: a %s of %d items is refused by the encoder" % (new_limit, name, n_items), {"limit": new_limit})
                        continue
                    if n_items > new_limit:
                        viol("limit-setting-not-followed", "MAX_ARRAY_LENGTH=%d: a %s of %d items is encoded" % (new_limit, name, n_items), {"limit": new_limit})
                        continue
                    try:
                        got, pos = decode_all(b)
                        if G.canon(got[0]) != G.canon(v):
                            viol("limit-setting-not-followed", "MAX_ARRAY_LENGTH=%d: %s of %d items does not round-trip" % (new_limit, name, n_items), {"limit": new_limit})
                        else:
                            c.inc("limit_settings_roundtrip")
                    except Exception as e:
                        viol("limit-setting-not-followed", "MAX_ARRAY_LENGTH=%d: the encoder accepts a %s of %d items, the decoder raises %r" % (new_limit, name, n_items, e), {"limit": new_limit})
        finally:
            S.MAX_ARRAY_LENGTH = old_limit
    # ---- long strings with multi-byte characters across power-of-two byte offsets (striped over the shards)
    for name, v in G.boundary_strings(r, cfg["shard"], 12):
        c.inc("boundary_strings")
        try:
            b = encode(v)
            got, pos = decode_all(b)
            if pos != len(b) or got[0] != v:
                viol("long-string-roundtrip", "%s does not round-trip" % name, {"name": name})
            else:
                c.inc("boundary_strings_roundtrip")
        except Exception as e:
            viol("long-string-roundtrip", "%s is inside the documented limits but raised %r" % (name, e), {"name": name})
    # ---- outside the domain: refused with an error, never silently mis-encoded
    for name, v in G.out_of_domain(r):
        c.inc("out_of_domain_values")
        try:
            b = encode(v)
        except Exception as e:
            c.inc("out_of_domain_refused")
            continue
        # it was encoded: then it must at least decode back to the same thing
        try:
            got, pos = decode_all(b)
            same = G.canon(got[0]) == G.canon(v) and "unsupported" not in repr(G.canon(v))
        except Exception:
            same = False
        if not same:
            viol("out-of-domain-silently-encoded:%s" % name, "%s was encoded without an error into bytes that do not decode to it" % name, {"name": name})
        else:
            c.inc("out_of_domain_encoded_but_exact")
    # objects whose enum field holds an illegal value must be refused
    if enums:
        e = enums[0](None)
        try:
            encode(e)
            viol("illegal-enum-encoded", "an enum instance without a legal value was encoded", {})
        except Exception:
            c.inc("out_of_domain_refused")
    return {"evaluations": c.get("values", 0), "distinct": sorted(distinct), "counters": dict(c), "violations": violations, "samples": samples}


def finish(tier, seed, results):
    m = merge(results)
    inconclusive = []
    need(m["counters"], ["values", "encoded", "roundtrips_equal", "concatenations", "dumpb_loadb", "out_of_domain_refused", "limit_values_roundtrip",
                         "refused_inputs_interleaved", "decodes_after_refused_input_equal", "fields_none_with_non_none_default",
                         "boundary_strings_roundtrip", "decoded_values_mutated_in_place", "dumpz_and_persisted_roundtrips", "decodes_with_foreign_kwargs", "limit_settings_roundtrip", "concatenations_from_files",
                         "custom_header_top_level_roundtrips", "custom_header_nested_roundtrips"], inconclusive)
    cov = {
        "evaluations": m["evaluations"],
        "distinct_nontrivial": m["distinct_nontrivial"],
        "rule": "one evaluation = one generated value of the supported grammar (recursive, depth <= 6, boundary-biased: every integer width "
                "edge +-1 and negated, 2^63-1, -2^63, float32 extremes/NaN/inf/-0.0, empty and multi-byte strings, 32 KiB strings/bytes, "
                "lists/tuples/dicts/sets of up to 300 elements with keys of one family incl. tuples and enums, user classes with 0-6 "
                "fields, enums with int/str values) encoded and decoded through the real functions; every 5 values also concatenated. "
                "distinct = distinct encodings",
        "samples": m["samples"],
        "counters": m["counters"],
    }
    return {"coverage": cov, "inconclusive": inconclusive,
            "assumptions": ["hashable containers are generated free of cross-type == collisions (a Python set cannot represent them either)",
                            "subclasses of user Serializable classes are not generated (inheritance is not a documented shape)",
                            "strings/collections at the documented maximum sizes are exercised in the out-of-domain list only by max+1"]}
