"""C14 - deserializing hostile bytes is safe and bounded.

Per input b: the call returns or raises an ordinary Exception (not BaseException, not
MemoryError); the number of deserialize_value activations is <= len(b)/2 + 1 (each
consumes a 2-byte type id: the logical 'never iterates beyond the input' bound);
tracemalloc peak - start <= 32 KiB + 512 * len(b); a returned value contains only
supported builtins and instances of registered classes.  'Never hangs' is decided on a
*logical* step count: sys.monitoring LINE events on the code objects of the decoder
modules (serializable, connection, crypto) are counted per input and a budget of
20 000 + 60 per input byte line-steps raises inside the running code (a decoder that
loops without consuming input exceeds it; the worst input on the unchanged tree uses a
few percent).  The shard's wall-clock watchdog stays inconclusive, never a verdict.
A fourth logical meter counts COMPARISONS: sys.monitoring PY_START events on the rich
comparison methods (__eq__, __ne__, __lt__, ...) the decoder modules and the registered
classes define, plus the __eq__ of the workload's own value-comparing user class; more
than 4096 + 8 per input byte comparisons during one decode raises inside the running
code (a decoder that looks members up linearly does n*n/2 of them inside one C call:
no extra lines, no extra memory, no extra reads).

Inputs: random bytes; every truncation and many bit flips of a corpus of valid
encodings and of real client-hello / server-hello / challenge messages; every
registered type id x random bodies; declared lengths 0, max, max+1, 2^31-1, 2^63-1,
negative, non-integer for str / bytes / seq / map / set in every integer width; nesting
to depth 50 000; unhashable keys; sets / map key sets / several sets in one body with
hundreds to 16384 distinct COMPOSITE members (enum members of every registered enum
class, tuples, tuples of enum members, nested tuples, objects of a user class with
value equality, each member also sent twice); also through the real
ServerClientConnection._recvClientHello / _recvChallengeResponse, the client's
_recvServerHello and Request.message().
"""
import os
import struct
import time
import tracemalloc
from io import BytesIO

from mon.core.merge import merge, need
from mon.core.util import Counter, h64, rng, short
from mon.models import sergen as G

ID = "C14"
LEVEL = "exploration"
SHARD_TIMEOUT = {"quick": 600, "thorough": 3000}

ALLOC_BASE = 32 * 1024
ALLOC_PER_BYTE = 512


def plan(tier, seed):
    if tier == "quick":
        return [{"tier": tier, "seed": seed, "shard": i, "n": 20000, "subprocess": True} for i in range(14)]
    return [{"tier": tier, "seed": seed, "shard": i, "n": 500000, "subprocess": True} for i in range(32)]


INT_T = {"int8": (3, ">b", 1), "int16": (4, ">h", 2), "int32": (5, ">l", 4), "int64": (6, ">q", 8),
         "uint8": (8, ">B", 1), "uint16": (9, ">H", 2), "uint32": (10, ">L", 4)}


def enc_int(width, value):
    tid, fmt, n = INT_T[width]
    return struct.pack(">H", tid) + struct.pack(fmt, value)


def length_attacks(r):
    """declared lengths for str(13) / bytes(14) / seq(16) / map(17) / set(18) in every integer width"""
    out = []
    lens = {"int8": [0, 1, 127, -1, -128], "int16": [0, 300, 16384, 16385, 32767, -1, -32768], "uint8": [0, 255], "uint16": [16384, 16385, 65535],
            "int32": [0, 2 ** 20, 2 ** 20 + 1, 16384, 16385, 2 ** 31 - 1, -1, -2 ** 31], "uint32": [2 ** 20, 2 ** 20 + 1, 2 ** 32 - 1],
            "int64": [0, 2 ** 20 + 1, 2 ** 31 - 1, 2 ** 63 - 1, -1, -2 ** 63, 16385]}
    for container in (13, 14, 16, 17, 18):
        for width, values in lens.items():
            for v in values:
                body = r.randbytes(r.choice([0, 1, 4, 40]))
                out.append(("declared-length", struct.pack(">H", container) + enc_int(width, v) + body))
        # non-integer length fields
        for alt in (struct.pack(">H", 15), struct.pack(">H?", 1, True), struct.pack(">Hf", 11, 3.0), struct.pack(">H", 13) + enc_int("int8", 1) + b"x",
                    struct.pack(">H", 16) + enc_int("int8", 0), struct.pack(">Hd", 12, 1e300)):
            out.append(("non-integer-length", struct.pack(">H", container) + alt + r.randbytes(8)))
    return out


def nesting_attacks(r):
    out = []
    for depth in (10, 300, 340, 1000, 5000, 50000):
        one = struct.pack(">H", 16) + enc_int("int8", 1)
        out.append(("deep-nesting-seq", one * depth + struct.pack(">H", 15)))
        m = struct.pack(">H", 17) + enc_int("int8", 1) + enc_int("int8", 0)
        out.append(("deep-nesting-map-values", m * depth + struct.pack(">H", 15)))
    # wide: maximal declared counts with tiny elements
    out.append(("wide-seq", struct.pack(">H", 16) + enc_int("int16", 16384) + struct.pack(">H", 15) * 16384))
    out.append(("wide-seq-truncated", struct.pack(">H", 16) + enc_int("int16", 16384) + struct.pack(">H", 15) * 100))
    out.append(("wide-map", struct.pack(">H", 17) + enc_int("int16", 16384) + b"".join(enc_int("int16", i) + struct.pack(">H", 15) for i in range(16384))))
    # declared-length attacks INSIDE a container with a large declared count: a length field that makes the decoder
    # re-read or skip bytes (negative, huge) multiplies with the count
    for outer in (16, 18, 17):
        for count_w, count in (("int16", 16384), ("int8", 100), ("int16", 300)):
            for inner in (13, 14, 16, 17, 18):
                for width, v in (("int8", -1), ("int8", -5), ("int8", -128), ("int16", -300), ("int32", -2 ** 31), ("int64", -2 ** 63), ("int8", 0),
                                 ("int32", 2 ** 31 - 1), ("int16", 16384)):
                    elem = struct.pack(">H", inner) + enc_int(width, v)
                    if outer == 17:
                        elem = enc_int("int8", 1) + elem              # key, then the value under attack
                    out.append(("nested-declared-length", struct.pack(">H", outer) + enc_int(count_w, count) + elem + r.randbytes(r.choice([0, 3, 12]))))
    # unhashable keys / members
    lst = struct.pack(">H", 16) + enc_int("int8", 0)
    dct = struct.pack(">H", 17) + enc_int("int8", 0)
    out.append(("unhashable-key", struct.pack(">H", 17) + enc_int("int8", 1) + dct + struct.pack(">H", 15)))
    out.append(("unhashable-member", struct.pack(">H", 18) + enc_int("int8", 2) + dct + lst))
    out.append(("set-in-set", struct.pack(">H", 18) + enc_int("int8", 1) + struct.pack(">H", 18) + enc_int("int8", 0)))
    return out


def corpus(r, tag):
    """valid encodings: generated values, and the real handshake messages"""
    from mpgameserver import serializable as S
    import mpgameserver.connection as C
    from mpgameserver import EllipticCurvePrivateKey, ServerContext, EventHandler
    classes, enums = G.make_classes(r, tag, n_classes=5, n_enums=2)
    gen = G.ValueGen(r, classes, enums)
    out = []
    for i in range(40):
        v = gen.value(0)
        st = BytesIO()
        try:
            S.serialize_value(st, v)
            if len(st.getvalue()) < 1500:
                out.append(("value", st.getvalue()))
        except Exception:
            pass
    # real handshake messages
    m = C.HandshakeClientHelloMessage()
    m.client_pubkey = EllipticCurvePrivateKey.new().getPublicKey()
    m.client_version = 1
    hello = m.dumpb()
    root = EllipticCurvePrivateKey.new()
    sh = C.HandshakeServerHelloMessage()
    sh.server_pubkey = EllipticCurvePrivateKey.new().getPublicKey()
    sh.salt = r.randbytes(16)
    sh.token = 0x40000000 | r.getrandbits(30)
    server_hello = sh.dumpb(server_root_key=root)
    ch = C.HandshakeClientChallengeResponseMessage()
    ch.token = sh.token
    challenge = ch.dumpb()
    out += [("client-hello", hello), ("server-hello", server_hello), ("challenge", challenge)]
    return out, classes, enums, root


class StepBudgetExceeded(BaseException):
    """raised from the LINE-event callback: the decoder executed far more lines than the input can justify"""


class CompareBudgetExceeded(BaseException):
    """raised from the PY_START callback of a comparison method (or from the workload's own __eq__): the decoder compared
    members far more often than the input can justify"""


CMP_NAMES = ("__eq__", "__ne__", "__lt__", "__le__", "__gt__", "__ge__")
CMP_BASE = 4096
CMP_PER_BYTE = 8


class StepMeter(object):
    """sys.monitoring LINE events on the code objects of the decoder modules: a *logical* step count per input.
    'Never hangs' is decided on steps, not on wall-clock: exceeding the budget raises inside the running code."""
    TOOL = 4

    def __init__(self):
        import sys
        import types
        import mpgameserver.serializable as S
        import mpgameserver.connection as C
        import mpgameserver.crypto as K
        import mpgameserver.http_server as H
        self.mon = sys.monitoring
        self.steps = 0
        self.budget = 1 << 60
        self.compares = 0
        self.cmp_budget = 1 << 60
        self.codes = []
        self.cmp_codes = []
        seen = set()

        def add_code(co):
            if id(co) in seen:
                return
            seen.add(id(co))
            self.codes.append(co)
            for const in co.co_consts:
                if isinstance(const, types.CodeType):
                    add_code(const)

        def walk(obj, depth=0):
            if isinstance(obj, types.FunctionType):
                add_code(obj.__code__)
            elif isinstance(obj, (staticmethod, classmethod)):
                walk(obj.__func__)
            elif isinstance(obj, type) and depth < 2 and getattr(obj, "__module__", "").startswith("mpgameserver"):
                for v in list(vars(obj).values()):
                    walk(v, depth + 1)
        for mod in (S, C, K):
            for v in list(vars(mod).values()):
                if getattr(v, "__module__", None) == mod.__name__ or isinstance(v, types.FunctionType):
                    walk(v)
        walk(H.Request)
        self.mon.use_tool_id(self.TOOL, "verif-c14")
        meter = self

        def on_line(code, line):
            meter.steps += 1
            if meter.steps > meter.budget:
                meter.budget = 1 << 60          # raise once
                raise StepBudgetExceeded(meter.steps)
        self.mon.register_callback(self.TOOL, self.mon.events.LINE, on_line)
        for co in self.codes:
            self.mon.set_local_events(self.TOOL, co, self.mon.events.LINE)
        # comparison meter: the rich comparison methods written in Python by the decoder modules' classes and by every class
        # registered so far (the C-level `in` / set / dict lookups call them: one PY_START event per comparison)
        cmp_seen = set()
        owners = [v for mod in (S, C, K) for v in list(vars(mod).values()) if isinstance(v, type) and getattr(v, "__module__", None) == mod.__name__]
        owners += [v for v in list(S.SerializableType.registry.values()) if isinstance(v, type)]
        for cls_ in owners:
            for k in cls_.__mro__:
                if k is object:
                    continue
                for nm in CMP_NAMES:
                    f = vars(k).get(nm)
                    if isinstance(f, types.FunctionType) and id(f.__code__) not in cmp_seen:
                        cmp_seen.add(id(f.__code__))
                        self.cmp_codes.append(f.__code__)

        def on_start(code, offset):
            meter.tick_compare()
        self.mon.register_callback(self.TOOL, self.mon.events.PY_START, on_start)
        for co in self.cmp_codes:
            ev = self.mon.events.LINE if id(co) in seen else 0
            self.mon.set_local_events(self.TOOL, co, ev | self.mon.events.PY_START)

    def tick_compare(self):
        self.compares += 1
        if self.compares > self.cmp_budget:
            self.cmp_budget = 1 << 60          # raise once
            raise CompareBudgetExceeded(self.compares)

    def undo(self):
        for co in self.codes + self.cmp_codes:
            try:
                self.mon.set_local_events(self.TOOL, co, 0)
            except Exception:
                pass
        self.mon.register_callback(self.TOOL, self.mon.events.LINE, None)
        self.mon.register_callback(self.TOOL, self.mon.events.PY_START, None)
        self.mon.free_tool_id(self.TOOL)


STEP_BASE = 20000
STEP_PER_BYTE = 60


class ReadMeter(object):
    """the serializer opens its inputs with the module-level name BytesIO: a counting subclass adds up the bytes every
    read()/getvalue()/getbuffer() hands out - work done inside C calls that line-steps and peak allocation do not see
    (re-reading or copying the rest of the input per element is quadratic work per input)"""

    def __init__(self):
        import io
        from mpgameserver import serializable as S
        import mpgameserver.connection as C
        meter = self
        self.bytes_out = 0

        class CountingBytesIO(io.BytesIO):
            def read(self, *a):
                d = io.BytesIO.read(self, *a)
                meter.bytes_out += len(d)
                return d

            def read1(self, *a):
                d = io.BytesIO.read1(self, *a)
                meter.bytes_out += len(d)
                return d

            def readline(self, *a):
                d = io.BytesIO.readline(self, *a)
                meter.bytes_out += len(d)
                return d

            def getvalue(self):
                d = io.BytesIO.getvalue(self)
                meter.bytes_out += len(d)
                return d

            def getbuffer(self):
                d = io.BytesIO.getbuffer(self)
                meter.bytes_out += len(d)
                return d
        self.S, self.C = S, C
        self.orig = (S.BytesIO, C.BytesIO)
        S.BytesIO = CountingBytesIO
        C.BytesIO = CountingBytesIO
        self.cls = CountingBytesIO

    def undo(self):
        self.S.BytesIO, self.C.BytesIO = self.orig


READ_BASE = 4096
READ_PER_BYTE = 4


class Meter(object):
    """activation counter on deserialize_value (module global, so recursion goes through it)"""

    def __init__(self):
        from mpgameserver import serializable as S
        import mpgameserver.connection as C
        self.S, self.C = S, C
        self.orig = S.deserialize_value
        self.n = 0
        meter = self
        orig = self.orig

        def counted(stream, **kwargs):
            meter.n += 1
            return orig(stream, **kwargs)
        S.deserialize_value = counted
        self.c_orig = C.deserialize_value
        C.deserialize_value = counted

    def undo(self):
        self.S.deserialize_value = self.orig
        self.C.deserialize_value = self.c_orig


def run_shard(cfg):
    from mpgameserver import serializable as S
    import mpgameserver.connection as C
    from mpgameserver import ServerContext, EventHandler
    from mpgameserver.http_server import Request
    import logging
    logging.getLogger("mpgameserver").setLevel(100)
    r = rng("C14", cfg["seed"], cfg["shard"])
    c = Counter()
    if cfg["shard"] % 2 == 1:
        # a deployment with logging configured the way the library's own setupLogger() does it (level INFO, a handler that formats
        # every record): whatever the decoder logs about hostile input is part of what decoding that input costs
        class FormatSink(logging.Handler):
            def emit(self, record):
                c.inc("log_records_formatted")
                try:
                    self.format(record)
                except Exception:
                    c.inc("log_records_failed_to_format")
        lg_ = logging.getLogger("mpgameserver")
        lg_.setLevel(logging.INFO)
        lg_.propagate = False
        sink_ = FormatSink()
        sink_.setFormatter(logging.Formatter('%(asctime)-15s %(levelname)s %(pathname)s:%(funcName)s:%(lineno)d: %(message)s'))
        lg_.addHandler(sink_)
        c.inc("shards_with_logging_configured")
    violations, samples, distinct = [], [], set()

    def viol(mech, msg, case):
        c.inc("viol:" + mech)
        if sum(1 for x in violations if x["mechanism"] == mech) < 6:
            violations.append({"mechanism": mech, "msg": msg, "case": case, "case_key": [cfg["seed"], cfg["shard"]]})

    valid, classes, enums, root = corpus(r, "c14s%dx%d" % (cfg["seed"], cfg["shard"]))
    registry_classes = set(S.SerializableType.registry.values())
    type_ids = sorted(S.SerializableType.registry) + sorted(S.deserialize_types)
    meter = Meter()
    reads = ReadMeter()
    steps = StepMeter()
    ctxt = ServerContext(EventHandler(), root)
    worst = {"ratio": 0.0, "act": 0.0, "steps": 0.0}

    def entry_points(b):
        yield "loadb", lambda: S.Serializable.loadb(b)

    def judge(label, b, via="loadb"):
        c.inc("inputs")
        c.inc("inputs_" + label.split(":")[0])
        if via == "loadb":
            call = lambda: S.Serializable.loadb(b)
        elif via == "client-hello-handler":
            def call():
                conn = C.ServerClientConnection(ctxt, ("10.0.0.9", 9))
                return conn._recvClientHello(b)
        elif via == "challenge-handler":
            def call():
                conn = C.ServerClientConnection(ctxt, ("10.0.0.9", 9))
                ctxt.temp_connections[conn.addr] = conn
                try:
                    return conn._recvChallengeResponse(b)
                finally:
                    ctxt.temp_connections.pop(conn.addr, None)
                    ctxt.connections.pop(conn.addr, None)
        elif via == "server-hello-handler":
            def call():
                conn = C.ClientServerConnection(("10.0.0.1", 1))
                conn.setServerPublicKey(root.getPublicKey())
                return conn._recvServerHello(b)
        elif via == "load-persistant":
            def call():
                return S.Serializable.load_persistant(b)
        elif via == "loadz":
            import gzip as _gz
            zb = _gz.compress(b)

            def call():
                return S.Serializable.loadz(zb)
        elif via == "buffered-file":
            def call():
                import tempfile
                with tempfile.NamedTemporaryFile(dir=os.environ.get("VERIF_SCRATCH", "/var/tmp")) as tf:
                    tf.write(b)
                    tf.flush()
                    with open(tf.name, "rb") as fh:
                        return S.Serializable.loadb(fh)
        else:
            def call():
                return Request(("1.2.3.4", 5), "POST", "/m", {}, "", {}, reads.cls(b)).message()
        meter.n = 0
        reads.bytes_out = 0
        steps.steps = 0
        steps.budget = STEP_BASE + STEP_PER_BYTE * len(b)
        steps.compares = 0
        cmp_limit = CMP_BASE + CMP_PER_BYTE * len(b)
        steps.cmp_budget = cmp_limit
        cmp_reported = False
        tracemalloc.clear_traces()
        base = tracemalloc.get_traced_memory()[0]
        tracemalloc.reset_peak()
        t0 = time.perf_counter()
        res, exc = None, None
        try:
            res = call()
            c.inc("returned")
        except MemoryError as e:
            exc = e
            viol("memory-error", "%s input of %d bytes (%s) raised MemoryError" % (label, len(b), via), {"input": b[:64].hex(), "label": label})
        except Exception as e:
            exc = e
            c.inc("raised_ordinary_exception")
        except StepBudgetExceeded as e:
            exc = e
            viol("hangs-or-iterates-beyond-input", "%s input of %d bytes (%s): more than %d decoder line-steps executed (budget %d + %d per byte) - "
                 "the decoder loops without being bounded by its input" % (label, len(b), via, steps.steps, STEP_BASE, STEP_PER_BYTE),
                 {"input": b[:64].hex(), "label": label, "via": via, "length": len(b)})
        except CompareBudgetExceeded as e:
            exc = e
            cmp_reported = True
            viol("compares-beyond-input", "%s input of %d bytes (%s): more than %d comparisons of decoded members/keys (budget %d + %d per byte) during one "
                 "decode - the decoder finds members/keys by comparing them with one another (a linear lookup, or hashing that does not separate "
                 "them): work that grows with the square of the declared length" % (label, len(b), via, steps.compares - 1, CMP_BASE, CMP_PER_BYTE),
                 {"input": b[:64].hex(), "label": label, "via": via, "length": len(b)})
        except BaseException as e:
            exc = e
            viol("base-exception", "%s input of %d bytes raised %r (not an ordinary Exception)" % (label, len(b), e), {"input": b[:64].hex(), "label": label})
        steps.budget = 1 << 60
        steps.cmp_budget = 1 << 60
        dt = time.perf_counter() - t0
        if steps.compares > cmp_limit and not cmp_reported:
            # the decoder swallowed the meter's exception: the count still stands
            viol("compares-beyond-input", "%s input of %d bytes (%s): %d comparisons of decoded members/keys during one decode (budget %d + %d per byte)" % (
                label, len(b), via, steps.compares, CMP_BASE, CMP_PER_BYTE), {"input": b[:64].hex(), "label": label, "via": via, "length": len(b)})
        worst["cmp"] = max(worst.get("cmp", 0.0), steps.compares / float(cmp_limit))
        c.inc("comparisons_metered", steps.compares)
        worst["steps"] = max(worst["steps"], steps.steps / float(STEP_BASE + STEP_PER_BYTE * len(b)))
        c.inc("decoder_line_steps", steps.steps)
        peak = tracemalloc.get_traced_memory()[1] - base
        del exc
        if dt > 60.0:
            c.inc("watchdog_inconclusive")
        if via in ("loadb", "request-message", "load-persistant"):
            bound = len(b) // 2 + 1
            if meter.n > bound:
                viol("iterates-beyond-input", "%s input of %d bytes (%s): %d decoder activations, bound %d" % (label, len(b), via, meter.n, bound),
                     {"input": b[:64].hex(), "label": label, "activations": meter.n})
            worst["act"] = max(worst["act"], meter.n / float(bound))
        c.inc("stream_bytes_handed_out", reads.bytes_out)
        if reads.bytes_out:
            c.inc("inputs_with_read_meter")
        if reads.bytes_out > READ_BASE + READ_PER_BYTE * len(b):
            viol("rereads-input", "%s input of %d bytes (%s): the decoder pulled %d bytes out of its input stream (bound %d + %d per byte): it reads or copies "
                 "the input again and again" % (label, len(b), via, reads.bytes_out, READ_BASE, READ_PER_BYTE),
                 {"input": b[:64].hex(), "label": label, "bytes_out": reads.bytes_out, "length": len(b)})
        worst["reads"] = max(worst.get("reads", 0.0), reads.bytes_out / float(READ_BASE + READ_PER_BYTE * len(b)))
        limit = ALLOC_BASE + ALLOC_PER_BYTE * len(b)
        if via in ("client-hello-handler", "challenge-handler", "server-hello-handler"):
            limit += 64 * 1024          # key objects of the connection the handler belongs to
        if via in ("loadz", "buffered-file"):
            # the reader's own buffers (gzip: ~58 KiB, buffered file: 8 KiB + the temp file object) plus ONE read request of at most
            # the documented size limit: BufferedReader/GzipFile allocate what read(n) asks for before the data turns out to be
            # missing (observation (vi) in DESIGN.md; the decoder never asks for more than MAX_BYTES_LENGTH)
            limit += 192 * 1024 + S.MAX_BYTES_LENGTH
        if peak > limit:
            viol("allocates-beyond-input", "%s input of %d bytes (%s): peak allocation %d bytes, bound %d" % (label, len(b), via, peak, limit),
                 {"input": b[:64].hex(), "label": label, "peak": peak})
        if len(b):
            worst["ratio"] = max(worst["ratio"], max(0, peak - ALLOC_BASE) / float(len(b)))
        if res is not None and via == "loadb":
            c.inc("decoded_values_inspected")
            if not G.only_supported(res, registry_classes):
                viol("foreign-type-in-result", "%s input decoded to a value containing an unsupported type: %s" % (label, short(res, 40)), {"input": b[:64].hex()})
        distinct.add(h64(via, b[:4096]))

    tracemalloc.start()
    try:
        # positive control: valid encodings decode
        baseline_types = {}
        for kind, b in valid:
            try:
                v0 = S.Serializable.loadb(b, server_public_key=root.getPublicKey()) if kind == "server-hello" else S.Serializable.loadb(b)
                baseline_types[b] = (type(v0), G.canon(v0) if kind == "value" else None)
            except Exception:
                pass
        for kind, b in valid:
            if kind == "value":
                try:
                    S.Serializable.loadb(b)
                    c.inc("control_valid_decoded")
                except Exception as e:
                    c.inc("control_valid_failed")
        # structured attacks (every shard runs them all: they are few)
        attacks = length_attacks(r) + nesting_attacks(r)
        # many DISTINCT instances of a registered class as members of one set / keys of one map (well-formed input whose cost
        # depends on how the library hashes and compares its own objects)
        if classes:
            Small = type("C14Small%dx%d" % (cfg["seed"], cfg["shard"]), (S.Serializable,), {"__annotations__": {"n": int}, "n": 0})
            for n_obj in (500, 3000):
                objs = []
                for k in range(n_obj):
                    o = Small()
                    o.n = k
                    objs.append(o)
                st = BytesIO()
                S.serialize_value(st, set(objs))
                attacks.append(("many-objects:set-of-%d" % n_obj, st.getvalue()))
                st = BytesIO()
                S.serialize_value(st, {o: None for o in objs})
                attacks.append(("many-objects:map-keys-%d" % n_obj, st.getvalue()))
        # many distinct COMPOSITE members in ONE set / as the keys of ONE map / in several sets of one body: enum members of every
        # kind of registered enum class (a decoded enum member holds whatever value the peer sent), tuples, tuples of enum members,
        # nested tuples, objects of a user class that defines value equality (__eq__/__hash__ over its field).  All members are
        # distinct (and hash differently), so building the collection needs next to no comparisons; the "-twice" variants send
        # every member twice (one comparison per duplicate: the positive control of the comparison meter).  Cost is judged by the
        # comparison meter, the line-step budget and the other bounds like every other input
        composite = []
        sm = steps

        def _veq(self, other):
            sm.tick_compare()
            return type(other) is type(self) and self.n == other.n

        ValueObj = type("C14ValueObj%dx%d" % (cfg["seed"], cfg["shard"]), (S.Serializable,), {
            "__annotations__": {"n": int}, "n": 0, "__eq__": _veq, "__hash__": lambda self: hash(self.n)})
        OwnEnum = type("C14Enum%dx%d" % (cfg["seed"], cfg["shard"]), (S.SerializableEnum,), {"FIRST": 0, "SECOND": 1, "THIRD": 2})
        registry_classes.update((ValueObj, OwnEnum))
        other_enums = list(enums) + [k for _t, k in sorted(S.SerializableType.registry.items())
                                     if isinstance(k, type) and issubclass(k, S.SerializableEnum) and k is not OwnEnum and k not in enums]
        OtherEnum = r.choice(other_enums) if other_enums else OwnEnum

        # (encoded by hand: tens of thousands of members through the library's encoder under the meters would cost more than the decodes)
        def enc(v):
            if v is None:
                return struct.pack(">H", 15)
            if isinstance(v, str):
                raw = v.encode("utf-8")
                return struct.pack(">H", 13) + enc(len(raw)) + raw
            return enc_int("int8" if -128 <= v < 128 else "int16" if -32768 <= v < 32768 else "int32", v)

        def seq_of(parts):
            return struct.pack(">H", 16) + enc(len(parts)) + b"".join(parts)

        def enum_member(E, k):
            return struct.pack(">H", E.type_id) + enc(k)

        probe = ValueObj()
        probe.n = 0x5A6B7C8D
        st_ = BytesIO()
        S.serialize_value(st_, probe)
        vo_template = st_.getvalue().split(struct.pack(">l", probe.n))
        if len(vo_template) != 2:
            vo_template = None

        def value_obj(k):
            if vo_template is not None:
                return vo_template[0] + struct.pack(">l", k) + vo_template[1]
            o = ValueObj()
            o.n = k
            st_ = BytesIO()
            S.serialize_value(st_, o)
            return st_.getvalue()

        member_kinds = [
            ("enum-int-valued", lambda k: enum_member(OwnEnum, k)),
            ("enum-int-valued-%s" % OtherEnum.__name__[:12], lambda k: enum_member(OtherEnum, k)),
            ("enum-str-valued", lambda k: enum_member(OtherEnum, "m%d" % k)),
            ("tuple-of-ints", lambda k: seq_of([enc(k), enc(k ^ 0x5555)])),
            ("tuple-of-enum-and-int", lambda k: seq_of([enum_member(OtherEnum, k), enc(7)])),
            ("nested-tuple-of-enum", lambda k: seq_of([seq_of([enum_member(OwnEnum, k)]), enc(None)])),
            ("value-equal-objects", value_obj),
            ("tuple-of-value-equal-object", lambda k: seq_of([enc(k % 3), value_obj(k)])),
        ]

        def set_of(members):
            return struct.pack(">H", 18) + enc(len(members)) + b"".join(members)

        def map_of(members):
            return struct.pack(">H", 17) + enc(len(members)) + b"".join(m_ + struct.pack(">H", 15) for m_ in members)

        rot = cfg["shard"] + cfg["seed"]
        for j_kind, (kind, member) in enumerate(member_kinds):
            # every kind on every shard with hundreds of members; one kind per shard with thousands; on a quarter of the shards one
            # kind with the documented maximum count (the kinds rotate over shards and seeds)
            n_mem = r.choice([600, 800, 1000])
            base = r.randrange(0, 20000)
            members = [member(base + k) for k in range(n_mem)]
            composite.append(("many-members:set-of-%d-%s" % (n_mem, kind), set_of(members)))
            composite.append(("many-members:map-keys-%d-%s" % (n_mem, kind), map_of(members)))
            if (j_kind + rot) % 2 == 0:
                twice = members[:n_mem // 2] * 2
                r.shuffle(twice)
                composite.append(("many-members:set-of-%d-%s-twice" % (n_mem, kind), set_of(twice)))
            if (j_kind + rot) % len(member_kinds) == 1:
                q = n_mem // 4
                composite.append(("many-members:4-sets-of-%d-%s" % (q, kind), seq_of([set_of(members[j * q:(j + 1) * q]) for j in range(4)])))
            if (j_kind + rot) % len(member_kinds) == 0:
                n_big = r.choice([3000, 4000, 6000])
                members = [member(base + k) for k in range(n_big)]
                composite.append(("many-members:set-of-%d-%s" % (n_big, kind), set_of(members)))
                composite.append(("many-members:map-keys-%d-%s" % (n_big, kind), map_of(members)))
            if cfg["shard"] % 4 == 2 and (j_kind + rot // 4) % len(member_kinds) == 3:
                members = [member(base + k) for k in range(S.MAX_ARRAY_LENGTH)]
                composite.append(("many-members:set-of-%d-%s" % (len(members), kind), set_of(members)))
        # compressed bombs: a few KiB that inflate to many MiB, behind the magic numbers of the usual containers - the decoder reads a
        # type id, it has no business inflating anything
        import gzip
        import zlib
        import bz2
        import lzma
        for n_mib in ((8, 32) if cfg["shard"] % 4 == 0 else (8,)):
            raw = bytes(n_mib << 20)
            attacks.append(("bomb:gzip-%dMiB" % n_mib, gzip.compress(raw, 6)))
            attacks.append(("bomb:zlib-%dMiB" % n_mib, zlib.compress(raw, 6)))
        if cfg["shard"] % 4 == 1:
            attacks.append(("bomb:bz2-8MiB", bz2.compress(bytes(8 << 20))))
            attacks.append(("bomb:xz-8MiB", lzma.compress(bytes(8 << 20))))
        attacks.append(("bomb:gzip-of-valid-encoding", gzip.compress(valid[0][1])))
        # for EVERY registered class (library classes that never travel included): thousands of copies of its smallest encoding
        # ("object with zero fields", 5 bytes) in one sequence - constructing an instance costs what its constructor costs
        st0 = BytesIO()
        S.serialize_value(st0, 0)
        zero = st0.getvalue()
        n_copies = 2000
        st1 = BytesIO()
        S.serialize_value(st1, [None] * n_copies)
        head = st1.getvalue()[:len(st1.getvalue()) - 2 * n_copies]
        for tid in sorted(S.SerializableType.registry):
            attacks.append(("many-empty-objects:type-%d" % tid, head + (struct.pack(">H", tid) + zero) * n_copies))
        for label, b in composite:
            before = c.get("returned", 0)
            judge(label, b)
            if c.get("returned", 0) > before:
                c.inc("many_members_decoded")
            if "enum-int-valued" in label and len(b) < 12000:
                judge(label, b, via="request-message")
        for label, b in attacks:
            judge(label, b)
            if label.startswith("bomb") and len(b) < 1400:
                judge(label, b, via="client-hello-handler")
            if label.startswith(("declared-length", "nested-declared-length", "non-integer-length")) and len(b) < 4000:
                # the same hostile bytes behind the other stream kinds (a reader that honours read(n) by allocating n bytes first)
                judge(label, b, via="loadz")
                judge(label, b, via="buffered-file")
                c.inc("via_other_stream_kinds")
        # enums with values that are no member's - and look like format strings, paths, numbers (what gets logged or looked up about them)
        for tid, cls_ in sorted(S.SerializableType.registry.items()):
            if isinstance(cls_, type) and issubclass(cls_, S.SerializableEnum):
                for val in ("%120000000s", b"%120000000s", "%(x)s %99999999d", "%s%s%s%s", "{0:>99999999}", 2 ** 40, -1, 1e30, "", "x" * 300):
                    st_e = BytesIO()
                    S.serialize_value(st_e, val)
                    judge("enum-illegal-value", struct.pack(">H", tid) + st_e.getvalue())
                    if len(attacks) < 400:
                        attacks.append(("enum-illegal-value", struct.pack(">H", tid) + st_e.getvalue()))
        # well-formed handshake messages (valid key, correct padding) whose integer fields hold extreme values: what the handler
        # does with a number an unauthenticated peer chose costs what the datagram costs, not what the number says
        try:
            import mpgameserver.connection as C_
            from mpgameserver import EllipticCurvePrivateKey as K_
            for val in (2 ** 30, 2 ** 31 - 1, 2 ** 26 + 5, 2 ** 40, 2 ** 63 - 1, -2 ** 63, -1, 0, 255, 65536, 10 ** 9):
                m_ = C_.HandshakeClientHelloMessage()
                m_.client_pubkey = K_.new().getPublicKey()
                m_.client_version = val
                judge("extreme-field:client-hello-version", m_.dumpb(), via="client-hello-handler")
                ch_ = C_.HandshakeClientChallengeResponseMessage()
                ch_.token = val
                judge("extreme-field:challenge-token", ch_.dumpb(), via="challenge-handler")
                sh_ = C_.HandshakeServerHelloMessage()
                sh_.server_pubkey = K_.new().getPublicKey()
                sh_.salt = r.randbytes(16)
                sh_.token = val
                judge("extreme-field:server-hello-token", sh_.dumpb(server_root_key=root), via="server-hello-handler")
                c.inc("inputs_extreme_handshake_fields", 3)
        except (ValueError, OverflowError, struct.error):
            c.inc("extreme_handshake_fields_not_encodable")
        # the real handshake decoders and Request.message on mutated handshake messages
        hs = {k: b for k, b in valid if k != "value"}
        n = cfg["n"]
        budget = {"trunc": n // 6, "flip": n // 4, "typeid": n // 6, "random": n // 4, "handlers": n // 8}
        # every truncation of every corpus member (striped)
        items = []
        for kind, b in valid:
            step = max(1, len(b) // 120)
            for cut in range(0, len(b), step):
                items.append(("truncation:" + kind, b[:cut]))
        r.shuffle(items)
        for label, b in items[:budget["trunc"]]:
            judge(label, b)
        # bit flips
        for _ in range(budget["flip"]):
            kind, b = r.choice(valid)
            if not b:
                continue
            bb = bytearray(b)
            for _k in range(r.choice([1, 1, 1, 2, 5])):
                i = r.randrange(min(len(bb), 400)) if r.random() < 0.8 else r.randrange(len(bb))
                bb[i] ^= 1 << r.randrange(8)
            judge("bitflip:" + kind, bytes(bb))
        # every registered type id x random bodies
        for _ in range(budget["typeid"]):
            tid = r.choice(type_ids) if r.random() < 0.9 else r.randrange(65536)
            body = r.randbytes(r.choice([0, 1, 2, 3, 8, 30, 200]))
            if r.random() < 0.3:
                body = enc_int("int8", r.randint(-5, 60)) + body
            judge("typeid", struct.pack(">H", tid) + body)
        # random bytes
        for _ in range(budget["random"]):
            judge("random", r.randbytes(r.choice([0, 1, 2, 3, 5, 16, 64, 300, 1500, r.randint(0, 2048)])))
        # through the handlers a server/client runs on peer data, and Request.message()
        for _ in range(budget["handlers"]):
            via = r.choice(["client-hello-handler", "challenge-handler", "server-hello-handler", "request-message"])
            src = {"client-hello-handler": hs["client-hello"], "challenge-handler": hs["challenge"], "server-hello-handler": hs["server-hello"],
                   "request-message": r.choice(valid)[1]}[via]
            mode = r.random()
            if mode < 0.3:
                b = src[:r.randrange(len(src) + 1)]
            elif mode < 0.8:
                bb = bytearray(src)
                if bb:
                    for _k in range(r.choice([1, 2, 8])):
                        bb[r.randrange(min(len(bb), 200))] ^= 1 << r.randrange(8)
                b = bytes(bb)
            elif mode < 0.9:
                b = r.choice(attacks)[1]
            else:
                b = r.randbytes(r.randint(0, 300))
            judge("handler:" + via, b, via=via)
            c.inc("via_" + via)
        # ---- the persisted-stream entry point: the stream brings its own table type id -> class NAME.  A hostile table maps the ids
        #      of the handshake messages and of the corpus classes to other registered names, unknown names, huge ids; the value
        #      behind it is valid, truncated or damaged.  Bounds as everywhere; what such a stream says holds for that stream only
        # (classes whose type ids NO decode of this process has seen yet: only ever encoded until the final control)
        late_classes, _e = G.make_classes(r, "c14late%dx%d" % (cfg["seed"], cfg["shard"]), n_classes=3, n_enums=0)
        late_gen = G.ValueGen(r, (), ())
        late = []
        for LC in late_classes:
            o = LC._make(late_gen, 4)
            try:
                late.append((o.dumpb(), LC, G.canon(o)))
            except Exception:
                pass
        names = sorted(S.SerializableType.names)
        ids = sorted(S.SerializableType.registry)
        for k in range(cfg["n"] // 8):
            table = {}
            for _ in range(r.randint(0, 6)):
                table[r.choice(ids + [40000, 0, 65535, 1 << 20])] = r.choice(names + ["NoSuchClass", "", "sys.exit", "os._exit", "os.system", "builtins.eval", "builtins.object",
                                                                                       "collections.OrderedDict", "mpgameserver.auth.Auth", "io.BytesIO", "this.s", "subprocess.Popen",
                                                                                       "mpgameserver.serializable.Serializable", "__main__.x", "a.b.c"])
            late_body = None
            if late and r.random() < 0.3:
                late_body, LC, _c = r.choice(late)
                table[LC.type_id] = r.choice(names)               # the stream claims the id of a class it was not made with
            st = BytesIO()
            S.serialize_value(st, len(table) if r.random() < 0.8 else r.choice([0, 1, 16384, 16385, 2 ** 31 - 1]))
            for tid, nm in table.items():
                S.serialize_value(st, tid)
                S.serialize_value(st, nm)
            body = late_body if late_body is not None else r.choice(valid)[1]
            x = r.random()
            if late_body is not None:
                pass
            elif x < 0.3:
                body = body[:r.randrange(len(body) + 1)]
            elif x < 0.5 and body:
                bb = bytearray(body)
                bb[r.randrange(len(bb))] ^= 1 << r.randrange(8)
                body = bytes(bb)
            judge("persisted-stream", st.getvalue() + body, via="load-persistant")
            c.inc("via_load-persistant")
        for enc, LC, want_canon in late:
            try:
                v3 = S.Serializable.loadb(enc)
                c.inc("post_control_late_classes")
                if type(v3) is not LC or G.canon(v3) != want_canon:
                    viol("decoder-disturbed-by-hostile-history", "after hostile persisted streams that claimed its type id, the plain encoding of a %s decodes to a %s" % (
                        LC.__name__, type(v3).__name__), {"input": enc[:64].hex()})
            except Exception as e:
                viol("decoder-disturbed-by-hostile-history", "after hostile persisted streams that claimed its type id, the plain encoding of a %s is refused: %r" % (LC.__name__, e), {"input": enc[:64].hex()})
        # the decoder must not be disturbed by the history of hostile inputs: valid encodings decode to what they decoded to before
        for kind, b in valid:
            try:
                v2 = S.Serializable.loadb(b, server_public_key=root.getPublicKey()) if kind == "server-hello" else S.Serializable.loadb(b)
                c.inc("post_control_valid_decoded")
                want_t = baseline_types.get(b)
                if want_t is not None and (type(v2) is not want_t[0] or (kind == "value" and G.canon(v2) != want_t[1])):
                    viol("decoder-disturbed-by-hostile-history", "after %d hostile inputs a valid encoding (%s) decodes to a %s instead of a %s / to another value" % (
                        c.get("inputs", 0), kind, type(v2).__name__, want_t[0].__name__), {"input": b[:64].hex()})
                else:
                    c.inc("post_control_same_value")
            except Exception as e:
                viol("decoder-disturbed-by-hostile-history", "after %d hostile inputs a valid encoding is refused: %r" % (c.get("inputs", 0), e), {"input": b[:64].hex()})
        if len(samples) < 3:
            samples.append({"attack_examples": [(l, b[:24].hex()) for l, b in attacks[::37]][:8],
                            "worst_alloc_bytes_per_input_byte": round(worst["ratio"], 1), "worst_activation_ratio": round(worst["act"], 3),
                            "worst_step_budget_fraction": round(worst["steps"], 3),
                            "worst_compare_budget_fraction": round(worst.get("cmp", 0.0), 3),
                            "worst_read_budget_fraction": round(worst.get("reads", 0.0), 3)})
    finally:
        tracemalloc.stop()
        meter.undo()
        reads.undo()
        steps.undo()
    return {"evaluations": c.get("inputs", 0), "distinct": sorted(distinct), "counters": dict(c), "violations": violations, "samples": samples,
            "observations": ["worst peak allocation per input byte: %.1f" % worst["ratio"],
                             "worst fraction of the line-step budget used by one input: %.3f" % worst["steps"],
                             "worst fraction of the comparison budget used by one input: %.3f" % worst.get("cmp", 0.0)]}


def finish(tier, seed, results):
    m = merge(results)
    inconclusive = []
    need(m["counters"], ["inputs", "returned", "raised_ordinary_exception", "control_valid_decoded", "inputs_declared-length", "inputs_nested-declared-length", "inputs_deep-nesting-seq",
                         "inputs_truncation", "inputs_many-objects", "inputs_many-members", "many_members_decoded", "comparisons_metered", "inputs_bomb", "inputs_many-empty-objects", "via_other_stream_kinds", "inputs_bitflip", "inputs_typeid", "inputs_random", "via_client-hello-handler", "via_challenge-handler",
                         "via_server-hello-handler", "via_request-message", "decoded_values_inspected", "decoder_line_steps", "post_control_valid_decoded", "post_control_same_value", "post_control_late_classes", "via_load-persistant", "inputs_with_read_meter"], inconclusive)
    if m["counters"].get("watchdog_inconclusive"):
        inconclusive.append("%d inputs exceeded the 60 s wall-clock watchdog" % m["counters"]["watchdog_inconclusive"])
    if m["counters"].get("control_valid_failed"):
        inconclusive.append("positive control failed: %d valid encodings did not decode" % m["counters"]["control_valid_failed"])
    cov = {
        "evaluations": m["evaluations"],
        "distinct_nontrivial": m["distinct_nontrivial"],
        "rule": "one evaluation = one hostile byte string given to Serializable.loadb (or to the real _recvClientHello / "
                "_recvChallengeResponse / _recvServerHello / Request.message) with an activation counter on deserialize_value and "
                "tracemalloc around the call. Inputs: declared lengths {0,max,max+1,2^31-1,2^63-1,negative,non-integer} x 5 containers x 7 "
                "integer widths; nesting to depth 50000; wide collections; unhashable keys; sets / map key sets of 400..16384 distinct composite members "
                "(enum members, tuples, tuples of enum members, value-equal user objects) under a comparison budget; truncations at ~120 positions and bit flips of "
                "generated valid encodings and of real handshake messages; every registered type id x random bodies; random bytes. "
                "distinct = distinct (entry point, input)",
        "samples": m["samples"],
        "counters": m["counters"],
        "observations": m["observations"],
    }
    return {"coverage": cov, "inconclusive": inconclusive,
            "assumptions": ["line-step budget 20000 + 60/byte (LINE events of the decoder modules' code objects)",
                            "comparison budget 4096 + 8/byte (PY_START events of the rich comparison methods of the decoder modules' and registered classes, "
                            "and the __eq__ of the workload's value-comparing class); comparisons between tuples of scalars or between objects without "
                            "a Python-level __eq__ happen inside C and are not metered (such members are sent too, mixed with metered ones)", "bounds: activations <= len/2+1; peak allocation <= 32 KiB + 512 bytes per input byte (sized on the unchanged tree: "
                            "the traceback of the RecursionError for deep nesting costs ~200 bytes per input byte)",
                            "RecursionError is an ordinary exception (caught by the server loop) and is allowed",
                            "the handshake handlers get 64 KiB extra for the key objects of the connection they belong to"]}
