"""C15 - typed JSON round-trip of Serializable objects.

Contract on toJson / fromJson / dumps / loads for generated Serializable classes whose
annotations are the documented shapes only: int / float / str / bool, nested
Serializable, enum, List[T], Set[T], Tuple[T1..Tn], Dict[K, V] with K in {int, str,
enum} and T / V basic, enum or Serializable (one level of generics, upper-case enum
member names).  json.dumps(x.toJson()) must succeed; canon(C.fromJson(x.toJson()))
and canon(C.loads(x.dumps())) must equal canon(x) (sets as sets, tuples as tuples,
NaN-aware, exact types).

"Field for field" is judged over the fields the class DECLARES (the annotated public attributes the generator wrote into the
class body), not over whatever the library's own `_fields` happens to list: a declared field the library forgets would
otherwise vanish from both sides of the comparison.  Field names are drawn from the whole domain the library accepts as a
field name (any identifier not starting with "_", not "type_id", not hiding a Serializable member): lower, UPPER, UPPER_SNAKE,
single letters, digits, CamelCase, mixedCase, trailing underscore, builtin-like, non-ASCII identifiers.
"""
import json
import math
import typing

from mon.core.merge import merge, need
from mon.core.util import Counter, h64, rng, short
from mon.models import sergen as G

ID = "C15"
LEVEL = "exploration"
SHARD_TIMEOUT = {"quick": 600, "thorough": 3000}

_N = [0]
DECLARED = {}                  # generated class -> the field names its class body declares (annotation + default), in order


def declared_fields(v):
    """the fields of an instance: the ones its class declares, then whatever else the library lists"""
    d = DECLARED.get(type(v), ())
    return tuple(d) + tuple(f for f in v._fields if f not in d)


def plan(tier, seed):
    if tier == "quick":
        return [{"tier": tier, "seed": seed, "shard": i, "shapes": 4, "objects": 450, "subprocess": True} for i in range(12)]
    return [{"tier": tier, "seed": seed, "shard": i, "shapes": 14, "objects": 4500, "subprocess": True} for i in range(32)]


def jcanon(v):
    """exact-type canonical form for comparing field values (floats at full precision: JSON keeps doubles)"""
    from mpgameserver.serializable import Serializable, SerializableEnum
    t = type(v)
    if v is None:
        return ("none",)
    if t is bool:
        return ("bool", v)
    if t is int:
        return ("int", v)
    if t is float:
        return ("float", "nan") if v != v else ("float", repr(v))
    if t is str:
        return ("str", v)
    if t is list:
        return ("list", tuple(jcanon(x) for x in v))
    if t is tuple:
        return ("tuple", tuple(jcanon(x) for x in v))
    if t is set:
        return ("set", tuple(sorted((jcanon(x) for x in v), key=repr)))
    if t is dict:
        return ("dict", tuple(sorted(((jcanon(k), jcanon(x)) for k, x in v.items()), key=repr)))
    if isinstance(v, SerializableEnum):
        return ("enum", type(v).__name__, jcanon(v.value))
    if isinstance(v, Serializable):
        return ("obj", type(v).__name__, tuple((f, jcanon(getattr(v, f, "<no such attribute>"))) for f in declared_fields(v)))
    return ("other", t.__name__, repr(v)[:40])


class Shapes(object):
    """generated classes: leaf class, enums, and a container class using every documented annotation shape"""

    def __init__(self, r, tag):
        from mpgameserver.serializable import Serializable, SerializableEnum
        self.r = r
        _N[0] += 1
        uid = "%s_%d" % (tag, _N[0])
        names = ["RED", "GREEN", "BLUE", "DARK_GREY", "X1"][:r.randint(2, 5)]
        kind = r.choice(["int", "str", "str-crossed", "float", "tuple"])
        # member values include the falsy ones (0, "") - an enum member is a value like any other; in the "crossed" kind the VALUE
        # of a member is the NAME of another member (NORTH = "SOUTH", SOUTH = "NORTH"): JSON carries names, never values
        if kind == "str-crossed":
            vals = {nm: names[(i + 1) % len(names)] for i, nm in enumerate(names)}
        elif kind == "float":
            vals = {nm: i * 0.5 - 0.5 for i, nm in enumerate(names)}                # (scale factors: -0.5, 0.0, 0.5, ...)
        elif kind == "tuple":
            vals = {nm: (i - 1, 1 - i) for i, nm in enumerate(names)}                # (direction vectors)
        else:
            vals = {nm: (i * 3 if kind == "int" else ("v%d" % i if i else "")) for i, nm in enumerate(names)}
        self.enum_kind = kind
        self.Enum = type("JE" + uid, (SerializableEnum,), vals)
        self.enum_members = [getattr(self.Enum, nm) for nm in names]
        # field names: the whole domain of names the library takes as a field (see sergen.FIELD_NAME_POOLS), in every class
        self.kwargs_built = self.kwargs_not_applied = 0
        self.name_families = []
        self.leaf_n, self.leaf_s = ln, ls = G.field_names(r, 2)
        self.Leaf = type("JL" + uid, (Serializable,), {"__annotations__": {ln: int, ls: str}, ln: 0, ls: ""})
        DECLARED[self.Leaf] = (ln, ls)
        self.Enum_ = self.Enum
        self.mid_leaf, self.mid_e, self.mid_f, self.mid_flag = ml, me, mf, mg = G.field_names(r, 4)
        self.Mid = type("JM" + uid, (Serializable,), {"__annotations__": {ml: self.Leaf, me: self.Enum, mf: float, mg: bool},
                                                     ml: None, me: self.enum_members[0], mf: 0.0, mg: False})
        DECLARED[self.Mid] = (ml, me, mf, mg)
        basic = [int, float, str, bool]
        T_choices = basic + [self.Enum, self.Leaf, self.Mid]
        K_choices = [int, str, self.Enum]
        ann, defaults = {}, {}
        self.fields = []
        n = r.randint(3, 9)
        top_names = G.field_names(r, n)
        for i in range(n):
            shape = r.choice(["basic", "basic", "obj", "enum", "list", "set", "tuple", "dict", "dict"])
            name = top_names[i]
            if shape == "basic":
                T = r.choice(basic)
                ann[name] = T
                defaults[name] = T()
                self.fields.append((name, ("basic", T)))
            elif shape == "obj":
                T = r.choice([self.Leaf, self.Mid])
                ann[name] = T
                # the default of a nested object is None or an instance written in the class body (shared by all instances)
                defaults[name] = None if r.random() < 0.5 else self.of(T)
                self.fields.append((name, ("obj", T)))
            elif shape == "enum":
                ann[name] = self.Enum
                defaults[name] = self.enum_members[0]
                self.fields.append((name, ("enum", self.Enum)))
            elif shape == "list":
                T = r.choice(T_choices)
                ann[name] = typing.List[T]
                defaults[name] = None
                self.fields.append((name, ("list", T)))
            elif shape == "set":
                T = r.choice([int, str, float, self.Enum, bool, self.Leaf, self.Leaf])      # (instances hash by identity: a set of objects)
                ann[name] = typing.Set[T]
                defaults[name] = None
                self.fields.append((name, ("set", T)))
            elif shape == "tuple":
                Ts = tuple(r.choice(T_choices) for _ in range(r.randint(1, 4)))
                ann[name] = typing.Tuple[Ts]
                defaults[name] = None
                self.fields.append((name, ("tuple", Ts)))
            else:
                K, V = r.choice(K_choices), r.choice(T_choices)
                ann[name] = typing.Dict[K, V]
                defaults[name] = None
                self.fields.append((name, ("dict", (K, V))))
        ns = dict(defaults)
        ns["__annotations__"] = ann
        self.Top = type("JT" + uid, (Serializable,), ns)
        DECLARED[self.Top] = tuple(top_names)
        self.class_defaults = {k: (v, jcanon(v)) for k, v in defaults.items()}
        # a subclass that declares fields of its own (the library serializes the fields a class declares itself)
        self.sub_names = sn, ss, sl = G.field_names(r, 3, taken=top_names)
        self.Sub = type("JU" + uid, (self.Top,), {"__annotations__": {sn: int, ss: str, sl: typing.List[int]}, sn: 0, ss: "", sl: None})
        DECLARED[self.Sub] = (sn, ss, sl)
        self.name_families = [G.name_family(nm) for nm in (ln, ls, ml, me, mf, mg) + tuple(top_names) + (sn, ss, sl)]

    def build(self, cls, pairs):
        """an instance with the given field values: through the constructor's keyword arguments (as in the documentation's example)
        or by assigning the attributes; either way the object handed to the checks HOLDS the values (the property is about
        objects whose fields hold values of their annotated types - how they got there is not its subject)"""
        if self.r.random() < 0.5:
            o = cls(**dict(pairs))
            self.kwargs_built += 1
            for k, v in pairs:
                if getattr(o, k, None) is not v:
                    self.kwargs_not_applied += 1
                    setattr(o, k, v)
        else:
            o = cls()
            for k, v in pairs:
                setattr(o, k, v)
        return o

    # ----- values of an annotated type
    def basic(self, T):
        r = self.r
        if T is int:
            return r.choice([0, 1, -1, 255, -256, 2 ** 31, -(2 ** 31), 2 ** 53 + 1, 2 ** 63 - 1, -(2 ** 63), 10 ** 30, -(10 ** 25), r.randint(-1000, 1000)])
        if T is float:
            return r.choice([0.0, -0.0, 1.5, -2.25, 0.1, 1e300, -1e-300, float("inf"), float("-inf"), float("nan"), 123456.789, r.uniform(-1e6, 1e6)])
        if T is str:
            return r.choice(["", "a", "héllo", "中文", "\U0001F600", "with \"quotes\" and \\ and \n", "null", "true", "1", " ", "x" * 200,
                             "a // b", " //comment-like", "line\n// next", "\t//x", "/* c */", "# hash", "http://x y //z", "--", "<!-- -->", "{\"k\": 1}", "[1, 2]"])
        if T is bool:
            return r.random() < 0.5
        raise TypeError(T)

    def of(self, T):
        if T in (int, float, str, bool):
            return self.basic(T)
        if T is self.Enum:
            return self.r.choice(self.enum_members)
        if T is self.Leaf:
            return self.build(self.Leaf, [(self.leaf_n, self.basic(int)), (self.leaf_s, self.basic(str))])
        if T is self.Mid:
            return self.build(self.Mid, [(self.mid_leaf, self.of(self.Leaf)), (self.mid_e, self.of(self.Enum)), (self.mid_f, self.basic(float)),
                                         (self.mid_flag, self.basic(bool))])
        raise TypeError(T)

    def key(self, K):
        r = self.r
        if K is int:
            return r.choice([0, 1, -1, 42, 2 ** 40, -(2 ** 40), 2 ** 53 + 1, 2 ** 53 + 3, -(2 ** 53) - 1, 2 ** 63 - 1, -(2 ** 63), 10 ** 20 + 7,
                             r.randint(-99, 99), r.randint(2 ** 53, 2 ** 64)])
        if K is str:
            return r.choice(["", "a", "k", "key with space", "é", "1", "-1", "null"])
        return r.choice(self.enum_members)

    def mutate_in_place(self, o):
        """change a container / nested object of the instance without assigning the field"""
        r = self.r
        fields = list(self.fields)
        r.shuffle(fields)
        for name, (shape, T) in fields:
            v = getattr(o, name)
            if v is None:
                continue
            if shape == "list":
                v.append(self.of(T))
                return name + ".append"
            if shape == "set":
                e = self.of(T)
                if not (T is float and e != e) and e not in v:
                    v.add(e)
                    return name + ".add"
            if shape == "dict":
                K, V = T
                v[self.key(K)] = self.of(V)
                return name + "[k]=v"
            if shape == "obj" and T is self.Leaf:
                setattr(v, self.leaf_n, getattr(v, self.leaf_n) + 1)
                return name + "." + self.leaf_n
            if shape == "obj" and T is self.Mid:
                lf = getattr(v, self.mid_leaf)
                setattr(lf, self.leaf_s, getattr(lf, self.leaf_s) + "!")
                return name + "." + self.mid_leaf + "." + self.leaf_s
        return None

    def make_sub(self):
        sn, ss, sl = self.sub_names
        return self.build(self.Sub, [(sn, self.basic(int)), (ss, self.basic(str)), (sl, [self.basic(int) for _ in range(self.r.randint(0, 3))])])

    def make(self):
        r = self.r
        o = self.Top()
        for name, (shape, T) in self.fields:
            if shape in ("basic", "obj", "enum"):
                v = self.of(T)
            else:
                x = r.random()
                n = 0 if x < 0.2 else r.randint(1, 5)
                if x > 0.93:
                    v = None                                  # None for container fields is in the documented domain
                elif shape == "list":
                    v = [self.of(T) for _ in range(n)]
                elif shape == "set":
                    v = set()
                    for _ in range(n):
                        e = self.of(T)
                        if T is float and e != e:
                            continue
                        v.add(e)
                elif shape == "tuple":
                    v = tuple(self.of(t) for t in T)
                else:
                    K, V = T
                    v = {}
                    for _ in range(n):
                        v[self.key(K)] = self.of(V)
            setattr(o, name, v)
        return o


def run_shard(cfg):
    r = rng("C15", cfg["seed"], cfg["shard"])
    c = Counter()
    violations, samples, distinct = [], [], set()
    if cfg["shard"] % 3 == 1:
        # a developer with the library's logger turned up to DEBUG (or its own TRACE) and a handler that formats every record:
        # what the library logs about a value does not change what it makes of it
        import logging

        class FormatSink(logging.Handler):
            def emit(self, record):
                c.inc("log_records_formatted")
                try:
                    self.format(record)
                except Exception:
                    c.inc("log_records_failed_to_format")
        lg_ = logging.getLogger("mpgameserver")
        lg_.setLevel(logging.DEBUG if cfg["shard"] % 2 else 9)
        lg_.propagate = False
        lg_.addHandler(FormatSink())
        c.inc("shards_with_debug_logging")

    def viol(mech, msg, case):
        c.inc("viol:" + mech)
        if sum(1 for x in violations if x["mechanism"] == mech) < 6:
            violations.append({"mechanism": mech, "msg": msg, "case": case, "case_key": [cfg["seed"], cfg["shard"]]})

    def field_diff(a, b):
        out = []
        for f in declared_fields(a):
            if jcanon(getattr(a, f)) != jcanon(getattr(b, f, "<missing>")):
                out.append((f, short(getattr(a, f), 20), short(getattr(b, f, None), 20)))
        return out[:3]

    def dropped(o, doc, path=""):
        """declared fields of o (and of the objects nested in its fields) that have no key in the JSON document made of o"""
        out = []
        if not isinstance(doc, dict):
            return out
        for f in DECLARED.get(type(o), ()):
            v = getattr(o, f, None)
            if f not in doc:
                out.append(path + f)
            elif type(v) in DECLARED:
                out.extend(dropped(v, doc[f], path + f + "."))
            elif type(v) in (list, tuple) and isinstance(doc[f], list) and len(doc[f]) == len(v):
                for k, (e, de) in enumerate(zip(v, doc[f])):
                    if type(e) in DECLARED:
                        out.extend(dropped(e, de, "%s%s[%d]." % (path, f, k)))
            elif type(v) is dict and isinstance(doc[f], dict) and len(doc[f]) == len(v):
                for k, (e, de) in enumerate(zip(v.values(), doc[f].values())):
                    if type(e) in DECLARED:
                        out.extend(dropped(e, de, "%s%s{%d}." % (path, f, k)))
        return out

    def differs(how, x, back, doc, shapes_of):
        """x did not come back field for field: say whether declared fields were left out of the document, or came back different"""
        d = field_diff(x, back)
        gone = dropped(x, doc)
        if gone:
            fams = sorted({G.name_family(g.split(".")[-1]) for g in gone})
            viol("declared-field-left-out-of-json", "%s: the document has no entry for the declared field(s) %r (name style: %s) - "
                 "keys %r, declared %r; differs in %r" % (how, gone[:6], ", ".join(fams), sorted(doc)[:12] if isinstance(doc, dict) else doc,
                                                          DECLARED.get(type(x)), d), {"object": short(x, 120), "missing": gone[:12], "name_styles": fams, "diff": d})
            return
        kinds = sorted({shapes_of.get(f, "?") for f, _, _ in d})
        viol("%s-differs:%s" % (how, "+".join(kinds)), "%s differs in %r" % ({"fromJson-toJson": "fromJson(toJson(x))", "loads-dumps": "loads(dumps(x))"}[how], d),
             {"object": short(x, 120), "diff": d})

    for si in range(cfg["shapes"]):
        sh = Shapes(r, "s%dx%dy%d" % (cfg["seed"], cfg["shard"], si))
        c.inc("class_shapes")
        for name, (shape, T) in sh.fields:
            c.inc("field_shape_" + shape)
        for fam in sh.name_families:
            c.inc("field_name_" + fam)
        for cls_ in (sh.Leaf, sh.Mid, sh.Top, sh.Sub):
            # (coverage only: does the library list exactly the declared names?  the verdict comes from the round trips below)
            c.inc("classes_listing_exactly_the_declared_fields" if tuple(cls_._fields) == DECLARED[cls_] else "classes_listing_other_fields_than_declared")
        kept = []                    # earlier decoded results the application still holds: (object, canonical form at decode time)
        for i in range(cfg["objects"]):
            if i % 25 == 24:
                # the subclass, after its base class has been through JSON many times
                xs = sh.make_sub()
                want_s = jcanon(xs)
                try:
                    ys = sh.Sub.fromJson(xs.toJson())
                    zs = sh.Sub.loads(xs.dumps())
                    c.inc("subclass_objects")
                    if (jcanon(ys) != want_s or jcanon(zs) != want_s) and dropped(xs, xs.toJson()):
                        differs("fromJson-toJson", xs, ys, xs.toJson(), {})
                    elif jcanon(ys) != want_s or jcanon(zs) != want_s or type(ys) is not sh.Sub:
                        viol("subclass-roundtrip-differs", "a subclass of a Serializable class (own fields %r) does not round-trip its own fields: toJson gives %s" % (
                            sh.Sub._fields, short(xs.toJson(), 80)), {"object": short(xs, 100)})
                    else:
                        c.inc("subclass_roundtrips")
                except Exception as e:
                    viol("subclass-roundtrip-raised", "round trip of a subclass instance raised %r" % (e,), {"object": short(xs, 100)})
            x = sh.make()
            c.inc("objects")
            if i % 15 == 7:
                # a failure history: the object is first encoded while one nested member is still missing (the library raises), the
                # caller catches that, fills the member in and encodes the SAME object again - the normal checks below
                objf = [n for n, (s_, T_) in sh.fields if s_ == "obj"]
                if objf:
                    keep = getattr(x, objf[0])
                    setattr(x, objf[0], None)
                    for enc in (x.toJson, x.dumps):
                        try:
                            enc()
                            c.inc("incomplete_object_encoded_without_error")
                        except Exception:
                            c.inc("failed_encodes_before_repair")
                    setattr(x, objf[0], keep)
            if i == 11:
                # containers above the binary format's 16384 limit: JSON has no such limit (toJson emits them, fromJson reads them)
                for name_, (shape_, T_) in sh.fields:
                    nbig = r.choice([16385, 40000])
                    if shape_ == "list" and T_ in (int, str, bool, float):
                        setattr(x, name_, [sh.basic(T_) for _ in range(nbig)])
                    elif shape_ == "set" and T_ is int:
                        setattr(x, name_, set(range(-5, nbig)))
                    elif shape_ == "dict" and T_[0] is int and T_[1] in (int, str, bool):
                        setattr(x, name_, {k_: sh.basic(T_[1]) for k_ in range(nbig)})
                    else:
                        continue
                    c.inc("containers_above_16384")
                    break
            want = jcanon(x)
            shapes_of = {n: s for n, (s, T) in sh.fields}
            try:
                j = x.toJson()
            except Exception as e:
                viol("toJson-raised", "toJson raised %r for %s" % (e, short(x, 40)), {"object": short(x, 100), "fields": [(n, s) for n, (s, T) in sh.fields]})
                continue
            try:
                text = json.dumps(j)
                c.inc("json_dumps_ok")
            except Exception as e:
                viol("toJson-not-plain-data", "json.dumps(toJson(x)) raised %r" % (e,), {"object": short(x, 100)})
                continue
            distinct.add(h64(type(x).__name__, text))
            try:
                y = sh.Top.fromJson(j)
                if jcanon(y) != want:
                    differs("fromJson-toJson", x, y, j, shapes_of)
                else:
                    c.inc("roundtrip_fromJson_toJson")
                    # results stay what they were: the application keeps some, changes others in place
                    if i % 3 == 0:
                        kept.append((y, want))
                        if len(kept) > 6:
                            old, want_old = kept.pop(r.randrange(len(kept)))
                            c.inc("earlier_results_rechecked")
                            if jcanon(old) != want_old:
                                viol("earlier-result-changed-by-later-decode", "an object decoded earlier changed while later documents were decoded: %r" % (
                                    [(f, short(getattr(old, f), 20)) for f in old._fields][:4],), {"object": short(old, 120)})
                    elif i % 3 == 1:
                        G.poison(y)
                        c.inc("decoded_values_mutated_in_place")
            except Exception as e:
                viol("fromJson-raised", "fromJson(toJson(x)) raised %r for %s" % (e, short(x, 40)), {"object": short(x, 100)})
            try:
                dumped = x.dumps()
                z = sh.Top.loads(dumped)
                if jcanon(z) != want:
                    differs("loads-dumps", x, z, json.loads(dumped), shapes_of)
                else:
                    c.inc("roundtrip_loads_dumps")
            except Exception as e:
                viol("loads-dumps-raised", "loads(dumps(x)) raised %r for %s" % (e, short(x, 40)), {"object": short(x, 100)})
            # multi-step: the same instance is changed IN PLACE after it was dumped once, then dumped again
            if i % 4 == 0:
                changed = sh.mutate_in_place(x)
                if changed:
                    c.inc("in_place_mutations")
                    want2 = jcanon(x)
                    try:
                        z2 = sh.Top.loads(x.dumps())
                        y2 = sh.Top.fromJson(x.toJson())
                        if jcanon(z2) != want2 or jcanon(y2) != want2:
                            viol("stale-after-in-place-change", "after changing %s in place, dumps()/toJson() no longer describe the object: %r" % (
                                changed, field_diff(x, z2) or field_diff(x, y2)), {"object": short(x, 120), "changed": changed})
                        else:
                            c.inc("roundtrip_after_in_place_change")
                    except Exception as e:
                        viol("loads-dumps-raised", "after an in-place change loads(dumps(x)) raised %r" % (e,), {"object": short(x, 100)})
            if len(samples) < 2 and i == 3:
                samples.append({"fields": [(n, s, str(T)[:60]) for n, (s, T) in sh.fields], "json": text[:300]})
        for old, want_old in kept:
            c.inc("earlier_results_rechecked")
            if jcanon(old) != want_old:
                viol("earlier-result-changed-by-later-decode", "an object decoded earlier changed while later documents were decoded", {"object": short(old, 120)})
        c.inc("objects_built_through_constructor_kwargs", sh.kwargs_built)
        c.inc("constructor_kwargs_not_applied", sh.kwargs_not_applied)
        for fname, (dv, dcanon) in sh.class_defaults.items():
            c.inc("class_defaults_rechecked")
            if jcanon(getattr(sh.Top, fname)) != dcanon or getattr(sh.Top, fname) is not dv:
                viol("class-default-changed-by-decode", "the class-level default of field %s was changed by decoding documents" % fname, {"field": fname})
    return {"evaluations": c.get("objects", 0), "distinct": sorted(distinct), "counters": dict(c), "violations": violations, "samples": samples}


def finish(tier, seed, results):
    m = merge(results)
    inconclusive = []
    need(m["counters"], ["objects", "json_dumps_ok", "roundtrip_fromJson_toJson", "roundtrip_loads_dumps", "field_shape_basic", "field_shape_obj",
                         "field_shape_enum", "field_shape_list", "field_shape_set", "field_shape_tuple", "field_shape_dict",
                         "in_place_mutations", "roundtrip_after_in_place_change", "subclass_roundtrips", "earlier_results_rechecked",
                         "class_defaults_rechecked", "decoded_values_mutated_in_place", "failed_encodes_before_repair", "containers_above_16384",
                         "objects_built_through_constructor_kwargs"] +
         ["field_name_" + fam for fam in ("lower", "single-lower", "single-upper", "all-upper", "all-upper-snake", "all-upper-digit", "leading-upper",
                                          "mixed-case", "lower-snake-digit", "trailing-underscore", "non-ascii", "non-ascii-upper")], inconclusive)
    cov = {
        "evaluations": m["evaluations"],
        "distinct_nontrivial": m["distinct_nontrivial"],
        "rule": "one evaluation = one object of a generated Serializable class (3-9 fields, named from the whole domain of names the library takes as "
                "a field - lower, UPPER, UPPER_SNAKE, single letters, digits, CamelCase, trailing underscore, non-ASCII - and drawn from the documented annotation shapes: basic, "
                "nested Serializable, enum, List[T], Set[T], Tuple[T1..Tn], Dict[K,V] with K in {int,str,enum}) with values of the annotated "
                "types (empty containers, None for container fields, huge/negative ints, NaN/inf, unicode, int keys) sent through "
                "toJson/json.dumps/fromJson and dumps/loads. distinct = distinct JSON texts",
        "samples": m["samples"],
        "counters": m["counters"],
    }
    return {"coverage": cov, "inconclusive": inconclusive,
            "assumptions": ["only documented shapes are generated: one level of generics, upper-case enum member names, no bytes fields, no None "
                            "inside typed lists or for nested-object/basic fields",
                            "float fields keep double precision through JSON (the float32 rounding of the binary format does not apply)"]}
