"""C16 - the HTTP router matches paths exactly as the documented grammar says.

Postcondition monitor on the real Router.getRoute / Router.dispatch.  The oracle
is a reference matcher written from the documented grammar on path *segments*
(not a regular expression): literal => equal segment, :n => one non-empty
segment, trailing :n? => 0..1, :n+ => >=1, :n* => >=0 remaining segments; one
optional trailing slash is tolerated.  Where the statement is silent (an empty
segment falling into a ?/+/* position) the case is counted as unspecified and
is not judged.
"""
import itertools

from mon.core.merge import merge, need
from mon.core.util import Counter, h64, rng

ID = "C16"
LEVEL = "exploration"
SHARD_TIMEOUT = {"quick": 300, "thorough": 2400}

LITERALS = ["a", "ab", "b", "v1.0"]
PATHSEGS = ["a", "ab", "abc", "b", "v1.0", "v1x0", "x", "", "%61", "a%2Fb", "a..b", ".."]   # (percent escapes are matched as received, never decoded)
BOUNDS = {"quick": (3, 4), "thorough": (4, 5)}   # (max pattern segments, max path segments)

MATCH, NOMATCH, UNSPEC = "match", "nomatch", "unspecified"


# ------------------------------------------------------------------ reference

def parse_pattern(pattern):
    parts = [p for p in pattern.split("/") if p]
    out = []
    for p in parts:
        if p.startswith(":"):
            if p[-1] in "?+*":
                out.append(("param", p[1:-1], p[-1]))
            else:
                out.append(("param", p[1:], ""))
        else:
            out.append(("lit", p, ""))
    return out


def split_path(path):
    assert path.startswith("/")
    if path == "/":
        return []
    parts = path.split("/")[1:]
    if len(parts) > 1 and parts[-1] == "":
        parts = parts[:-1]          # the one tolerated trailing slash
    return parts


def ref_match(pattern_parts, path):
    """returns (verdict, bindings)"""
    segs = split_path(path)
    binds = {}
    for i, (kind, name, mod) in enumerate(pattern_parts):
        if kind == "lit":
            if i >= len(segs) or segs[i] != name:
                return NOMATCH, None
        elif mod == "":
            if i >= len(segs) or segs[i] == "":
                return NOMATCH, None
            binds[name] = segs[i]
        else:
            rest = segs[i:]
            if any(s == "" for s in rest):
                return UNSPEC, None
            if mod == "?" and len(rest) > 1:
                return NOMATCH, None
            if mod == "+" and len(rest) < 1:
                return NOMATCH, None
            binds[name] = "/".join(rest) if rest else None
            return MATCH, binds
    if len(segs) != len(pattern_parts):
        return NOMATCH, None
    return MATCH, binds


def bindings_agree(pattern_parts, want, got):
    """got: dict reported by the router"""
    if set(got) != set(want):
        return False
    for kind, name, mod in pattern_parts:
        if kind != "param":
            continue
        w, g = want[name], got[name]
        if w is None:
            if g not in (None, ""):
                return False
        elif mod in ("+", "*"):
            if g != w and g != w + "/":
                return False
        else:
            if g != w:
                return False
    return True


# ------------------------------------------------------------------ enumeration

def all_patterns(maxseg):
    pats = ["/"]
    inner = LITERALS + [":p%d"]
    last = LITERALS + [":p%d", ":p%d?", ":p%d+", ":p%d*"]
    for k in range(1, maxseg + 1):
        for combo in itertools.product(*([inner] * (k - 1) + [last])):
            pats.append("/" + "/".join((c % i) if "%d" in c else c for i, c in enumerate(combo)))
    return pats


def all_paths(maxseg):
    out = []
    for k in range(0, maxseg + 1):
        for combo in itertools.product(PATHSEGS, repeat=k):
            p = "/" + "/".join(combo)
            out.append(p)
            out.append(p + "/")
    # "/" and "//" are produced more than once (k=0 and the empty segment): deduplicate, keep order
    seen = set()
    return [p for p in out if not (p in seen or seen.add(p))]


def plan(tier, seed):
    k = 16
    shards = [{"kind": "pairs", "tier": tier, "seed": seed, "shard": i, "nshards": k, "subprocess": True} for i in range(k)]
    shards.append({"kind": "tables", "tier": tier, "seed": seed, "n": 4000 if tier == "quick" else 60000, "subprocess": True})
    shards.append({"kind": "scale", "tier": tier, "seed": seed, "subprocess": True})
    return shards


def classify(pattern, parts, path, ref, real_matched, binds):
    """mechanism label from the structure of the witness"""
    segs = split_path(path)
    if ref == NOMATCH and real_matched:
        has_plus = any(m == "+" for _, _, m in parts)
        lits = [n for k, n, m in parts if k == "lit"]
        # literal regex metacharacter matched another character?
        for i, (k, n, m) in enumerate(parts):
            if k == "lit" and i < len(segs) and segs[i] != n and "." in n and len(segs[i]) == len(n):
                return "literal-not-escaped"
        if has_plus:
            return "plus-pattern-overmatch"
        return "overmatch"
    if ref == MATCH and not real_matched:
        return "undermatch"
    return "wrong-binding"


def run_pairs(cfg, counters, violations, samples):
    from mpgameserver.http_server import Router, Route
    maxp, maxs = BOUNDS[cfg["tier"]]
    pats = all_patterns(maxp)
    paths = all_paths(maxs)
    n = 0
    for pi, pattern in enumerate(pats):
        if pi % cfg["nshards"] != cfg["shard"]:
            continue
        parts = parse_pattern(pattern)
        router = Router()
        # the same route written with a trailing slash or a doubled slash is the same route (empty pattern parts are dropped)
        spelled = pattern
        if pattern != "/" and pi % 5 == 0:
            spelled = pattern + "/"
        elif pattern != "/" and pi % 5 == 1:
            spelled = "/" + pattern[1:].replace("/", "//", 1) if "/" in pattern[1:] else "//" + pattern[1:]
        if spelled != pattern:
            counters.inc("patterns_spelled_with_extra_slashes")
        route = Route("r", "GET", spelled, lambda req: None)
        router.registerRoutes([route])
        counters.inc("patterns")
        for path in paths:
            n += 1
            ref, want = ref_match(parts, path)
            if ref == UNSPEC:
                counters.inc("unspecified_not_judged")
                continue
            res = router.getRoute("GET", path)
            real = res is not None
            if ref == MATCH:
                counters.inc("ref_match")
            else:
                counters.inc("ref_nomatch")
            bad = None
            if real != (ref == MATCH):
                bad = "router %s but the grammar says %s" % ("matched" if real else "did not match", ref)
            elif real:
                endpt, binds = res
                if endpt is not route:
                    bad = "returned another route object"
                elif not bindings_agree(parts, want, binds):
                    bad = "bindings %r, grammar says %r" % (binds, want)
                else:
                    counters.inc("bindings_checked", len(want))
            if bad:
                mech = classify(pattern, parts, path, ref, real, res[1] if res else None)
                if sum(1 for v in violations if v["mechanism"] == mech) < 8:
                    violations.append({"mechanism": mech,
                                       "msg": "pattern %r path %r: %s (bindings %r)" % (pattern, path, bad, res[1] if res else None),
                                       "case": {"pattern": pattern, "path": path}, "case_key": {"pattern": pattern, "path": path}})
                counters.inc("viol:" + mech)
        if len(samples) < 2 and len(parts) >= 2:
            samples.append({"pattern": pattern, "paths_tried": len(paths), "example_paths": paths[100:104]})
    counters.inc("pairs", n)
    return n


_RES = [0]


_FACTORIES = {}


def channel_request(factory, method, target, r, proto=None):
    """one request through a connection of this HTTPFactory (its real channel on a StringTransport, no reactor); `proto` is a
    connection that was opened earlier (built but not yet connected); returns (status, raw body)"""
    import contextlib
    import io
    from twisted.internet.testing import StringTransport
    from twisted.internet.address import IPv4Address
    if proto is None:
        proto = factory.buildProtocol(None)
    tr = StringTransport(peerAddress=IPv4Address("TCP", "10.%d.%d.%d" % (r.randrange(256), r.randrange(256), r.randrange(1, 255)), r.randint(1024, 65000)))
    tr.setTcpNoDelay = lambda v: None
    proto.makeConnection(tr)
    with contextlib.redirect_stdout(io.StringIO()):
        proto.dataReceived(("%s %s HTTP/1.1\r\nHost: x\r\nConnection: close\r\n\r\n" % (method, target)).encode("utf-8"))
    raw = tr.value()
    try:
        from twisted.python.failure import Failure
        from twisted.internet.error import ConnectionDone
        with contextlib.redirect_stdout(io.StringIO()):
            proto.connectionLost(Failure(ConnectionDone()))
    except Exception:
        pass
    if not raw.startswith(b"HTTP/"):
        return None, raw
    head, _, body = raw.partition(b"\r\n\r\n")
    return int(head.split(b" ", 2)[1]), body


def http_roundtrip(router, method, target, r):
    """one request through the library's HTTPFactory channel on a StringTransport; returns (status, raw body)"""
    from mpgameserver import http_server as H
    fac = _FACTORIES.get(id(router))
    if fac is None:
        _FACTORIES.clear()
        fac = _FACTORIES[id(router)] = (H.HTTPFactory(router=router), router)
    return channel_request(fac[0], method, target, r)


def run_longlived(cfg, counters, violations, samples):
    """one router that serves thousands of requests: whatever it learns from the traffic, the FIRST registered matching route
    answers - also when a later overlapping route is by far the more popular one"""
    from mpgameserver.http_server import Router, Route, Request, Response
    r = rng("C16", cfg["seed"], "longlived")
    maxp, maxs = BOUNDS[cfg["tier"]]
    pats = all_patterns(min(maxp, 3))
    paths = all_paths(min(maxs, 3))
    parsed_pats = [(pt, parse_pattern(pt)) for pt in pats]
    n_tables = 12 if cfg["tier"] == "quick" else 150
    done = 0
    for _ in range(n_tables * 6):
        if done >= n_tables:
            break
        hot = r.choice(paths)
        ms = [pt for pt, pp in parsed_pats if ref_match(pp, hot)[0] == MATCH]
        if len(ms) < 2:
            continue
        chosen = r.sample(ms, min(len(ms), r.randint(2, 4)))
        parsed = [parse_pattern(pt) for pt in chosen]
        # requests: the hot path now and then; mostly paths that only LATER routes of the table match
        later_only = [pth for pth in r.sample(paths, min(len(paths), 400))
                      if ref_match(parsed[0], pth)[0] == NOMATCH and any(ref_match(pp, pth)[0] == MATCH for pp in parsed[1:])]
        if not later_only:
            continue
        if any(ref_match(pp, pth)[0] == UNSPEC for pp in parsed for pth in later_only[:8] + [hot]):
            continue
        done += 1
        router = Router()
        routes = [Route("r%d" % j, "GET", pt, (lambda req, _n="r%d" % j: Response(payload=_n))) for j, pt in enumerate(chosen)]
        router.registerRoutes(routes)
        counters.inc("longlived_tables")
        for i in range(1500):
            path = hot if i % 50 == 49 else r.choice(later_only[:8])
            want = None
            for rt, pp in zip(routes, parsed):
                if ref_match(pp, path)[0] == MATCH:
                    want = rt
                    break
            res = router.getRoute("GET", path)
            counters.inc("longlived_lookups")
            if (res[0] if res else None) is not want:
                if sum(1 for v in violations if v["mechanism"] == "table-first-match") < 8:
                    violations.append({"mechanism": "table-first-match",
                                       "msg": "long-lived router, table %r, lookup %d, GET %r: chose %s, the first registered matching route is %s" % (
                                           chosen, i, path, res[0].name if res else None, want.name if want else None),
                                       "case": {"table": chosen, "path": path, "lookup": i}})
                break
    return done


BIG_LITERALS = LITERALS + ["abc", "x", "news", "c"]
BIG_PATHSEGS = PATHSEGS + ["news", "c"]


def _first_match(routes, parsed, method, path):
    """reference: the first registered route of the method that the grammar says matches; returns (route, bindings, parts),
    None (nothing matches) or UNSPEC (an unspecified pair comes before any match)"""
    for rt, parts in zip(routes, parsed):
        if rt.method != method:
            continue
        v, b = ref_match(parts, path)
        if v == UNSPEC:
            return UNSPEC
        if v == MATCH:
            return (rt, b, parts)
    return None


def _random_pattern(r, param_first):
    k = r.randint(1, 3)
    segs = []
    for i in range(k):
        if (i == 0 and param_first) or (i > 0 and r.random() < 0.4):
            segs.append(":p%d" % i + (r.choice(["", "", "?", "+", "*"]) if i == k - 1 else ""))
        else:
            segs.append(r.choice(BIG_LITERALS))
    if param_first and r.random() < 0.1:
        return "/"
    return "/" + "/".join(segs)


def _random_path(r, heads):
    k = r.randint(0, 4)
    segs = [r.choice(BIG_PATHSEGS) for _ in range(k)]
    if segs and heads and r.random() < 0.6:
        segs[0] = r.choice(heads)
    return "/" + "/".join(segs) + ("/" if r.random() < 0.2 else "")


def run_large_tables(cfg, counters, violations, samples, distinct):
    """route tables of 17-60 routes of one method in which routes that begin with a parameter and routes that begin with a
    literal are mixed in every order, registered in pieces while the router is being used: at every stage the FIRST registered
    matching route of the method answers (reference: a linear scan of the registered routes with the reference matcher)"""
    from mpgameserver.http_server import Router, Route, Request, Response
    r = rng("C16", cfg["seed"], "large-tables")
    n_tables = 40 if cfg["tier"] == "quick" else 600

    def report(mech, msg, case):
        counters.inc("viol:" + mech)
        if sum(1 for v in violations if v["mechanism"] == mech) < 8:
            violations.append({"mechanism": mech, "msg": msg, "case": case})

    for t in range(n_tables):
        main = r.choice(["GET", "POST", "DELETE", "PUT"])
        other = r.choice([m for m in ("GET", "POST", "DELETE", "PUT") if m != main])
        size = r.randint(17, 60)
        frac_param = r.choice([0.1, 0.3, 0.5])
        spec = [(main, _random_pattern(r, r.random() < frac_param)) for _ in range(size)]
        spec += [(other, _random_pattern(r, r.random() < frac_param)) for _ in range(r.randint(0, 5))]
        r.shuffle(spec)
        routes = [Route("r%d" % j, meth, pat, (lambda req, _n="r%d" % j: Response(payload=_n))) for j, (meth, pat) in enumerate(spec)]
        parsed = [parse_pattern(pat) for _, pat in spec]
        heads = sorted({pp[0][1] for pp in parsed if pp and pp[0][0] == "lit"})
        # does a parameter-first (or root) route of the main method come before a literal-first one?  (the order that matters)
        seen_param = False
        for (meth, _), pp in zip(spec, parsed):
            if meth != main:
                continue
            if not pp or pp[0][0] == "param":
                seen_param = True
            elif seen_param:
                counters.inc("large_tables_with_parameter_first_route_before_literal_first_route")
                break
        counters.inc("large_tables")
        router = Router()
        registered = 0
        stage = 0
        failed = False
        while not failed:
            # lookups on what is registered so far (also before anything is registered, and across the growth of the table)
            final = registered == len(routes)
            for q in range(60 if final else 5):
                path = _random_path(r, heads)
                method = main if r.random() < 0.85 else other
                want = _first_match(routes[:registered], parsed[:registered], method, path)
                if want == UNSPEC:
                    counters.inc("unspecified_not_judged")
                    continue
                counters.inc("large_table_lookups")
                if not final:
                    counters.inc("large_table_lookups_between_registrations")
                if want is not None and want[0] is not routes[[rt.method for rt in routes].index(method)]:
                    counters.inc("large_table_lookups_answered_by_a_later_route")
                distinct.add(h64("large", spec[:registered], method, path))
                res = router.getRoute(method, path)
                bad = mech = None
                if want is None:
                    if res is not None:
                        mech, bad = "large-table-overmatch", "matched %s (%r), grammar says no registered route matches" % (res[0].name, res[0].pattern)
                elif res is None:
                    mech, bad = "large-table-registered-route-not-found", "no match, grammar says %s (%r) matches" % (want[0].name, want[0].pattern)
                elif res[0] is not want[0]:
                    mech, bad = "large-table-first-match", "chose %s (%r), the first registered matching route is %s (%r)" % (
                        res[0].name, res[0].pattern, want[0].name, want[0].pattern)
                elif not bindings_agree(want[2], want[1], res[1]):
                    mech, bad = "large-table-wrong-binding", "bindings %r, grammar says %r" % (res[1], want[1])
                if not bad and q % 3 == 0:
                    req = Request(("10.%d.%d.%d" % (r.randrange(256), r.randrange(256), r.randrange(256)), 1000 + r.randrange(50000)),
                                  method, path, {}, "", {}, None)
                    resp = router.dispatch(req)
                    counters.inc("dispatches")
                    if resp.status_code == 429:
                        counters.inc("rate_limited_not_judged")
                    elif want is None:
                        if resp.status_code != 404:
                            mech, bad = "large-table-overmatch", "dispatch status %d, expected 404" % resp.status_code
                        else:
                            counters.inc("large_table_dispatch_404")
                    elif resp.status_code == 404:
                        mech, bad = "large-table-registered-route-not-found", "dispatch 404 although %s matches" % want[0].name
                    elif resp.payload != want[0].name.encode():
                        mech, bad = "large-table-first-match", "dispatch ran %r, expected %s" % (resp.payload, want[0].name)
                    else:
                        counters.inc("large_table_dispatch_routed")
                if bad:
                    report(mech, "table of %d routes (%d registered so far, %d of method %s), %s %r: %s" % (
                        len(routes), registered, sum(1 for rt in routes[:registered] if rt.method == method), method, method, path, bad),
                        {"table": spec[:registered], "method": method, "path": path, "registration_stage": stage})
                    failed = True
                    break
            if final:
                break
            # the next piece: the whole rest, a chunk, or one route
            mode = (t + stage) % 3 if stage else t % 4
            step = len(routes) - registered if mode == 3 else (r.randint(1, 20) if mode != 1 else 1)
            step = min(step, len(routes) - registered)
            router.registerRoutes(routes[registered:registered + step])
            registered += step
            stage += 1
        if len(samples) < 6 and t == 0:
            samples.append({"large_table": spec[:8] + ["... %d routes" % len(spec)]})


def run_factories(cfg, counters, violations, samples, distinct):
    """several HTTPFactory objects with DIFFERENT routers alive in one process (a public and an admin listener, say): requests
    arrive through the real channel of each of them in an interleaved order, and each is answered from the route table of the
    router its own factory was given - first registered matching route, 404 when that router has none"""
    from mpgameserver import http_server as H
    from mpgameserver.http_server import Router, Route, Response
    r = rng("C16", cfg["seed"], "factories")
    maxp, maxs = BOUNDS[cfg["tier"]]
    pats = all_patterns(min(maxp, 3))
    paths = [p for p in all_paths(min(maxs, 3)) if not p.startswith("//") and not any(ch in p for ch in " ?#;\r\n\t")]
    n_groups = 40 if cfg["tier"] == "quick" else 500
    for g in range(n_groups):
        nf = r.randint(2, 4)
        tables = []
        for f in range(nf):
            k = r.randint(1, 4)
            spec = [(r.choice(["GET", "GET", "DELETE"]), r.choice(pats)) for _ in range(k)]
            if f and r.random() < 0.3:
                spec = list(tables[0][0])            # the same patterns on two listeners: still two different routers
            routes = [Route("<f%d.r%d>" % (f, j), meth, pat, (lambda req, _n="<f%d.r%d>" % (f, j): Response(payload=_n)))
                      for j, (meth, pat) in enumerate(spec)]
            router = Router()
            router.registerRoutes(routes)
            tables.append((spec, routes, [parse_pattern(pat) for _, pat in spec], router))
        # paths on which the routers of the group disagree (one has a route, another has none or another one), plus any path
        def verdicts(method, path):
            return [_first_match(tb[1], tb[2], method, path) for tb in tables]
        cand = []
        for path in r.sample(paths, 300):
            for method in ("GET", "DELETE"):
                vs = verdicts(method, path)
                if UNSPEC in vs:
                    continue
                if len({(v[0].pattern if v else None) for v in vs}) > 1 or len(cand) < 4:
                    cand.append((method, path))
        if not cand:
            continue
        counters.inc("factory_groups")
        factories = []
        early = []                       # connections opened (protocol built) before the later factories exist

        def ask(f, method, path, proto=None, when=""):
            vs = verdicts(method, path)
            want = vs[f]
            if UNSPEC in vs:
                return True
            suffix = r.choice(["", "", "?x=1", "/"]) if not path.endswith("/") and path != "/" else ""
            if suffix == "/" and UNSPEC in verdicts(method, path + "/"):
                suffix = ""
            # (one optional trailing slash is tolerated: the verdict is the same)
            try:
                status, body = channel_request(factories[f], method, path + suffix, r, proto=proto)
            except Exception as e:
                status, body = None, repr(e).encode()
            counters.inc("http_channel_requests")
            counters.inc("factory_requests")
            distinct.add(h64("factories", [tb[0] for tb in tables], f, len(factories), method, path + suffix))
            if status == 429:
                counters.inc("rate_limited_not_judged")
                return True
            if want is None:
                ok = status == 404
            else:
                ok = status is not None and status != 404 and want[0].name.encode() in body
            if ok:
                later = f < len(factories) - 1
                counters.inc("factory_%s_on_%s_factory" % ("404" if want is None else "routed", "an_earlier_built" if later else "the_latest_built"))
                if later and len({(v[0].pattern if v else None) for v in vs}) > 1:
                    counters.inc("factory_requests_deciding_between_live_routers")
                return True
            # does the answer come from the table of ANOTHER live factory's router?
            foreign = None
            for f2 in range(len(factories)):
                if f2 == f:
                    continue
                v2 = vs[f2]
                if (v2 is None and status == 404) or (v2 is not None and v2[0].name.encode() in body):
                    foreign = f2
                    break
            mech = "http-factory-answered-by-another-factorys-router" if foreign is not None else "http-factory-misrouted"
            counters.inc("viol:" + mech)
            if sum(1 for v in violations if v["mechanism"] == mech) < 8:
                violations.append({"mechanism": mech,
                                   "msg": "%d factories alive (built in order 0..%d), %s %r on a connection of factory %d%s: status %r body %r; its router %r says %s%s" % (
                                       len(factories), len(factories) - 1, method, path + suffix, f, when, status, body[-40:], tables[f][0],
                                       ("route %s" % want[0].name) if want else "404",
                                       ("; that is the answer of factory %d's router %r" % (foreign, tables[foreign][0])) if foreign is not None else ""),
                                   "case": {"tables": [tb[0] for tb in tables], "factory": f, "factories_alive": len(factories), "method": method, "target": path + suffix}})
            return False

        ok = True
        for f in range(nf):
            factories.append(H.HTTPFactory(router=tables[f][3]))
            if f < nf - 1 and r.random() < 0.5:
                early.append((f, factories[f].buildProtocol(None)))
            # right after a factory is built: a request on it and one on each factory built before it
            for f2 in r.sample(range(f + 1), f + 1):
                method, path = r.choice(cand)
                ok = ask(f2, method, path) and ok
            if not ok:
                break
        if ok:
            for f, proto in early:
                method, path = r.choice(cand)
                ok = ask(f, method, path, proto=proto, when=" (opened before the later factories were built)") and ok
                counters.inc("factory_requests_on_connections_opened_before_a_later_factory")
        if ok:
            for i in range(10):
                method, path = r.choice(cand) if i % 4 else (r.choice(["GET", "DELETE"]), r.choice(paths))
                if not ask(r.randrange(nf), method, path):
                    break
        if len(samples) < 8 and g == 0:
            samples.append({"factories": [tb[0] for tb in tables]})


def run_tables(cfg, counters, violations, samples):
    """first-match order, methods and dispatch 404 on small tables"""
    from mpgameserver.http_server import Router, Route, Request, Response
    r = rng("C16", cfg["seed"], "tables")
    maxp, maxs = BOUNDS[cfg["tier"]]
    pats = all_patterns(min(maxp, 3))
    paths = all_paths(min(maxs, 3))
    distinct = set()
    # overlapping tables: for some paths, the patterns that match them (literal and parameterised ones): tables built from those
    # have several matching routes, so the ORDER of registration decides
    parsed_pats = [(pt, parse_pattern(pt)) for pt in pats]
    overlap = []
    for pth in r.sample(paths, min(len(paths), 80)):
        ms = [pt for pt, pp in parsed_pats if ref_match(pp, pth)[0] == MATCH]
        if len(ms) >= 2:
            overlap.append((pth, ms))
    for case in range(cfg["n"]):
        k = r.randint(1, 4)
        chosen = [(r.choice(pats), r.choice(["GET", "POST"])) for _ in range(k)]
        hot_path = None
        if overlap and case % 3 == 0:
            hot_path, ms = r.choice(overlap)
            k = r.randint(2, 4)
            meth_ = r.choice(["GET", "POST"])
            chosen = [(pt, meth_) for pt in r.sample(ms, min(len(ms), k - 1))] + [(r.choice(pats), meth_)]
            r.shuffle(chosen)
            k = len(chosen)
            counters.inc("overlapping_tables")
        ws_flags = [r.random() < 0.15 for _ in range(k)]         # some GET routes are websocket routes
        for order in (itertools.permutations(range(k)) if k <= 3 else [tuple(r.sample(range(k), k))]):
            router = Router()
            routes = []
            if case % 4 == 3:
                # the table comes from a Resource subclass: routes are registered in the order the handlers are WRITTEN in the
                # class body (method names deliberately not in alphabetical order)
                import types
                import mpgameserver.http_server as H
                _RES[0] += 1
                cname = "T%dResource" % _RES[0]
                mnames = r.sample(["zeta", "alpha", "mid", "beta", "omega", "b2", "a9", "Handler", "index"], k)
                if mnames == sorted(mnames) and k > 1:
                    mnames.reverse()

                def body(ns, _order=order, _mn=mnames):
                    for pos, j in enumerate(_order):
                        pat, meth = chosen[j]
                        full = cname.replace("Resource", "").lower() + "." + _mn[pos]
                        if ws_flags[j] and meth == "GET":
                            def h(self, request, opcode, payload):
                                return None
                            deco = H.websocket(pat)
                        else:
                            def h(self, request, _n=full):
                                return Response(payload=_n)
                            deco = (H.get if meth == "GET" else H.delete)(pat)      # (post/put demand a Content-Length: DELETE stands in)
                        h.__name__ = _mn[pos]
                        ns[_mn[pos]] = deco(h)
                R = types.new_class(cname, (H.Resource,), {}, body)
                reg_routes = list(R().routes())            # what the library hands to the router, in ITS order
                by_name = {rt.name: rt for rt in reg_routes}
                prefix = cname.replace("Resource", "").lower() + "."
                # the reference order is the order of the class body
                routes = [by_name[prefix + nm] for nm in mnames if prefix + nm in by_name]
                if len(routes) != k:
                    violations.append({"mechanism": "resource-route-missing", "msg": "Resource with %d decorated handlers yields %d routes" % (k, len(routes)), "case": {}})
                counters.inc("tables_from_resource_classes")
            else:
                for j in order:
                    pat, meth = chosen[j]
                    name = "r%d" % j
                    routes.append(Route(name, meth, pat, (lambda req, _n=name: Response(payload=_n)), websocket=(ws_flags[j] and meth == "GET")))
            # register one by one or in one call; when one by one, look paths up BETWEEN the registrations (a route
            # registered later must be found although the same path was looked up - and missed - before)
            if case % 4 == 3:
                router.registerRoutes(reg_routes)
            elif case % 2:
                router.registerRoutes(routes)
            else:
                probe = [r.choice(paths) for _ in range(6)]
                for rt in routes:
                    for pth in probe:
                        for meth in ("GET", "POST"):
                            router.getRoute(meth, pth)
                    counters.inc("lookups_between_registrations", len(probe) * 2)
                    router.registerRoutes([rt])
                paths_for_case = probe + [r.choice(paths) for _ in range(6)]
            parsed = [parse_pattern(rt.pattern) for rt in routes]
            for _k in range(12):
                path = r.choice(paths) if case % 2 else paths_for_case[_k]
                if hot_path is not None and _k < 3:
                    path = hot_path
                method = r.choice(["GET", "POST", "PUT", "DELETE", "HEAD", "OPTIONS", "PATCH", "get", "Post", "TRACE"]) if case % 2 else r.choice(["GET", "POST"])
                # (a method nobody registered a route for - HEAD, OPTIONS, a lower-case spelling - matches nothing: 404)
                want = None
                unspec = False
                for rt, parts in zip(routes, parsed):
                    if rt.method != method:
                        continue
                    v, b = ref_match(parts, path)
                    if v == UNSPEC:
                        unspec = True
                        break
                    if v == MATCH:
                        want = (rt, b, parts)
                        break
                if unspec:
                    counters.inc("unspecified_not_judged")
                    continue
                counters.inc("table_lookups")
                distinct.add(h64([(rt.pattern, rt.method) for rt in routes], method, path))
                res = router.getRoute(method, path)
                bad = None
                if want is None:
                    if res is not None:
                        bad = "matched %s, grammar says no route matches" % res[0].name
                else:
                    if res is None:
                        bad = "no match, grammar says %s" % want[0].name
                    elif res[0] is not want[0]:
                        bad = "chose %s, the first registered matching route is %s" % (res[0].name, want[0].name)
                    elif not bindings_agree(want[2], want[1], res[1]):
                        bad = "bindings %r, grammar says %r" % (res[1], want[1])
                # dispatch: 404 exactly when nothing matches
                req = Request(("10.%d.%d.%d" % (r.randrange(256), r.randrange(256), r.randrange(256)), 1000 + case % 50000),
                              method, path, {}, "", {}, None)
                resp = router.dispatch(req)
                counters.inc("dispatches")
                if resp.status_code == 429:
                    counters.inc("rate_limited_not_judged")
                elif want is None:
                    if resp.status_code != 404:
                        bad = bad or "dispatch status %d, expected 404" % resp.status_code
                    else:
                        counters.inc("dispatch_404")
                else:
                    if resp.status_code == 404:
                        bad = bad or "dispatch 404 although %s matches" % want[0].name
                    elif want[0].websocket:
                        # the first registered matching route is a websocket route and the request carries no Upgrade header: that
                        # route answers (400), no later route does
                        if resp.status_code != 400:
                            bad = bad or "dispatch status %d (payload %r): the first registered matching route %s is a websocket route, a plain GET gets its 400" % (
                                resp.status_code, resp.payload, want[0].name)
                        else:
                            counters.inc("dispatch_websocket_route_without_upgrade")
                    elif resp.payload != want[0].name.encode():
                        bad = bad or "dispatch ran %r, expected %s" % (resp.payload, want[0].name)
                    else:
                        counters.inc("dispatch_routed")
                        if req.matches is None or not bindings_agree(want[2], want[1], req.matches):
                            bad = bad or "request.matches %r, grammar says %r" % (req.matches, want[1])
                # the same request through the real HTTP channel (HTTPFactory on a StringTransport, no reactor), its target decorated
                # with a query and / or a fragment: what is routed is the target's PATH
                if not bad and case % 4 == 1 and _k % 3 == 0 and method in ("GET", "DELETE") and path.startswith("/") and not path.startswith("//") and not any(ch in path for ch in " ?#;\r\n\t"):
                    # (a target that starts with two slashes is a network-path reference - its first segment is an authority, not path)
                    suffix = r.choice(["", "?x=1", "#frag", "#frag?x=1", "?x=1#frag", "?", "#", "?a=b&c#d/e", "#a/b", "?q=%2F#"])
                    try:
                        status, body_ = http_roundtrip(router, method, path + suffix, r)
                    except Exception as e:
                        status, body_ = None, repr(e).encode()
                    counters.inc("http_channel_requests")
                    counters.inc("http_channel_requests_with_fragment" if "#" in suffix else "http_channel_requests_without_fragment")
                    if status == 429:
                        counters.inc("rate_limited_not_judged")
                    elif want is None:
                        if status != 404:
                            bad = "through the HTTP channel, target %r: status %r, expected 404" % (path + suffix, status)
                    elif want[0].websocket:
                        if status != 400:
                            bad = "through the HTTP channel, target %r: status %r, the first matching route is a websocket route (400)" % (path + suffix, status)
                    elif status is None or status == 404 or want[0].name.encode() not in body_:
                        bad = "through the HTTP channel, target %r: status %r body %r, expected route %s" % (path + suffix, status, body_[-40:], want[0].name)
                    else:
                        counters.inc("http_channel_routed")
                    if bad and sum(1 for v in violations if v["mechanism"] == "http-target-path-misrouted") < 8:
                        violations.append({"mechanism": "http-target-path-misrouted", "msg": "table %r, %s: %s" % ([(rt.method, rt.pattern) for rt in routes], method, bad),
                                           "case": {"table": [(rt.method, rt.pattern) for rt in routes], "method": method, "target": path + suffix}})
                    if bad:
                        continue
                if bad:
                    # reuse the single-pattern classifier on the offending route where possible
                    mech = "table-" + ("first-match" if "first registered" in bad else "mismatch")
                    if res is not None:
                        # is the chosen route's own single-pattern verdict wrong?  then it is that defect
                        rt = res[0]
                        v1, b1 = ref_match(parse_pattern(rt.pattern), path)
                        if v1 == NOMATCH:
                            mech = classify(rt.pattern, parse_pattern(rt.pattern), path, NOMATCH, True, res[1])
                    if sum(1 for v in violations if v["mechanism"] == mech) < 8:
                        violations.append({"mechanism": mech,
                                           "msg": "table %r, %s %r: %s" % ([(rt.method, rt.pattern) for rt in routes], method, path, bad),
                                           "case": {"table": [(rt.method, rt.pattern) for rt in routes], "method": method, "path": path}})
        if len(samples) < 4 and case < 3:
            samples.append({"table": [(m, p) for p, m in chosen]})
    return distinct


def run_shard(cfg):
    counters = Counter()
    violations = []
    samples = []
    if cfg.get("only_case"):
        from mpgameserver.http_server import Router, Route
        c = cfg["only_case"]
        router = Router()
        router.registerRoutes([Route("r", "GET", c["pattern"], lambda req: None)])
        parts = parse_pattern(c["pattern"])
        ref, want = ref_match(parts, c["path"])
        res = router.getRoute("GET", c["path"])
        if ref != UNSPEC and ((res is not None) != (ref == MATCH) or (res and not bindings_agree(parts, want, res[1]))):
            violations.append({"mechanism": classify(c["pattern"], parts, c["path"], ref, res is not None, None),
                               "msg": "pattern %r path %r: router %r, grammar %s %r" % (c["pattern"], c["path"], res, ref, want)})
        return {"violations": violations}
    if cfg["kind"] == "pairs":
        n = run_pairs(cfg, counters, violations, samples)
        return {"evaluations": n, "distinct_count": n - counters.get("unspecified_not_judged", 0),
                "counters": dict(counters), "violations": violations, "samples": samples}
    if cfg["kind"] == "scale":
        distinct = set()
        run_large_tables(cfg, counters, violations, samples, distinct)
        run_factories(cfg, counters, violations, samples, distinct)
        return {"evaluations": counters.get("large_table_lookups", 0) + counters.get("factory_requests", 0), "distinct": sorted(distinct),
                "counters": dict(counters), "violations": violations, "samples": samples}
    distinct = run_tables(cfg, counters, violations, samples)
    run_longlived(cfg, counters, violations, samples)
    return {"evaluations": counters.get("table_lookups", 0) + counters.get("longlived_lookups", 0) + counters.get("http_channel_requests", 0), "distinct": sorted(distinct),
            "counters": dict(counters), "violations": violations, "samples": samples}


def finish(tier, seed, results):
    m = merge(results)
    inconclusive = []
    need(m["counters"], ["pairs", "ref_match", "ref_nomatch", "bindings_checked", "table_lookups",
                         "dispatch_404", "dispatch_routed", "lookups_between_registrations", "tables_from_resource_classes", "longlived_lookups", "http_channel_routed", "http_channel_requests_with_fragment",
                         "dispatch_websocket_route_without_upgrade", "patterns_spelled_with_extra_slashes", "overlapping_tables",
                         "large_table_lookups", "large_table_lookups_between_registrations", "large_tables_with_parameter_first_route_before_literal_first_route",
                         "large_table_lookups_answered_by_a_later_route", "large_table_dispatch_routed", "large_table_dispatch_404",
                         "factory_routed_on_an_earlier_built_factory", "factory_404_on_an_earlier_built_factory", "factory_requests_deciding_between_live_routers",
                         "factory_requests_on_connections_opened_before_a_later_factory"], inconclusive)
    maxp, maxs = BOUNDS[tier]
    cov = {
        "evaluations": m["evaluations"],
        "distinct_nontrivial": m["distinct_nontrivial"],
        "rule": "pairs: every pattern of <=%d segments over literals %r and :name parameters (modifier ?,+,* only on the last "
                "segment) x every path of <=%d segments over %r with and without a trailing slash (distinct by construction; "
                "pairs where an empty segment falls into a ?/+/* position are unspecified and excluded from "
                "distinct_nontrivial); tables: seeded tables of 1-4 routes over two methods in every registration order, "
                "first-match/method/404 checked through getRoute and dispatch (distinct by hash of table+request); large tables: "
                "seeded tables of 17-60 routes of one method mixing parameter-first and literal-first routes, registered in pieces "
                "with judged lookups at every stage; factories: groups of 2-4 live HTTPFactory objects with different routers, "
                "requests interleaved through their real channels" % (
                    maxp, LITERALS, maxs, PATHSEGS),
        "exhaustive": True,
        "exhaustive_scope": "the pairs part (the stated bounded grammar); the tables part is a seeded sample",
        "samples": m["samples"],
        "counters": m["counters"],
    }
    return {"coverage": cov, "inconclusive": inconclusive,
            "assumptions": ["request paths start with '/' (HTTP); parameter names are distinct within a pattern",
                            "an empty path segment in a ?/+/* position is unspecified by the documentation and not judged",
                            "the rate limiter is not under test (requests carry rotating client addresses)"]}
