"""C16 - the HTTP router matches paths exactly as the documented grammar says.

Postcondition monitor on the real Router.getRoute / Router.dispatch.  The oracle
is a reference matcher written from the documented grammar on path *segments*
(not a regular expression): literal => equal segment, :n => one non-empty
segment, trailing :n? => 0..1, :n+ => >=1, :n* => >=0 remaining segments; one
optional trailing slash is tolerated.  Where the statement is silent (an empty
segment falling into a ?/+/* position) the case is counted as unspecified and
is not judged.
"""
import itertools

from mon.core.merge import merge, need
from mon.core.util import Counter, h64, rng

ID = "C16"
LEVEL = "exploration"
SHARD_TIMEOUT = {"quick": 300, "thorough": 2400}

LITERALS = ["a", "ab", "b", "v1.0"]
PATHSEGS = ["a", "ab", "abc", "b", "v1.0", "v1x0", "x", "", "%61", "a%2Fb", "a..b", ".."]   # (percent escapes are matched as received, never decoded)
BOUNDS = {"quick": (3, 4), "thorough": (4, 5)}   # (max pattern segments, max path segments)

MATCH, NOMATCH, UNSPEC = "match", "nomatch", "unspecified"


# ------------------------------------------------------------------ reference

def parse_pattern(pattern):
    parts = [p for p in pattern.split("/") if p]
    out = []
    for p in parts:
        if p.startswith(":"):
            if p[-1] in "?+*":
                out.append(("param", p[1:-1], p[-1]))
            else:
                out.append(("param", p[1:], ""))
        else:
            out.append(("lit", p, ""))
    return out


def split_path(path):
    assert path.startswith("/")
    if path == "/":
        return []
    parts = path.split("/")[1:]
    if len(parts) > 1 and parts[-1] == "":
        parts = parts[:-1]          # the one tolerated trailing slash
    return parts


def ref_match(pattern_parts, path):
    """returns (verdict, bindings)"""
    segs = split_path(path)
    binds = {}
    for i, (kind, name, mod) in enumerate(pattern_parts):
        if kind == "lit":
            if i >= len(segs) or segs[i] != name:
                return NOMATCH, None
        elif mod == "":
            if i >= len(segs) or segs[i] == "":
                return NOMATCH, None
            binds[name] = segs[i]
        else:
            rest = segs[i:]
            if any(s == "" for s in rest):
                return UNSPEC, None
            if mod == "?" and len(rest) > 1:
                return NOMATCH, None
            if mod == "+" and len(rest) < 1:
                return NOMATCH, None
            binds[name] = "/".join(rest) if rest else None
            return MATCH, binds
    if len(segs) != len(pattern_parts):
        return NOMATCH, None
    return MATCH, binds


def bindings_agree(pattern_parts, want, got):
    """got: dict reported by the router"""
    if set(got) != set(want):
        return False
    for kind, name, mod in pattern_parts:
        if kind != "param":
            continue
        w, g = want[name], got[name]
        if w is None:
            if g not in (None, ""):
                return False
        elif mod in ("+", "*"):
            if g != w and g != w + "/":
                return False
        else:
            if g != w:
                return False
    return True


# ------------------------------------------------------------------ enumeration

def all_patterns(maxseg):
    pats = ["/"]
    inner = LITERALS + [":p%d"]
    last = LITERALS + [":p%d", ":p%d?", ":p%d+", ":p%d*"]
    for k in range(1, maxseg + 1):
        for combo in itertools.product(*([inner] * (k - 1) + [last])):
            pats.append("/" + "/".join((c % i) if "%d" in c else c for i, c in enumerate(combo)))
    return pats


def all_paths(maxseg):
    out = []
    for k in range(0, maxseg + 1):
        for combo in itertools.product(PATHSEGS, repeat=k):
            p = "/" + "/".join(combo)
            out.append(p)
            out.append(p + "/")
    # "/" and "//" are produced more than once (k=0 and the empty segment): deduplicate, keep order
    seen = set()
    return [p for p in out if not (p in seen or seen.add(p))]


def plan(tier, seed):
    k = 16
    shards = [{"kind": "pairs", "tier": tier, "seed": seed, "shard": i, "nshards": k, "subprocess": True} for i in range(k)]
    shards.append({"kind": "tables", "tier": tier, "seed": seed, "n": 4000 if tier == "quick" else 60000, "subprocess": True})
    return shards


def classify(pattern, parts, path, ref, real_matched, binds):
    """mechanism label from the structure of the witness"""
    segs = split_path(path)
    if ref == NOMATCH and real_matched:
        has_plus = any(m == "+" for _, _, m in parts)
        lits = [n for k, n, m in parts if k == "lit"]
        # literal regex metacharacter matched another character?
        for i, (k, n, m) in enumerate(parts):
            if k == "lit" and i < len(segs) and segs[i] != n and "." in n and len(segs[i]) == len(n):
                return "literal-not-escaped"
        if has_plus:
            return "plus-pattern-overmatch"
        return "overmatch"
    if ref == MATCH and not real_matched:
        return "undermatch"
    return "wrong-binding"


def run_pairs(cfg, counters, violations, samples):
    from mpgameserver.http_server import Router, Route
    maxp, maxs = BOUNDS[cfg["tier"]]
    pats = all_patterns(maxp)
    paths = all_paths(maxs)
    n = 0
    for pi, pattern in enumerate(pats):
        if pi % cfg["nshards"] != cfg["shard"]:
            continue
        parts = parse_pattern(pattern)
        router = Router()
        # the same route written with a trailing slash or a doubled slash is the same route (empty pattern parts are dropped)
        spelled = pattern
        if pattern != "/" and pi % 5 == 0:
            spelled = pattern + "/"
        elif pattern != "/" and pi % 5 == 1:
            spelled = "/" + pattern[1:].replace("/", "//", 1) if "/" in pattern[1:] else "//" + pattern[1:]
        if spelled != pattern:
            counters.inc("patterns_spelled_with_extra_slashes")
        route = Route("r", "GET", spelled, lambda req: None)
        router.registerRoutes([route])
        counters.inc("patterns")
        for path in paths:
            n += 1
            ref, want = ref_match(parts, path)
            if ref == UNSPEC:
                counters.inc("unspecified_not_judged")
                continue
            res = router.getRoute("GET", path)
            real = res is not None
            if ref == MATCH:
                counters.inc("ref_match")
            else:
                counters.inc("ref_nomatch")
            bad = None
            if real != (ref == MATCH):
                bad = "router %s but the grammar says %s" % ("matched" if real else "did not match", ref)
            elif real:
                endpt, binds = res
                if endpt is not route:
                    bad = "returned another route object"
                elif not bindings_agree(parts, want, binds):
                    bad = "bindings %r, grammar says %r" % (binds, want)
                else:
                    counters.inc("bindings_checked", len(want))
            if bad:
                mech = classify(pattern, parts, path, ref, real, res[1] if res else None)
                if sum(1 for v in violations if v["mechanism"] == mech) < 8:
                    violations.append({"mechanism": mech,
                                       "msg": "pattern %r path %r: %s (bindings %r)" % (pattern, path, bad, res[1] if res else None),
                                       "case": {"pattern": pattern, "path": path}, "case_key": {"pattern": pattern, "path": path}})
                counters.inc("viol:" + mech)
        if len(samples) < 2 and len(parts) >= 2:
            samples.append({"pattern": pattern, "paths_tried": len(paths), "example_paths": paths[100:104]})
    counters.inc("pairs", n)
    return n


_RES = [0]


_FACTORIES = {}


def http_roundtrip(router, method, target, r):
    """one request through the library's HTTPFactory channel on a StringTransport; returns (status, raw body)"""
    import contextlib
    import io
    from twisted.internet.testing import StringTransport
    from twisted.internet.address import IPv4Address
    from mpgameserver import http_server as H
    fac = _FACTORIES.get(id(router))
    if fac is None:
        _FACTORIES.clear()
        fac = _FACTORIES[id(router)] = (H.HTTPFactory(router=router), router)
    proto = fac[0].buildProtocol(None)
    tr = StringTransport(peerAddress=IPv4Address("TCP", "10.%d.%d.%d" % (r.randrange(256), r.randrange(256), r.randrange(1, 255)), r.randint(1024, 65000)))
    tr.setTcpNoDelay = lambda v: None
    proto.makeConnection(tr)
    with contextlib.redirect_stdout(io.StringIO()):
        proto.dataReceived(("%s %s HTTP/1.1\r\nHost: x\r\nConnection: close\r\n\r\n" % (method, target)).encode("utf-8"))
    raw = tr.value()
    try:
        from twisted.python.failure import Failure
        from twisted.internet.error import ConnectionDone
        with contextlib.redirect_stdout(io.StringIO()):
            proto.connectionLost(Failure(ConnectionDone()))
    except Exception:
        pass
    if not raw.startswith(b"HTTP/"):
        return None, raw
    head, _, body = raw.partition(b"\r\n\r\n")
    return int(head.split(b" ", 2)[1]), body


def run_longlived(cfg, counters, violations, samples):
    """one router that serves thousands of requests: whatever it learns from the traffic, the FIRST registered matching route
    answers - also when a later overlapping route is by far the more popular one"""
    from mpgameserver.http_server import Router, Route, Request, Response
    r = rng("C16", cfg["seed"], "longlived")
    maxp, maxs = BOUNDS[cfg["tier"]]
    pats = all_patterns(min(maxp, 3))
    paths = all_paths(min(maxs, 3))
    parsed_pats = [(pt, parse_pattern(pt)) for pt in pats]
    n_tables = 12 if cfg["tier"] == "quick" else 150
    done = 0
    for _ in range(n_tables * 6):
        if done >= n_tables:
            break
        hot = r.choice(paths)
        ms = [pt for pt, pp in parsed_pats if ref_match(pp, hot)[0] == MATCH]
        if len(ms) < 2:
            continue
        chosen = r.sample(ms, min(len(ms), r.randint(2, 4)))
        parsed = [parse_pattern(pt) for pt in chosen]
        # requests: the hot path now and then; mostly paths that only LATER routes of the table match
        later_only = [pth for pth in r.sample(paths, min(len(paths), 400))
                      if ref_match(parsed[0], pth)[0] == NOMATCH and any(ref_match(pp, pth)[0] == MATCH for pp in parsed[1:])]
        if not later_only:
            continue
        if any(ref_match(pp, pth)[0] == UNSPEC for pp in parsed for pth in later_only[:8] + [hot]):
            continue
        done += 1
        router = Router()
        routes = [Route("r%d" % j, "GET", pt, (lambda req, _n="r%d" % j: Response(payload=_n))) for j, pt in enumerate(chosen)]
        router.registerRoutes(routes)
        counters.inc("longlived_tables")
        for i in range(1500):
            path = hot if i % 50 == 49 else r.choice(later_only[:8])
            want = None
            for rt, pp in zip(routes, parsed):
                if ref_match(pp, path)[0] == MATCH:
                    want = rt
                    break
            res = router.getRoute("GET", path)
            counters.inc("longlived_lookups")
            if (res[0] if res else None) is not want:
                if sum(1 for v in violations if v["mechanism"] == "table-first-match") < 8:
                    violations.append({"mechanism": "table-first-match",
                                       "msg": "long-lived router, table %r, lookup %d, GET %r: chose %s, the first registered matching route is %s" % (
                                           chosen, i, path, res[0].name if res else None, want.name if want else None),
                                       "case": {"table": chosen, "path": path, "lookup": i}})
                break
    return done


def run_tables(cfg, counters, violations, samples):
    """first-match order, methods and dispatch 404 on small tables"""
    from mpgameserver.http_server import Router, Route, Request, Response
    r = rng("C16", cfg["seed"], "tables")
    maxp, maxs = BOUNDS[cfg["tier"]]
    pats = all_patterns(min(maxp, 3))
    paths = all_paths(min(maxs, 3))
    distinct = set()
    # overlapping tables: for some paths, the patterns that match them (literal and parameterised ones): tables built from those
    # have several matching routes, so the ORDER of registration decides
    parsed_pats = [(pt, parse_pattern(pt)) for pt in pats]
    overlap = []
    for pth in r.sample(paths, min(len(paths), 80)):
        ms = [pt for pt, pp in parsed_pats if ref_match(pp, pth)[0] == MATCH]
        if len(ms) >= 2:
            overlap.append((pth, ms))
    for case in range(cfg["n"]):
        k = r.randint(1, 4)
        chosen = [(r.choice(pats), r.choice(["GET", "POST"])) for _ in range(k)]
        hot_path = None
        if overlap and case % 3 == 0:
            hot_path, ms = r.choice(overlap)
            k = r.randint(2, 4)
            meth_ = r.choice(["GET", "POST"])
            chosen = [(pt, meth_) for pt in r.sample(ms, min(len(ms), k - 1))] + [(r.choice(pats), meth_)]
            r.shuffle(chosen)
            k = len(chosen)
            counters.inc("overlapping_tables")
        ws_flags = [r.random() < 0.15 for _ in range(k)]         # some GET routes are websocket routes
        for order in (itertools.permutations(range(k)) if k <= 3 else [tuple(r.sample(range(k), k))]):
            router = Router()
            routes = []
            if case % 4 == 3:
                # the table comes from a Resource subclass: routes are registered in the order the handlers are WRITTEN in the
                # class body (method names deliberately not in alphabetical order)
                import types
                import mpgameserver.http_server as H
                _RES[0] += 1
                cname = "T%dResource" % _RES[0]
                mnames = r.sample(["zeta", "alpha", "mid", "beta", "omega", "b2", "a9", "Handler", "index"], k)
                if mnames == sorted(mnames) and k > 1:
                    mnames.reverse()

                def body(ns, _order=order, _mn=mnames):
                    for pos, j in enumerate(_order):
                        pat, meth = chosen[j]
                        full = cname.replace("Resource", "").lower() + "." + _mn[pos]
                        if ws_flags[j] and meth == "GET":
                            def h(self, request, opcode, payload):
                                return None
                            deco = H.websocket(pat)
                        else:
                            def h(self, request, _n=full):
                                return Response(payload=_n)
                            deco = (H.get if meth == "GET" else H.delete)(pat)      # (post/put demand a Content-Length: DELETE stands in)
                        h.__name__ = _mn[pos]
                        ns[_mn[pos]] = deco(h)
                R = types.new_class(cname, (H.Resource,), {}, body)
                reg_routes = list(R().routes())            # what the library hands to the router, in ITS order
                by_name = {rt.name: rt for rt in reg_routes}
                prefix = cname.replace("Resource", "").lower() + "."
                # the reference order is the order of the class body
                routes = [by_name[prefix + nm] for nm in mnames if prefix + nm in by_name]
                if len(routes) != k:
                    violations.append({"mechanism": "resource-route-missing", "msg": "Resource with %d decorated handlers yields %d routes" % (k, len(routes)), "case": {}})
                counters.inc("tables_from_resource_classes")
            else:
                for j in order:
                    pat, meth = chosen[j]
                    name = "r%d" % j
                    routes.append(Route(name, meth, pat, (lambda req, _n=name: Response(payload=_n)), websocket=(ws_flags[j] and meth == "GET")))
            # register one by one or in one call; when one by one, look paths up BETWEEN the registrations (a route
            # registered later must be found although the same path was looked up - and missed - before)
            if case % 4 == 3:
                router.registerRoutes(reg_routes)
            elif case % 2:
                router.registerRoutes(routes)
            else:
                probe = [r.choice(paths) for _ in range(6)]
                for rt in routes:
                    for pth in probe:
                        for meth in ("GET", "POST"):
                            router.getRoute(meth, pth)
                    counters.inc("lookups_between_registrations", len(probe) * 2)
                    router.registerRoutes([rt])
                paths_for_case = probe + [r.choice(paths) for _ in range(6)]
            parsed = [parse_pattern(rt.pattern) for rt in routes]
            for _k in range(12):
                path = r.choice(paths) if case % 2 else paths_for_case[_k]
                if hot_path is not None and _k < 3:
                    path = hot_path
                method = r.choice(["GET", "POST", "PUT", "DELETE", "HEAD", "OPTIONS", "PATCH", "get", "Post", "TRACE"]) if case % 2 else r.choice(["GET", "POST"])
                # (a method nobody registered a route for - HEAD, OPTIONS, a lower-case spelling - matches nothing: 404)
                want = None
                unspec = False
                for rt, parts in zip(routes, parsed):
                    if rt.method != method:
                        continue
                    v, b = ref_match(parts, path)
                    if v == UNSPEC:
                        unspec = True
                        break
                    if v == MATCH:
                        want = (rt, b, parts)
                        break
                if unspec:
                    counters.inc("unspecified_not_judged")
                    continue
                counters.inc("table_lookups")
                distinct.add(h64([(rt.pattern, rt.method) for rt in routes], method, path))
                res = router.getRoute(method, path)
                bad = None
                if want is None:
                    if res is not None:
                        bad = "matched %s, grammar says no route matches" % res[0].name
                else:
                    if res is None:
                        bad = "no match, grammar says %s" % want[0].name
                    elif res[0] is not want[0]:
                        bad = "chose %s, the first registered matching route is %s" % (res[0].name, want[0].name)
                    elif not bindings_agree(want[2], want[1], res[1]):
                        bad = "bindings %r, grammar says %r" % (res[1], want[1])
                # dispatch: 404 exactly when nothing matches
                req = Request(("10.%d.%d.%d" % (r.randrange(256), r.randrange(256), r.randrange(256)), 1000 + case % 50000),
                              method, path, {}, "", {}, None)
                resp = router.dispatch(req)
                counters.inc("dispatches")
                if resp.status_code == 429:
                    counters.inc("rate_limited_not_judged")
                elif want is None:
                    if resp.status_code != 404:
                        bad = bad or "dispatch status %d, expected 404" % resp.status_code
                    else:
                        counters.inc("dispatch_404")
                else:
                    if resp.status_code == 404:
                        bad = bad or "dispatch 404 although %s matches" % want[0].name
                    elif want[0].websocket:
                        # the first registered matching route is a websocket route and the request carries no Upgrade header: that
                        # route answers (400), no later route does
                        if resp.status_code != 400:
                            bad = bad or "dispatch status %d (payload %r): the first registered matching route %s is a websocket route, a plain GET gets its 400" % (
                                resp.status_code, resp.payload, want[0].name)
                        else:
                            counters.inc("dispatch_websocket_route_without_upgrade")
                    elif resp.payload != want[0].name.encode():
                        bad = bad or "dispatch ran %r, expected %s" % (resp.payload, want[0].name)
                    else:
                        counters.inc("dispatch_routed")
                        if req.matches is None or not bindings_agree(want[2], want[1], req.matches):
                            bad = bad or "request.matches %r, grammar says %r" % (req.matches, want[1])
                # the same request through the real HTTP channel (HTTPFactory on a StringTransport, no reactor), its target decorated
                # with a query and / or a fragment: what is routed is the target's PATH
                if not bad and case % 4 == 1 and _k % 3 == 0 and method in ("GET", "DELETE") and path.startswith("/") and not path.startswith("//") and not any(ch in path for ch in " ?#;\r\n\t"):
                    # (a target that starts with two slashes is a network-path reference - its first segment is an authority, not path)
                    suffix = r.choice(["", "?x=1", "#frag", "#frag?x=1", "?x=1#frag", "?", "#", "?a=b&c#d/e", "#a/b", "?q=%2F#"])
                    try:
                        status, body_ = http_roundtrip(router, method, path + suffix, r)
                    except Exception as e:
                        status, body_ = None, repr(e).encode()
                    counters.inc("http_channel_requests")
                    counters.inc("http_channel_requests_with_fragment" if "#" in suffix else "http_channel_requests_without_fragment")
                    if status == 429:
                        counters.inc("rate_limited_not_judged")
                    elif want is None:
                        if status != 404:
                            bad = "through the HTTP channel, target %r: status %r, expected 404" % (path + suffix, status)
                    elif want[0].websocket:
                        if status != 400:
                            bad = "through the HTTP channel, target %r: status %r, the first matching route is a websocket route (400)" % (path + suffix, status)
                    elif status is None or status == 404 or want[0].name.encode() not in body_:
                        bad = "through the HTTP channel, target %r: status %r body %r, expected route %s" % (path + suffix, status, body_[-40:], want[0].name)
                    else:
                        counters.inc("http_channel_routed")
                    if bad and sum(1 for v in violations if v["mechanism"] == "http-target-path-misrouted") < 8:
                        violations.append({"mechanism": "http-target-path-misrouted", "msg": "table %r, %s: %s" % ([(rt.method, rt.pattern) for rt in routes], method, bad),
                                           "case": {"table": [(rt.method, rt.pattern) for rt in routes], "method": method, "target": path + suffix}})
                    if bad:
                        continue
                if bad:
                    # reuse the single-pattern classifier on the offending route where possible
                    mech = "table-" + ("first-match" if "first registered" in bad else "mismatch")
                    if res is not None:
                        # is the chosen route's own single-pattern verdict wrong?  then it is that defect
                        rt = res[0]
                        v1, b1 = ref_match(parse_pattern(rt.pattern), path)
                        if v1 == NOMATCH:
                            mech = classify(rt.pattern, parse_pattern(rt.pattern), path, NOMATCH, True, res[1])
                    if sum(1 for v in violations if v["mechanism"] == mech) < 8:
                        violations.append({"mechanism": mech,
                                           "msg": "table %r, %s %r: %s" % ([(rt.method, rt.pattern) for rt in routes], method, path, bad),
                                           "case": {"table": [(rt.method, rt.pattern) for rt in routes], "method": method, "path": path}})
        if len(samples) < 4 and case < 3:
            samples.append({"table": [(m, p) for p, m in chosen]})
    return distinct


def run_shard(cfg):
    counters = Counter()
    violations = []
    samples = []
    if cfg.get("only_case"):
        from mpgameserver.http_server import Router, Route
        c = cfg["only_case"]
        router = Router()
        router.registerRoutes([Route("r", "GET", c["pattern"], lambda req: None)])
        parts = parse_pattern(c["pattern"])
        ref, want = ref_match(parts, c["path"])
        res = router.getRoute("GET", c["path"])
        if ref != UNSPEC and ((res is not None) != (ref == MATCH) or (res and not bindings_agree(parts, want, res[1]))):
            violations.append({"mechanism": classify(c["pattern"], parts, c["path"], ref, res is not None, None),
                               "msg": "pattern %r path %r: router %r, grammar %s %r" % (c["pattern"], c["path"], res, ref, want)})
        return {"violations": violations}
    if cfg["kind"] == "pairs":
        n = run_pairs(cfg, counters, violations, samples)
        return {"evaluations": n, "distinct_count": n - counters.get("unspecified_not_judged", 0),
                "counters": dict(counters), "violations": violations, "samples": samples}
    distinct = run_tables(cfg, counters, violations, samples)
    run_longlived(cfg, counters, violations, samples)
    return {"evaluations": counters.get("table_lookups", 0) + counters.get("longlived_lookups", 0) + counters.get("http_channel_requests", 0), "distinct": sorted(distinct),
            "counters": dict(counters), "violations": violations, "samples": samples}


def finish(tier, seed, results):
    m = merge(results)
    inconclusive = []
    need(m["counters"], ["pairs", "ref_match", "ref_nomatch", "bindings_checked", "table_lookups",
                         "dispatch_404", "dispatch_routed", "lookups_between_registrations", "tables_from_resource_classes", "longlived_lookups", "http_channel_routed", "http_channel_requests_with_fragment",
                         "dispatch_websocket_route_without_upgrade", "patterns_spelled_with_extra_slashes", "overlapping_tables"], inconclusive)
    maxp, maxs = BOUNDS[tier]
    cov = {
        "evaluations": m["evaluations"],
        "distinct_nontrivial": m["distinct_nontrivial"],
        "rule": "pairs: every pattern of <=%d segments over literals %r and :name parameters (modifier ?,+,* only on the last "
                "segment) x every path of <=%d segments over %r with and without a trailing slash (distinct by construction; "
                "pairs where an empty segment falls into a ?/+/* position are unspecified and excluded from "
                "distinct_nontrivial); tables: seeded tables of 1-4 routes over two methods in every registration order, "
                "first-match/method/404 checked through getRoute and dispatch (distinct by hash of table+request)" % (
                    maxp, LITERALS, maxs, PATHSEGS),
        "exhaustive": True,
        "exhaustive_scope": "the pairs part (the stated bounded grammar); the tables part is a seeded sample",
        "samples": m["samples"],
        "counters": m["counters"],
    }
    return {"coverage": cov, "inconclusive": inconclusive,
            "assumptions": ["request paths start with '/' (HTTP); parameter names are distinct within a pattern",
                            "an empty path segment in a ?/+/* position is unspecified by the documentation and not judged",
                            "the rate limiter is not under test (requests carry rotating client addresses)"]}
