"""C17 - path_join_safe never returns a path outside the root.

Postcondition monitor on the real function: it raises ValueError, or returns p
with p == normpath(p), p absolute and commonpath([R, p]) == R for
R = abspath(root with backslashes turned into slashes).  Names are enumerated
from an adversarial segment alphabet (exhaustively up to a bound), drawn at random
from unicode, and obtained by sending URLs through the real Router with a
`/:path*` route, as demo/http.py does.  A further family is derived FROM each
root: absolute names of another tree that contain the root's own path lower down
(<other tree> + root + tail, the root twice, every separator form), given to the
function directly and through the Router.
"""
import itertools
import os
import re

from mon.core.merge import merge, need
from mon.core.util import Counter, h64, rng

ID = "C17"
LEVEL = "exploration"
SHARD_TIMEOUT = {"quick": 300, "thorough": 2400}

ROOTS = ["/srv/www", "/srv/www/", "/", "static", ".", "/a/../srv", "/srv\\www", "/srv/www/sub dir"]
SEGS = ["..", ".", "", "a", "b.txt", "...", "..a", "C:", "~"]
SEPS = ["/", "\\", "mixed"]
PREFIXES = ["", "/", "//", "\\", "C:/", "C:\\", "///", "\\\\"]
MAXSEG = {"quick": 4, "thorough": 6}


def plan(tier, seed):
    shards = []
    # enumeration shards: one per (root, first segment) for balance
    for ri in range(len(ROOTS)):
        if tier == "quick":
            shards.append({"kind": "enum", "tier": tier, "seed": seed, "root": ri, "first": None, "subprocess": True})
        else:
            for fi in range(len(SEGS)):
                shards.append({"kind": "enum", "tier": tier, "seed": seed, "root": ri, "first": fi, "subprocess": True})
    n_rand = 4 if tier == "quick" else 16
    for i in range(n_rand):
        shards.append({"kind": "random", "tier": tier, "seed": seed, "shard": i,
                       "n": 25000 if tier == "quick" else 200000, "subprocess": True})
    shards.append({"kind": "router", "tier": tier, "seed": seed, "n": 20000 if tier == "quick" else 300000, "subprocess": True})
    n_embed = 4 if tier == "quick" else 8
    for i in range(n_embed):
        # shard i takes ROOTS[i::n_embed]; the shards with i % 4 == 0 also take the roots on disk and the relative roots after chdir
        shards.append({"kind": "embed", "tier": tier, "seed": seed, "shard": i, "nshards": n_embed,
                       "n": 12 if tier == "quick" else 300, "subprocess": True})
    return shards


class Monitor(object):
    def __init__(self):
        from mpgameserver.http_server import path_join_safe
        self.fn = path_join_safe
        self.counters = Counter()
        self.violations = []
        self.distinct = set()
        self.distinct_count = 0
        self.samples = []

    def check(self, root, name, origin, count_distinct=True):
        R = os.path.abspath(root.replace("\\", "/"))
        self.counters.inc("calls")
        try:
            p = self.fn(root, name)
        except ValueError:
            self.counters.inc("refused")
            return None
        except Exception as e:
            self.counters.inc("other_exception")
            self._viol("raises-%s" % type(e).__name__, root, name, origin,
                       "raised %s: %s (only ValueError is allowed)" % (type(e).__name__, e))
            return None
        self.counters.inc("returned")
        ok_norm = isinstance(p, str) and os.path.isabs(p) and os.path.normpath(p) == p
        try:
            inside = os.path.commonpath([R, p]) == R
        except Exception:
            inside = False
        if not inside:
            norm = name.replace("\\", "/")
            if norm.startswith("/") and embeds_root(R, norm):
                mech = "absolute-name-embedding-root-escapes-root"
            elif norm.startswith("/"):
                mech = "absolute-name-escapes-root"
            elif ".." in norm.split("/"):
                mech = "dotdot-escapes-root"
            else:
                mech = "escapes-root"
            self._viol(mech, root, name, origin, "returned %r which is outside root %r" % (p, R))
        elif not ok_norm:
            self._viol("not-normalized", root, name, origin, "returned %r which is not an absolute normalized path" % (p,))
        else:
            self.counters.inc("returned_inside")
            if p == R:
                self.counters.inc("returned_root_itself")
        return p

    def _viol(self, mech, root, name, origin, msg):
        if len(self.violations) < 30:
            self.violations.append({"mechanism": mech,
                                    "msg": "path_join_safe(%r, %r) %s [%s]" % (root, name, msg, origin),
                                    "case": {"root": root, "name": name, "origin": origin}})

    def result(self):
        return {"evaluations": self.counters.get("calls", 0), "distinct": sorted(self.distinct),
                "distinct_count": self.distinct_count,
                "counters": dict(self.counters), "violations": self.violations, "samples": self.samples}


def embeds_root(R, norm):
    """the (slash-normalized) name contains the root's full path as a complete sub-path somewhere AFTER its start"""
    if R == "/":
        return False
    flat = re.sub("/+", "/", norm)
    i = flat.find(R, 1)
    while i > 0:
        end = i + len(R)
        if end == len(flat) or flat[end] == "/":
            return True
        i = flat.find(R, i + 1)
    return False


def join(segs, sep, r=None):
    if sep == "mixed":
        out = ""
        for i, s in enumerate(segs):
            if i:
                out += "/" if (i % 2) else "\\"
            out += s
        return out
    return sep.join(segs)


def run_enum(cfg, mon):
    root = ROOTS[cfg["root"]]
    maxseg = MAXSEG[cfg["tier"]]
    firsts = [cfg["first"]] if cfg.get("first") is not None else range(len(SEGS))
    seen = set()
    for k in range(0, maxseg + 1):
        if k == 0:
            combos = [()] if cfg.get("first") in (None, 0) else []
        else:
            combos = (tuple([SEGS[f]]) + rest for f in firsts for rest in itertools.product(SEGS, repeat=k - 1))
        for segs in combos:
            for sep in SEPS:
                body = join(segs, sep)
                for pre in PREFIXES:
                    name = pre + body
                    if name in seen:
                        continue
                    if k <= 3:
                        seen.add(name)
                    mon.check(root, name, "enum")
                    mon.distinct_count += 1
                    if len(mon.samples) < 3 and k == 3 and pre and ".." in segs:
                        mon.samples.append({"root": root, "name": name})
    mon.counters.inc("enum_names", mon.distinct_count)


def sibling_names(root):
    """absolute names built from the root itself: siblings whose name merely starts with the root's name"""
    R = os.path.abspath(root.replace("\\", "/"))
    base = os.path.basename(R) or "x"
    out = []
    for suffix in ("x", "-private/secret.txt", ".bak", ".bak/f", "_old/a/b", "2", " ", "%20", "\x00", "/", "//a", "/a", "/../" + base + "x/f", "x/../" + base):
        for form in (R + suffix, "/" + R + suffix, R.replace("/", "\\") + suffix, "\\" + R[1:] + suffix, R.upper() + suffix):
            out.append(form)
    parent = os.path.dirname(R)
    out += [parent, parent + "/", parent + "/" + base + "x", os.path.join(parent, base[:-1]) if len(base) > 1 else parent, R[:-1], R + R]
    return out


def real_roots():
    """roots that exist on disk: a directory, a regular FILE (a caller that passes __file__), a directory with a sibling that
    shares its name's characters - the function works on names, what is on the disk must not change its verdict"""
    import tempfile
    base = tempfile.mkdtemp(prefix="c17roots_", dir=os.environ.get("VERIF_SCRATCH", "/var/tmp"))
    os.makedirs(os.path.join(base, "site", "img"))
    os.makedirs(os.path.join(base, "site2"))
    for f in ("site/index.html", "site/secret.txt", "site2/secret.txt", "secret.txt"):
        with open(os.path.join(base, f), "w") as fh:
            fh.write("x")
    # symbolic links inside the root (left there by a deploy script, an upload, an unpacked archive): to a file and a directory
    # outside, relative and absolute, dangling, and one that stays inside.  The function works on names: what it returns for
    # "link.txt" is <root>/link.txt, never where the link points
    for link, target in (("site/link.txt", os.path.join(base, "secret.txt")), ("site/rel.txt", "../secret.txt"), ("site/out", os.path.join(base, "site2")),
                         ("site/relout", "../site2"), ("site/dangling", "/nonexistent/c17/x"), ("site/img/up", ".."), ("site/inside.txt", "index.html"),
                         ("site/etc", "/etc")):
        try:
            os.symlink(target, os.path.join(base, link))
        except OSError:
            pass
    return base, [os.path.join(base, "site"), os.path.join(base, "site", "index.html"), os.path.join(base, "site") + "/", os.path.join(base, "site", "img")]


def run_random(cfg, mon):
    r = rng("C17", cfg["seed"], cfg["shard"])
    import shutil
    base, rroots = real_roots()
    try:
        names = ["secret.txt", "../secret.txt", "index.html", "img", "img/../secret.txt", "../site2/secret.txt", "/secret.txt", "", ".", "..",
                 os.path.join(base, "secret.txt"), os.path.join(base, "site2", "secret.txt"), "a/b", "x",
                 "link.txt", "rel.txt", "out", "out/", "relout", "dangling", "img/up", "up", "inside.txt", "etc", "etc/passwd", "out/secret.txt", "./link.txt", "img/../link.txt"]
        mon.counters.inc("roots_with_symlinks", sum(1 for f in ("link.txt", "rel.txt", "out", "relout", "dangling", "etc") if os.path.islink(os.path.join(base, "site", f))))
        for root in rroots:
            for name in names + sibling_names(root)[:40]:
                mon.check(root, name, "root-exists-on-disk")
                mon.counters.inc("names_against_existing_roots")
                mon.distinct.add(h64("real", os.path.relpath(root, base), name.replace(base, "<base>")))
        # the process changes its working directory after the library was imported (a daemon that chdir()s): a relative root means
        # "relative to where we are NOW", as os.path.abspath says
        cwd0 = os.getcwd()
        try:
            os.chdir(os.path.join(base, "site"))
            for root in ("static", ".", "img", "../site2", ""):
                for name in ("a.txt", "img/b", "../secret.txt", "/etc/passwd", "x/../y", "", "..", os.path.join(base, "secret.txt")):
                    mon.check(root, name, "after-chdir")
                    mon.counters.inc("names_after_chdir")
        finally:
            os.chdir(cwd0)
    finally:
        shutil.rmtree(base, ignore_errors=True)
    for root in ROOTS:
        for name in sibling_names(root):
            mon.check(root, name, "sibling-prefix")
            mon.counters.inc("sibling_prefix_names")
            mon.distinct.add(h64(root, name))
    pieces = ["..", ".", "/", "\\", "//", "a", "etc", "passwd", "%2e%2e", "%2f", "\x00", " ", "~", "C:", "…", "\u2215", "\uff0f",
              "\u2024\u2024", "é", "\u202e", "..\\", "../", "/..", "....//", "\t", "\n", "*", "?", ":", "|"]
    for i in range(cfg["n"]):
        root = r.choice(ROOTS)
        mode = r.random()
        if mode < 0.5:
            name = "".join(r.choice(pieces) for _ in range(r.randint(0, 8)))
        elif mode < 0.8:
            name = "".join(chr(r.choice([r.randrange(32, 127), r.randrange(0x80, 0x3000), 0x2e, 0x2f, 0x5c]))
                           for _ in range(r.randint(0, 24)))
        else:
            # valid relative names: positive control (must be returned, beneath the root)
            name = "/".join(r.choice(["a", "img", "b.txt", "x y", "é", "...", "..a"]) for _ in range(r.randint(1, 4)))
            p = mon.check(root, name, "random-valid")
            mon.counters.inc("valid_names")
            if p is not None:
                mon.counters.inc("valid_names_returned")
            else:
                mon._viol("valid-name-refused", root, name, "random-valid", "refused a plain relative name")
            mon.distinct.add(h64(root, name))
            continue
        mon.check(root, name, "random")
        mon.distinct.add(h64(root, name))
        if len(mon.samples) < 2 and i > 10:
            mon.samples.append({"root": root, "name": name})


def run_router(cfg, mon):
    """names as produced by the real Router's :path* / :path+ capture from request URLs"""
    from mpgameserver.http_server import Router, Route, parse_url
    r = rng("C17", cfg["seed"], "router")
    router = Router()
    router.registerRoutes([Route("static", "GET", "/static/:path*", lambda req: None),
                           Route("files", "GET", "/files/:path+", lambda req: None),
                           Route("root", "GET", "/:path*", lambda req: None)])
    segs = ["..", ".", "", "a", "etc", "passwd", "%2e%2e", "%2F", "..%2f", "b.txt", "\\", "..\\", "%5c", "C:", "~", "%00"]
    for i in range(cfg["n"]):
        prefix = r.choice(["/static", "/files", "", "/static/", "//", "/static//", "/files//"])
        k = r.randint(0, 5)
        uri = prefix + "/" + "/".join(r.choice(segs) for _ in range(k))
        if r.random() < 0.3:
            uri += "?x=1"
        try:
            path, query, frag = parse_url(uri.encode("utf-8"))
            path = path.decode("utf-8")
        except Exception:
            continue
        res = router.getRoute("GET", path)
        if not res:
            mon.counters.inc("router_no_match")
            continue
        endpt, matches = res
        name = matches.get("path")
        mon.counters.inc("router_names")
        if name is None:
            name = ""
        root = r.choice(ROOTS[:3])
        mon.check(root, name, "router:%s" % uri)
        mon.distinct.add(h64(root, name))
        if name.startswith("/"):
            mon.counters.inc("router_names_with_leading_slash")
        if len(mon.samples) < 3 and name.startswith("/"):
            mon.samples.append({"uri": uri, "captured": name, "root": root})


EMBED_HEADS = ["/var/uploads", "/x", "/tmp/a b", "/home/user/mirror", "/é", "/srv", "/C:", "/~", "/...", "/%2e%2e"]
EMBED_TAILS = ["", "/", "/shell.py", "/a/b.txt", "/index.html", "//x", "x", "x/f", "/ ", "/%2e%2e/f"]


def root_embedding_names(root, extra_heads=()):
    """names built FROM the root (as resolved NOW): <head> + R + <tail>, where the head is another tree (fixed ones, ones derived
    from the root's own parent / base name / a sibling, and - as positive controls - ones beneath the root and relative ones), the
    core is the root once, twice in a row, or twice with something in between, and every result is written with each kind of
    separator and absolute prefix a client can send.  Yields (name, head_is_outside)"""
    R = os.path.abspath(root.replace("\\", "/"))
    Rs = R.rstrip("/")                       # "" for the root "/"
    base = os.path.basename(R) or "x"
    parent = os.path.dirname(R).rstrip("/")
    outside = list(EMBED_HEADS) + list(extra_heads) + ["/" + base, parent + "/other", Rs + "2", Rs + "-old", Rs.upper() + "_", parent + "/" + base[:-1] + "_"]
    inside = [Rs + "/sub", Rs + "/a/b", "", "var/uploads", "x", "C:"]   # beneath the root (absolute or relative): must stay inside
    seen = set()
    for heads, is_out in ((outside, True), (inside, False)):
        for head in heads:
            for core in (Rs, Rs + Rs, Rs + "/x" + Rs, Rs + "/" + base + Rs):
                for tail in EMBED_TAILS:
                    plain = head + core + tail
                    if not plain:
                        continue
                    forms = [plain, plain.replace("/", "\\"), join(plain.split("/"), "mixed")]
                    if plain.startswith("/"):
                        forms += ["/" + plain, "//" + plain, "\\" + plain[1:], "\\\\" + plain[1:].replace("/", "\\"), plain + "/"]
                    for name in forms:
                        if name not in seen:
                            seen.add(name)
                            yield name, is_out


def run_embed(cfg, mon):
    """absolute names that embed the root's own path below another tree - directly, for roots on disk (with the mirror tree really
    there), for relative roots after a chdir, and as captured by the real Router from URLs"""
    import shutil
    from mpgameserver.http_server import Router, Route, parse_url
    r = rng("C17", cfg["seed"], "embed", cfg.get("shard", 0))
    alphabet = ["a", "var", "uploads", "tmp", "x y", "é", "...", "..a", "C:", "~", "www", "srv", "static", "%2e%2e", "0"]
    extra = ["/" + "/".join(r.choice(alphabet) for _ in range(r.randint(1, 4))) for _ in range(cfg["n"])]
    router = Router()
    router.registerRoutes([Route("static", "GET", "/static/:path*", lambda req: None),
                           Route("files", "GET", "/files/:path+", lambda req: None),
                           Route("root", "GET", "/:path*", lambda req: None)])

    def direct(root, origin):
        for name, is_out in root_embedding_names(root, extra):
            p = mon.check(root, name, origin)
            mon.counters.inc("root_embedding_names")
            mon.counters.inc("root_embedding_names_refused" if p is None else "root_embedding_names_returned")
            if not is_out:
                mon.counters.inc("root_embedding_controls_beneath_root")
                if p is not None:
                    mon.counters.inc("root_embedding_controls_returned")
            mon.distinct.add(h64("embed", root, name))
            if len(mon.samples) < 2 and is_out and name.startswith("/") and name.count("/") > 4:
                mon.samples.append({"root": root, "name": name})

    def via_router(root, origin):
        for i, (name, is_out) in enumerate(root_embedding_names(root, extra[:3])):
            for prefix in {"/static/", ("/static/", "/files/", "/")[i % 3]}:
                uri = prefix + name
                try:
                    path, query, frag = parse_url(uri.encode("utf-8"))
                    path = path.decode("utf-8")
                except Exception:
                    continue
                res = router.getRoute("GET", path)
                if not res:
                    mon.counters.inc("router_no_match")
                    continue
                captured = res[1].get("path") or ""
                mon.counters.inc("router_root_embedding_names")
                if captured.replace("\\", "/").startswith("/"):
                    mon.counters.inc("router_root_embedding_names_absolute")
                mon.check(root, captured, "%s:%s" % (origin, uri))

    for root in ROOTS[cfg.get("shard", 0)::cfg.get("nshards", 1)]:
        direct(root, "root-embedded-in-name")
        via_router(root, "router-root-embedded")
    if cfg.get("shard", 0) % 4:
        return

    base, rroots = real_roots()
    cwd0 = os.getcwd()
    try:
        # the other tree really exists: <base>/uploads/<base>/site/shell.py, as an upload area that mirrors absolute paths would have it
        mirror = os.path.join(base, "uploads") + os.path.join(base, "site")
        os.makedirs(os.path.join(mirror, "img"))
        for f in ("shell.py", "index.html", "img/shell.py"):
            with open(os.path.join(mirror, f), "w") as fh:
                fh.write("uploaded")
        heads_on_disk = [os.path.join(base, "uploads"), os.path.join(base, "site2"), base]
        for root in rroots:
            key = os.path.relpath(root, base) + root[len(root.rstrip("/")):]
            for name, is_out in root_embedding_names(root, heads_on_disk):
                mon.check(root, name, "root-exists-on-disk-embedded")
                mon.counters.inc("root_embedding_names_existing_roots")
                mon.distinct.add(h64("embed-real", key, name.replace(base, "<base>").replace(base.upper(), "<BASE>")))
            via_router(root, "router-root-on-disk-embedded")
        os.chdir(os.path.join(base, "site"))
        for root in ("static", ".", "img", "../site2", ""):
            for name, is_out in root_embedding_names(root, heads_on_disk):
                mon.check(root, name, "after-chdir-embedded")
                mon.counters.inc("root_embedding_names_after_chdir")
    finally:
        os.chdir(cwd0)
        shutil.rmtree(base, ignore_errors=True)


def run_shard(cfg):
    mon = Monitor()
    if cfg.get("only_case"):
        c = cfg["only_case"]
        mon.check(c["root"], c["name"], "replay")
        return mon.result()
    {"enum": run_enum, "random": run_random, "router": run_router, "embed": run_embed}[cfg["kind"]](cfg, mon)
    res = mon.result()
    for v in res["violations"]:
        v["case_key"] = v["case"]
    return res


def finish(tier, seed, results):
    m = merge(results)
    inconclusive = []
    need(m["counters"], ["calls", "refused", "returned_inside", "enum_names", "router_names", "valid_names_returned", "sibling_prefix_names",
                         "names_against_existing_roots", "names_after_chdir",
                         "root_embedding_names", "root_embedding_names_refused", "root_embedding_controls_returned",
                         "router_root_embedding_names_absolute", "root_embedding_names_existing_roots",
                         "root_embedding_names_after_chdir"], inconclusive)
    cov = {
        "evaluations": m["evaluations"],
        "distinct_nontrivial": m["distinct_nontrivial"],
        "rule": "enumeration: every sequence of 0..%d segments over %r x separators %r x prefixes %r, for each of %d roots "
                "(distinct by construction, duplicates of short names removed); plus random strings from an adversarial piece "
                "list and random unicode; plus names captured by the real Router (:path*, :path+) from seeded URLs; plus, for every root "
                "(the fixed ones, roots on disk, relative roots after chdir), absolute names that embed the root's own path beneath "
                "another tree (head + root + tail, root twice, all separator forms), directly and through the Router. "
                "non-trivial = every generated name (each is a distinct (root, name) pair)" % (
                    MAXSEG[tier], SEGS, SEPS, PREFIXES, len(ROOTS)),
        "exhaustive": True,
        "exhaustive_scope": "the enumerated alphabet up to %d segments; the random and router parts are samples" % MAXSEG[tier],
        "samples": m["samples"],
        "counters": m["counters"],
    }
    return {"coverage": cov, "inconclusive": inconclusive,
            "assumptions": ["POSIX path semantics (os.path of this platform); the Windows drive-letter behaviour of "
                            "os.path.join cannot be observed on Linux",
                            "root is trusted input, as documented"]}
