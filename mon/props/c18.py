"""C18 - WebSocket frames round-trip per RFC 6455; TCP segmentation is harmless.

(a) Frame codec: for opcode x mask flag x masking key x payload length the bytes the
    library writes (writeFrameFactory into a recording socket) must equal the
    monitor's own RFC 6455 encoder, and readFrameFactory on those bytes must give
    back the same opcode, length and payload.
(b) Segmentation: a sequence of client frames produced by the *reference* encoder
    is cut into read chunks and fed through the real HTTPFactory channel (after a
    real HTTP upgrade request on a StringTransport, no reactor) and, as a second
    boundary, straight into WebSocketTemporaryHandler.__call__.  The endpoint must
    receive exactly the sent (opcode, payload) sequence, once each, in order, and no
    call may raise.
(c) A frame is a mutable record: the SAME frame object is written, some of its fields
    are changed (opcode, mask flag + key, FIN, payload + payload_length across the
    length-code boundaries) and it is written again.  Every write must be the RFC 6455
    encoding of the frame as it is at that moment and must parse back to it.
(d) An endpoint may fail in ANY of its notifications, the non-standard Open event
    included: once the 101 response is on the wire the client sends frames, and each
    of them has to reach the endpoint exactly once, in order.
"""
import contextlib
import io
import itertools
import logging
import struct

from mon.core.merge import merge, need
from mon.core.util import Counter, h64, rng, short

ID = "C18"
LEVEL = "exploration"
SHARD_TIMEOUT = {"quick": 300, "thorough": 3000}

OPS = {"Text": 0x1, "Binary": 0x2, "Close": 0x8, "Ping": 0x9, "Pong": 0xA}
BOUNDARIES = [0, 125, 126, 127, 128, 65535, 65536, 70000]


# ------------------------------------------------------------------ reference RFC 6455

def ref_encode(opcode, payload, mask_key=None, fin=1):
    n = len(payload)
    b0 = (fin << 7) | opcode
    m = 0x80 if mask_key is not None else 0
    if n <= 125:
        hdr = bytes([b0, m | n])
    elif n <= 0xFFFF:
        hdr = bytes([b0, m | 126]) + struct.pack("!H", n)
    else:
        hdr = bytes([b0, m | 127]) + struct.pack("!Q", n)
    if mask_key is None:
        return hdr + payload
    k = mask_key
    body = bytes(c ^ k[i & 3] for i, c in enumerate(payload)) if n < 4096 else _mask_fast(payload, k)
    return hdr + k + body


def _mask_fast(payload, k):
    n = len(payload)
    key = (k * (n // 4 + 1))[:n]
    return (int.from_bytes(payload, "big") ^ int.from_bytes(key, "big")).to_bytes(n, "big")


class RecSock(object):
    """recording socket for writeFrameFactory / replay socket for readFrameFactory"""
    def __init__(self, data=b""):
        self.out = []
        self.buf = data

    def sendall(self, data):
        self.out.append(bytes(data))

    def recv(self, n):
        d, self.buf = self.buf[:n], self.buf[n:]
        return d


def plan(tier, seed):
    shards = []
    if tier == "quick":
        lengths = sorted({b + d for b in BOUNDARIES for d in (-3, -2, -1, 0, 1, 2, 3) if b + d >= 0})
        shards.append({"kind": "codec", "tier": tier, "seed": seed, "lengths": lengths, "random": 300, "subprocess": True})
        for i in range(6):
            shards.append({"kind": "seg", "tier": tier, "seed": seed, "shard": i, "n": 400, "exhaustive": i == 0, "subprocess": True})
    else:
        k = 14
        for i in range(k):
            shards.append({"kind": "codec", "tier": tier, "seed": seed, "range": [i, k, 70001], "random": 400, "subprocess": True})
        for i in range(16):
            shards.append({"kind": "seg", "tier": tier, "seed": seed, "shard": i, "n": 6000, "exhaustive": i < 4, "subprocess": True})
    return shards


def payload_of(r, n, kind):
    if kind == "zeros":
        return b"\x00" * n
    if kind == "ff":
        return b"\xff" * n
    if kind == "text":
        return (b"abcdefghijklmnopqrstuvwxyz0123456789" * (n // 36 + 1))[:n]
    return r.randbytes(n)


def classify_codec(n, masked, stage, detail):
    if stage == "write":
        if masked and detail == "payload":
            return "mask-flag-ignored-on-write"
        if n == 65535:
            return "length-65535-encoding"
        return "encode-differs-from-rfc6455"
    if n == 127:
        return "length-127-reread"
    return "decode-differs"


def run_codec(cfg, counters, violations, samples, distinct):
    from mpgameserver import http_server as H
    r = rng("C18", cfg["seed"], "codec", cfg.get("range", [0])[0])
    if "lengths" in cfg:
        lengths = list(cfg["lengths"])
        masked_lengths = set(lengths)
    else:
        i, k, top = cfg["range"]
        lengths = list(range(i, top, k))
        masked_lengths = {n for n in lengths if n <= 2000 or any(abs(n - b) <= 3 for b in BOUNDARIES)}
    extra = [r.choice([r.randrange(0, 300), r.randrange(300, 70001)]) for _ in range(cfg["random"])]
    masked_lengths |= set(extra)
    lengths += extra
    opnames = list(OPS)

    def viol(mech, msg, case):
        counters.inc("viol:" + mech)
        if sum(1 for v in violations if v["mechanism"] == mech) < 6:
            violations.append({"mechanism": mech, "msg": msg, "case": case, "case_key": case})

    for idx, n in enumerate(lengths):
        ops = opnames if (n <= 300 or idx % 7 == 0 or any(abs(n - b) <= 3 for b in BOUNDARIES)) else [opnames[idx % len(opnames)]]
        for opname in ops:
            for masked in ((False, True) if n in masked_lengths else (False,)):
                key = None
                if masked:
                    key = r.choice([b"\x00\x00\x00\x00", b"\xff\xff\xff\xff", r.randbytes(4), b"\x01\x02\x03\x04"])
                payload = payload_of(r, n, r.choice(["zeros", "ff", "text", "random"]))
                case = {"opcode": opname, "length": n, "masked": masked, "key": key.hex() if key else None}
                # build the frame through the library's API
                f = H.WebSocketFrame()
                f.flags.fin = 1
                f.flags.opcode = getattr(H.WebSocketOpCode, opname)
                f.payload = payload
                f.payload_length = len(payload)
                if masked:
                    f.flags.mask = 1
                    f.masking_key = key
                sock = RecSock()
                try:
                    H.writeFrameFactory(sock)(f)
                except Exception as e:
                    viol("write-raises", "writeFrame(%s) raised %r" % (case, e), case)
                    continue
                wire = b"".join(sock.out)
                want = ref_encode(OPS[opname], payload, key)
                counters.inc("frames_written")
                distinct.add(h64(opname, n, masked))
                if wire != want:
                    hl = len(want) - n
                    detail = "header" if wire[:hl] != want[:hl] else "payload"
                    viol(classify_codec(n, masked, "write", detail),
                         "frame %s: library wrote %s, RFC 6455 says %s (%s differs)" % (case, short(wire[:14]), short(want[:14]), detail), case)
                # the library's own reader on RFC-correct bytes (what a conforming peer sends)
                rs = RecSock(want)
                try:
                    g = H.readFrameFactory(rs)()
                    counters.inc("frames_read")
                    got = (g.flags.opcode.value, g.payload_length, bytes(g.payload), g.flags.fin, g.flags.mask)
                    exp = (OPS[opname], n, payload, 1, 1 if masked else 0)
                    if got != exp or rs.buf:
                        viol(classify_codec(n, masked, "read", ""),
                             "frame %s: reader returned opcode=%r length=%r payload=%s leftover=%d" % (
                                 case, got[0], got[1], short(got[2]), len(rs.buf)), case)
                except Exception as e:
                    viol(classify_codec(n, masked, "read", ""), "frame %s: readFrame raised %r" % (case, e), case)
                # round trip library -> library
                rs = RecSock(wire)
                try:
                    g = H.readFrameFactory(rs)()
                    got = (g.flags.opcode.value, g.payload_length, bytes(g.payload))
                    counters.inc("roundtrips")
                    if got != (OPS[opname], n, payload) or rs.buf:
                        viol("roundtrip-differs" if wire == want else classify_codec(n, masked, "write", "payload" if masked else "header"),
                             "frame %s does not parse back to itself: opcode=%r length=%r payload=%s leftover=%d" % (
                                 case, got[0], got[1], short(got[2]), len(rs.buf)), case)
                except Exception as e:
                    viol("roundtrip-raises" if wire == want else classify_codec(n, masked, "write", "header"),
                         "frame %s: reading the library's own bytes raised %r" % (case, e), case)
                # the reserved bits and FIN are part of the frame: every combination is written where RFC 6455 puts it (FIN 0x80, RSV1 0x40,
                # RSV2 0x20, RSV3 0x10) and read back into the same flags
                if n in (0, 5, 126, 65536) or idx % 9 == 0:
                    for bits in range(16):
                        fin_, r1, r2, r3 = (bits >> 3) & 1, (bits >> 2) & 1, (bits >> 1) & 1, bits & 1
                        try:
                            f3 = H.WebSocketFrame()
                            f3.flags.fin, f3.flags.rsv1, f3.flags.rsv2, f3.flags.rsv3 = fin_, r1, r2, r3
                            f3.flags.opcode = getattr(H.WebSocketOpCode, opname)
                            f3.payload = payload
                            f3.payload_length = len(payload)
                            if masked:
                                f3.flags.mask = 1
                                f3.masking_key = key
                            s3 = RecSock()
                            H.writeFrameFactory(s3)(f3)
                            w3 = b"".join(s3.out)
                            want0 = (fin_ << 7) | (r1 << 6) | (r2 << 5) | (r3 << 4) | OPS[opname]
                            g3 = H.readFrameFactory(RecSock(w3))()
                            counters.inc("flag_combinations_checked")
                            got_flags = (g3.flags.fin, g3.flags.rsv1, g3.flags.rsv2, g3.flags.rsv3)
                            if w3[0] != want0 or w3[1:] != want[1:] or got_flags != (fin_, r1, r2, r3):
                                viol("flag-bits-differ", "frame %s with FIN=%d RSV=%d%d%d: first byte 0x%02x (RFC: 0x%02x), read back as FIN/RSV %r" % (case, fin_, r1, r2, r3, w3[0], want0, got_flags), case)
                                break
                        except Exception as e:
                            viol("write-raises", "frame %s with FIN=%d RSV=%d%d%d raised %r" % (case, fin_, r1, r2, r3, e), case)
                            break
                # the parts of the encoding are functions of the frame, whatever order they are asked for in (a frame that was only
                # constructed, never written): data header first, then header
                if idx % 2 == 0 or n in (125, 126, 127, 65535, 65536):
                    try:
                        f2 = H.WebSocketFrame()
                        f2.flags.fin = 1
                        f2.flags.opcode = getattr(H.WebSocketOpCode, opname)
                        f2.payload = payload
                        f2.payload_length = len(payload)
                        if masked:
                            f2.flags.mask = 1
                            f2.masking_key = key
                        dh = f2.serializeDataHeader()
                        hh = f2.serializeHeader()
                        hl_ = len(want) - n
                        counters.inc("header_parts_checked")
                        if bytes(hh) + bytes(dh) != want[:hl_]:
                            viol("header-parts-differ", "frame %s: serializeDataHeader() then serializeHeader() give %s, RFC 6455 says %s" % (case, short(bytes(hh) + bytes(dh)), short(want[:hl_])), case)
                    except Exception as e:
                        viol("write-raises", "serializeDataHeader()/serializeHeader() of frame %s raised %r" % (case, e), case)
                # a frame is a value: writing it does not change it.  The frame a reader returned (its payload is whatever type the
                # reader uses, e.g. a bytearray) is written twice - a relay to two peers - and both copies are the RFC bytes
                if idx % 3 == 0 or n <= 130:
                    for variant in ("parsed", "bytearray"):
                        try:
                            if variant == "parsed":
                                g2 = H.readFrameFactory(RecSock(want))()
                            else:
                                g2 = H.WebSocketFrame()
                                g2.flags.fin = 1
                                g2.flags.opcode = getattr(H.WebSocketOpCode, opname)
                                g2.payload = bytearray(payload)
                                g2.payload_length = len(payload)
                                if masked:
                                    g2.flags.mask = 1
                                    g2.masking_key = key
                            outs = []
                            for _w in range(2):
                                s2 = RecSock()
                                H.writeFrameFactory(s2)(g2)
                                outs.append(b"".join(s2.out))
                            counters.inc("frames_written_twice")
                            if outs[0] != want or outs[1] != want or bytes(g2.payload) != payload:
                                viol("frame-changed-by-write", "frame %s (%s payload): first write %s, second write %s, payload afterwards %s" % (
                                    case, variant, "RFC" if outs[0] == want else "differs", "RFC" if outs[1] == want else "differs",
                                    "unchanged" if bytes(g2.payload) == payload else "changed"), case)
                        except Exception as e:
                            viol("write-raises", "writing a %s frame %s twice raised %r" % (variant, case, e), case)
                if len(samples) < 3 and n in (126, 65535) and masked:
                    samples.append({"case": case, "wire_prefix": wire[:14].hex(), "rfc_prefix": want[:14].hex()})
    run_modified_frames(H, r, cfg, counters, viol, distinct)
    # the convenience constructors
    for n in (0, 5, 125, 126, 200):
        for ctor, op in ((H.WebSocketFrame.Binary, 2), (H.WebSocketFrame.Ping, 9), (H.WebSocketFrame.Pong, 10)):
            p = payload_of(r, n, "random")
            f = ctor(p)
            sock = RecSock()
            H.writeFrameFactory(sock)(f)
            counters.inc("ctor_frames")
            if b"".join(sock.out) != ref_encode(op, p):
                viol("ctor-encode", "constructor frame op %d len %d differs from RFC" % (op, n), {"op": op, "length": n})
        t = "é" * (n // 2)
        f = H.WebSocketFrame.Text(t)
        sock = RecSock()
        H.writeFrameFactory(sock)(f)
        if b"".join(sock.out) != ref_encode(1, t.encode("utf-8")):
            viol("ctor-encode", "Text frame len %d differs from RFC" % n, {"op": 1, "length": n})


MOD_LENGTHS = [0, 1, 5, 124, 125, 126, 127, 128, 300, 1000]
MOD_FIELDS = ["opcode", "mask", "payload", "fin"]


def _apply_state(H, f, st):
    f.flags.fin = st["fin"]
    f.flags.opcode = getattr(H.WebSocketOpCode, st["opcode"])
    f.payload = st["payload"]
    f.payload_length = len(st["payload"])
    f.flags.mask = 1 if st["key"] is not None else 0
    if st["key"] is not None:
        f.masking_key = st["key"]


def run_modified_frames(H, r, cfg, counters, viol, distinct):
    """(c) one frame OBJECT, written, modified, written again (2-4 writes).  The oracle is the one of (a): the bytes of every write
    are the reference encoding of the frame's fields at the time of that write, and the library's reader gives those fields
    back.  A fresh frame object with the same fields is the control that tells 'the codec is wrong for this frame' from 'the
    codec is wrong for a frame that was written before'."""
    opnames = list(OPS)
    for rep in range(160 if cfg["tier"] == "quick" else 320):
        def new_len():
            x = r.random()
            if x < 0.04:
                return r.choice([65535, 65536, 65537])
            if x < 0.7:
                return r.choice(MOD_LENGTHS)
            return r.randrange(0, 300)
        st = {"fin": 1, "opcode": r.choice(opnames), "key": r.choice([None, r.randbytes(4)]),
              "payload": payload_of(r, new_len(), r.choice(["text", "random", "ff"]))}
        f = H.WebSocketFrame()
        same_writer = r.random() < 0.5
        sock = RecSock()
        writer = H.writeFrameFactory(sock)
        history = []
        for step in range(r.randint(2, 4)):
            if step:
                changed = r.sample(MOD_FIELDS, r.choice([1, 1, 2, 3, 4]))
                st = dict(st)
                if "opcode" in changed:
                    st["opcode"] = r.choice([o for o in opnames if o != st["opcode"]])
                if "mask" in changed:
                    # unmasked -> masked, masked -> unmasked, or another key
                    st["key"] = r.choice([None, r.randbytes(4)]) if st["key"] is not None else r.randbytes(4)
                if "payload" in changed:
                    n0 = len(st["payload"])
                    n1 = r.choice([n0, n0 + 1, max(0, n0 - 1), new_len(), new_len()])
                    st["payload"] = payload_of(r, n1, "random")
                if "fin" in changed:
                    st["fin"] = 1 - st["fin"]
            else:
                changed = []
            _apply_state(H, f, st)
            case = {"write": step + 1, "changed": changed, "opcode": st["opcode"], "length": len(st["payload"]), "fin": st["fin"],
                    "masked": st["key"] is not None, "key": st["key"].hex() if st["key"] else None,
                    "earlier_writes": list(history)}
            if not same_writer:
                sock = RecSock()
                writer = H.writeFrameFactory(sock)
            del sock.out[:]
            try:
                writer(f)
            except Exception as e:
                viol("write-raises", "writing a frame for the %d. time (%s) raised %r" % (step + 1, case, e), case)
                break
            wire = b"".join(sock.out)
            want = ref_encode(OPS[st["opcode"]], st["payload"], st["key"], fin=st["fin"])
            counters.inc("frame_object_writes")
            if step:
                counters.inc("modified_frames_rewritten")
                for c_ in changed:
                    counters.inc("modified_field:" + c_)
                if history[-1]["length_code"] != _length_code(len(st["payload"])):
                    counters.inc("modified_frames_crossing_a_length_code")
            distinct.add(h64("mod", step, st["opcode"], len(st["payload"]), st["key"] is not None, tuple(changed)))
            ok = wire == want
            back = None
            try:
                rs = RecSock(wire)
                g = H.readFrameFactory(rs)()
                back = (g.flags.opcode.value, g.payload_length, bytes(g.payload), g.flags.fin, g.flags.mask, len(rs.buf))
            except Exception as e:
                back = repr(e)
            exp_back = (OPS[st["opcode"]], len(st["payload"]), st["payload"], st["fin"], 1 if st["key"] is not None else 0, 0)
            if not ok or back != exp_back:
                # control: a fresh object with the same fields
                f0 = H.WebSocketFrame()
                _apply_state(H, f0, st)
                s0 = RecSock()
                try:
                    H.writeFrameFactory(s0)(f0)
                    fresh_ok = b"".join(s0.out) == want
                except Exception:
                    fresh_ok = False
                hl = len(want) - len(st["payload"])
                if step and fresh_ok:
                    stale = bool(history) and wire[:len(history[-1]["header"]) // 2] == bytes.fromhex(history[-1]["header"])
                    mech = "modified-frame-rewritten-with-stale-header" if stale and wire[:hl] != want[:hl] else "modified-frame-encoding-differs"
                    viol(mech, "one frame object, write %d after changing %r: library wrote %s, RFC 6455 encoding of the frame as it is now is %s; "
                               "a fresh frame with the same fields is encoded correctly; read back: %s" % (
                                   step + 1, changed, short(wire[:14]), short(want[:14]),
                                   back if isinstance(back, str) else "opcode=%r length=%r fin=%r mask=%r leftover=%r" % (back[0], back[1], back[3], back[4], back[5])), case)
                else:
                    detail = "header" if wire[:hl] != want[:hl] else "payload"
                    viol(classify_codec(len(st["payload"]), st["key"] is not None, "write" if not ok else "read", detail),
                         "frame %s: library wrote %s, RFC 6455 says %s; read back %s" % (case, short(wire[:14]), short(want[:14]), short(repr(back))), case)
                break
            history.append({"opcode": st["opcode"], "length": len(st["payload"]), "masked": st["key"] is not None, "fin": st["fin"],
                            "length_code": _length_code(len(st["payload"])), "header": want[:len(want) - len(st["payload"])].hex()})


def _length_code(n):
    return n if n <= 125 else (126 if n <= 0xFFFF else 127)


# ------------------------------------------------------------------ segmentation

class NotUpgraded(Exception):
    """the server did not answer the upgrade request with 101: no client would send frames"""


class Endpoint(object):
    def __init__(self):
        self.events = []
        self.by_handler = {}
        self.fail_open = False

    def callback(self, handler, opcode, payload):
        ev = (opcode.value, payload if payload is None or isinstance(payload, str) else bytes(payload))
        self.events.append(ev)
        self.by_handler.setdefault(id(handler), []).append(ev)
        # an endpoint may fail in any of its notifications - the Open event included (the library logs that and carries on)
        if opcode.value == 0xFF and self.fail_open:
            raise RuntimeError("seeded failure in the endpoint callback (Open event)")
        # an endpoint that acts on what it hears: it answers, or closes its side while the client is still sending
        if isinstance(payload, str) and payload.startswith("!raise"):
            raise RuntimeError("seeded failure in the endpoint callback")
        if isinstance(payload, str) and payload.startswith("!send"):
            handler.send("echo:" + payload)
        elif isinstance(payload, str) and payload.startswith("!close"):
            handler.close()


def make_channel(router_holder, fail_open=False):
    from twisted.internet.testing import StringTransport
    from mpgameserver import http_server as H

    class T(StringTransport):
        def setTcpNoDelay(self, v):
            pass

    if "router" not in router_holder:
        ep = Endpoint()
        router = H.Router()
        router.registerRoutes([H.Route("ws", "GET", "/ws", ep.callback, websocket=True)])
        router_holder["router"] = router
        router_holder["ep"] = ep
        router_holder["factory"] = H.HTTPFactory(router=router)
    ep = router_holder["ep"]
    ep.events = []
    proto = router_holder["factory"].buildProtocol(None)
    tr = T()
    proto.makeConnection(tr)
    req = (b"GET /ws HTTP/1.1\r\nHost: x\r\nUpgrade: websocket\r\nConnection: Upgrade\r\n"
           b"Sec-WebSocket-Key: dGhlIHNhbXBsZSBub25jZQ==\r\nSec-WebSocket-Version: 13\r\n\r\n")
    ep.fail_open = fail_open
    if fail_open:
        logging.disable(logging.CRITICAL)   # (the library logs the failure of the Open notification with a traceback)
    try:
        with contextlib.redirect_stdout(io.StringIO()):
            proto.dataReceived(req)
    finally:
        ep.fail_open = False
        if fail_open:
            logging.disable(logging.NOTSET)
    return proto, tr, ep


def close_channel(proto):
    from twisted.python.failure import Failure
    from twisted.internet.error import ConnectionDone
    try:
        with contextlib.redirect_stdout(io.StringIO()):
            proto.connectionLost(Failure(ConnectionDone()))
    except Exception:
        pass


def run_concurrent(r, holder, counters, violations):
    """several websocket connections at once on one factory: the reads of the connections interleave, one holds
    a partial frame while another receives data; each endpoint call must carry that connection's frames only"""
    n = r.randint(2, 4)
    conns = []
    for k in range(n):
        proto, tr, ep = make_channel(holder)
        handler = proto.websocket_callback
        frames = gen_frames(r)
        frames = [f for f in frames if f[0] != "Close" and not (f[0] == "Text" and f[1].startswith(b"!raise"))]
        stream = b"".join(ref_encode(OPS[op], p, key) for op, p, key in frames)
        L_ = len(stream)
        cuts = sorted(r.sample(range(1, L_), min(L_ - 1, r.randint(2, 8)))) if L_ > 2 else []
        conns.append({"proto": proto, "handler": handler, "frames": frames, "chunks": cut(stream, cuts), "err": None})
    ep = holder["ep"]
    ep.by_handler = {}
    order = []
    for k, cn in enumerate(conns):
        order += [k] * len(cn["chunks"])
    r.shuffle(order)
    pos = [0] * n
    for k in order:
        cn = conns[k]
        if cn["err"] is None:
            try:
                with contextlib.redirect_stdout(io.StringIO()):
                    cn["proto"].dataReceived(cn["chunks"][pos[k]])
            except Exception as e:
                cn["err"] = e
        pos[k] += 1
    counters.inc("concurrent_connection_groups")
    for cn in conns:
        got = ep.by_handler.get(id(cn["handler"]), [])
        want = expected_events(cn["frames"])
        counters.inc("concurrent_connections")
        counters.inc("frames_sent", len(cn["frames"]))
        if cn["err"] is not None or got != want:
            counters.inc("viol:connections-interfere")
            if sum(1 for v in violations if v["mechanism"] == "connections-interfere") < 5:
                violations.append({"mechanism": "connections-interfere",
                                   "msg": "%d simultaneous websocket connections with interleaved reads: one connection sent %d frames, its endpoint got %d events; error=%r" % (
                                       n, len(cn["frames"]), len(got), cn["err"]), "case": {"connections": n}})
        else:
            counters.inc("frames_delivered_in_order", len(cn["frames"]))
        close_channel(cn["proto"])


def make_direct():
    from mpgameserver import http_server as H

    class Req(object):
        chunked = 0

        def __init__(self):
            self.written = []

        def write(self, d):
            self.written.append(d)

    ep = Endpoint()
    buf = H.WebSocketTemporaryRingBuffer(Req())
    handler = H.WebSocketTemporaryHandler(("1.2.3.4", 5), {}, {}, buf, ep)
    return handler, ep


def gen_frames(r, small=False):
    k = r.randint(1, 3) if small else r.randint(1, 6)
    frames = []
    for i in range(k):
        op = r.choice(["Text", "Binary", "Ping", "Pong", "Binary", "Text"])
        if small:
            n = r.choice([0, 1, 2])
        else:
            n = r.choice([0, 1, 2, 5, 124, 125, 126, 127, 128, 200, 1000, r.randrange(0, 300)] +
                         ([65535, 65536, 66000] if r.random() < 0.08 else []))
        if op == "Text":
            p = "".join(r.choice("abcé中 z") for _ in range(n))
            x = r.random()
            if x < 0.12:
                p = "\ufeff" + p            # a text that starts with U+FEFF (the character is part of the message)
            elif x < 0.2:
                p = "!send" + p             # the endpoint answers from inside its callback
            elif x < 0.27 and not small:
                p = "!close" + p            # the endpoint closes its side; the client's later frames still arrive
            elif x < 0.34 and not small:
                p = "!raise" + p            # the endpoint callback fails on this frame; the frames behind it are still delivered
            p = p.encode("utf-8")
        else:
            p = r.randbytes(n)
        key = r.choice([r.randbytes(4), b"\x00\x00\x00\x00", b"\xff\x00\xff\x00"])
        frames.append((op, p, key))
    if r.random() < 0.3:
        frames.append(("Close", struct.pack("!H", 1000) + b"bye", r.randbytes(4)))
    return frames


def expected_events(frames):
    out = []
    for op, p, key in frames:
        out.append((OPS[op], p.decode("utf-8") if op == "Text" else p))
    return out


def cut(stream, cuts):
    chunks, prev = [], 0
    for c in sorted(cuts):
        chunks.append(stream[prev:c])
        prev = c
    chunks.append(stream[prev:])
    return [c for c in chunks if c]


def frame_offsets(frames):
    """byte offsets of interesting positions: inside header, ext length, mask, payload, frame boundaries"""
    offs, pos = [], 0
    for op, p, key in frames:
        enc = ref_encode(OPS[op], p, key)
        hl = len(enc) - len(p)
        offs += [pos + 1, pos + 2, pos + 3, pos + hl - 4, pos + hl - 2, pos + hl, pos + hl + 1, pos + len(enc) - 1, pos + len(enc)]
        pos += len(enc)
    return sorted({o for o in offs if 0 < o < pos})


def feed(boundary, holder, frames, chunks, fail_open=False):
    """returns (events or None, error)"""
    if boundary == "channel":
        proto, tr, ep = make_channel(holder, fail_open)
        if fail_open and not tr.value().startswith(b"HTTP/1.1 101"):
            close_channel(proto)
            return [], NotUpgraded()
        base = 1   # the Open event
        err = None
        raising = any(op == "Text" and p.startswith(b"!raise") for op, p, k in frames)
        with contextlib.redirect_stdout(io.StringIO()):
            for c in chunks:
                try:
                    proto.dataReceived(c)
                except Exception as e:
                    if not (raising and "seeded failure" in str(e)):
                        err = err or e
            # (frames that sat behind a failing one in the same read are delivered with the next read: one more frame per failure)
            for _f in range(sum(1 for op, p, k in frames if op == "Text" and p.startswith(b"!raise")) if raising else 0):
                try:
                    proto.dataReceived(ref_encode(OPS["Ping"], b"flush", b"\x01\x02\x03\x04"))
                except Exception as e:
                    if "seeded failure" not in str(e):
                        err = err or e
            ep.events[:] = [e_ for e_ in ep.events if e_ != (OPS["Ping"], b"flush")]
        ev = list(ep.events)
        close_channel(proto)
        if not ev or ev[0] != (0xFF, None):
            return ev, err or Exception("no Open event")
        return ev[base:], err
    handler, ep = make_direct()
    err = None
    raising = any(op == "Text" and p.startswith(b"!raise") for op, p, k in frames)
    n_raise = sum(1 for op, p, k in frames if op == "Text" and p.startswith(b"!raise"))
    for c in chunks + [ref_encode(OPS["Ping"], b"flush", b"\x01\x02\x03\x04")] * n_raise:
        try:
            handler(c)
        except Exception as e:
            if not (raising and "seeded failure" in str(e)):
                err = err or e
    ep.events[:] = [e_ for e_ in ep.events if e_ != (OPS["Ping"], b"flush")]
    return list(ep.events), err


def classify_seg(frames, chunks, events, want, err):
    stream_len = sum(len(c) for c in chunks)
    one_read = len(chunks) == 1
    # a chunk boundary strictly inside a frame?
    pos, bounds = 0, set()
    for op, p, key in frames:
        pos += len(ref_encode(OPS[op], p, key))
        bounds.add(pos)
    cpos, split_inside = 0, False
    for c in chunks[:-1]:
        cpos += len(c)
        if cpos not in bounds:
            split_inside = True
    multi = any(sum(1 for b in bounds if s < b <= s + len(c)) > 1
                for s, c in zip(itertools.accumulate([0] + [len(c) for c in chunks[:-1]]), chunks))
    if any(len(p) == 127 for _, p, _ in frames) and not split_inside and not multi:
        return "length-127-reread"
    if split_inside:
        return "frame-split-across-reads"
    if multi:
        return "several-frames-in-one-read"
    return "segmentation-other"


def run_seg(cfg, counters, violations, samples, distinct):
    r = rng("C18", cfg["seed"], "seg", cfg["shard"])
    holder = {}

    def judge(boundary, frames, chunks, tag):
        want = expected_events(frames)
        events, err = feed(boundary, holder, frames, chunks)
        counters.inc("streams_fed")
        counters.inc("streams_fed_" + boundary)
        counters.inc("frames_sent", len(frames))
        if err is None and events == want:
            counters.inc("frames_delivered_in_order", len(frames))
            return
        mech = classify_seg(frames, chunks, events, want, err)
        counters.inc("viol:" + mech)
        if sum(1 for v in violations if v["mechanism"] == mech) < 5:
            case = {"boundary": boundary, "frames": [(op, p.hex() if len(p) < 40 else "%d bytes" % len(p), k.hex()) for op, p, k in frames],
                    "chunk_lengths": [len(c) for c in chunks][:60]}
            violations.append({"mechanism": mech, "case": case,
                               "msg": "%s [%s]: sent %d frames in %d reads %r; endpoint got %d events%s; error=%r" % (
                                   tag, boundary, len(frames), len(chunks), [len(c) for c in chunks][:12], len(events),
                                   "" if len(events) > 6 else " " + repr([(o, short(p)) for o, p in events]), err)})

    # positive control: one frame per read, nothing split
    for _ in range(40):
        frames = [f for f in gen_frames(r) if len(f[1]) != 127 and not f[1].startswith(b"!raise")] or [("Binary", b"x", b"abcd")]
        chunks = [ref_encode(OPS[op], p, k) for op, p, k in frames]
        want = expected_events(frames)
        for boundary in ("channel", "direct"):
            events, err = feed(boundary, holder, frames, chunks)
            counters.inc("control_streams")
            if err is None and events == want:
                counters.inc("control_ok")

    if cfg.get("exhaustive"):
        # every cut set of short streams
        for rep in range(6 if cfg["tier"] == "quick" else 30):
            frames = gen_frames(r, small=True)[:2]
            stream = b"".join(ref_encode(OPS[op], p, k) for op, p, k in frames)
            L = len(stream)
            if L > 13:
                frames = frames[:1]
                stream = b"".join(ref_encode(OPS[op], p, k) for op, p, k in frames)
                L = len(stream)
            counters.inc("exhaustive_streams")
            for mask in range(1 << (L - 1)):
                cuts = [i + 1 for i in range(L - 1) if mask >> i & 1]
                chunks = cut(stream, cuts)
                judge("direct" if mask % 2 else "channel", frames, chunks, "all-cut-sets")
                counters.inc("exhaustive_cut_sets")
            distinct.add(h64("exh", stream))
    # ---- one long-lived connection: well over a MiB goes through it, the reads ending exactly on frame boundaries now and then,
    #      then small frames; whatever the buffer does with consumed bytes, every frame is delivered exactly once
    if cfg["shard"] % 3 == 0:
        for boundary in ("channel", "direct"):
            big = []
            for k in range(20):
                big.append(("Binary", r.randbytes(65536 - 14 + (k % 3)), r.randbytes(4)))
            tail = [("Text", ("t%d" % k).encode(), r.randbytes(4)) for k in range(5)]
            frames = big + tail
            chunks = [ref_encode(OPS[op], p, k) for op, p, k in frames]
            if boundary == "direct":
                # (some reads split inside frames, the one that crosses the MiB ends on a boundary)
                chunks = chunks[:8] + cut(b"".join(chunks[8:14]), [70000, 140001]) + chunks[14:]
            judge(boundary, frames, chunks, "long-lived-connection")
            counters.inc("long_lived_connections")
    # ---- thousands of complete tiny frames in ONE read (a client that batches its updates; 3000 frames are some 27 KiB)
    if cfg["shard"] % 3 == 1:
        for boundary in ("channel", "direct"):
            frames = [(r.choice(["Text", "Binary"]), ("%d" % k).encode(), r.randbytes(4)) for k in range(3000)]
            judge(boundary, frames, [b"".join(ref_encode(OPS[op], p, k) for op, p, k in frames)], "thousands-of-frames-in-one-read")
            counters.inc("reads_with_thousands_of_frames")
    # ---- a client frame WITHOUT the mask bit in the middle of a stream (a broken or hostile client): whether the library refuses
    #      it or hands its payload over as it is, the stream stays in step - the frames behind it are delivered once, in order, and
    #      nothing inside the unmasked payload is taken for a frame
    for rep in range(4 if cfg["tier"] == "quick" else 40):
        good = [f for f in gen_frames(r) if not f[1].startswith((b"!raise", b"!close")) and f[0] != "Close"] or [("Binary", b"x", b"abcd")]
        bad_payload = r.choice([r.randbytes(200), ref_encode(OPS["Text"], b"SMUGGLED", r.randbytes(4)), r.randbytes(126), r.randbytes(70000), b"",
                                ref_encode(OPS["Binary"], b"SMUGGLED" * 20, b"\x00\x00\x00\x00") * 3])
        pos = r.randint(0, len(good))
        pieces = [ref_encode(OPS[op], p_, k_) for op, p_, k_ in good]
        pieces.insert(pos, ref_encode(OPS["Binary"], bad_payload, None))
        stream = b"".join(pieces)
        chunks = [stream] if rep % 2 else cut(stream, sorted(r.sample(range(1, len(stream)), min(len(stream) - 1, 6))))
        boundary = r.choice(["channel", "direct"])
        flush = ref_encode(OPS["Ping"], b"flush", b"\x01\x02\x03\x04")
        errs = []
        if boundary == "channel":
            proto, tr, ep = make_channel(holder)
            sink = proto.dataReceived
        else:
            sink, ep = make_direct()
            ep.events.append((0xFF, None))
        with contextlib.redirect_stdout(io.StringIO()):
            for c_ in chunks + [flush, flush]:
                try:
                    sink(c_)
                except Exception as e:
                    errs.append(e)
        ev = [e_ for e_ in ep.events if e_ != (OPS["Ping"], b"flush")][1:]
        if boundary == "channel":
            close_channel(proto)
        want_refused = expected_events(good)
        want_passed = want_refused[:pos] + [(OPS["Binary"], bad_payload)] + want_refused[pos:]
        counters.inc("streams_with_an_unmasked_frame")
        if ev == want_refused:
            counters.inc("unmasked_frame_refused_stream_in_step")
        elif ev == want_passed:
            counters.inc("unmasked_frame_passed_stream_in_step")
        else:
            smuggled = any(isinstance(p_, (bytes, str)) and "SMUGGLED" in (p_ if isinstance(p_, str) else p_.decode("latin-1")) and (o_, p_) not in want_passed for o_, p_ in ev)
            mech = "frame-smuggled-inside-unmasked-payload" if smuggled else "stream-out-of-step-after-unmasked-frame"
            counters.inc("viol:" + mech)
            if sum(1 for v in violations if v["mechanism"] == mech) < 5:
                violations.append({"mechanism": mech, "case": {"boundary": boundary, "position": pos, "unmasked_payload_bytes": len(bad_payload), "chunk_lengths": [len(c_) for c_ in chunks]},
                                   "msg": "[%s] an unmasked %d-byte Binary frame at position %d of %d frames (%d reads): endpoint got %d events %r, expected the %d frames behind and before it; errors %r" % (
                                       boundary, len(bad_payload), pos, len(good) + 1, len(chunks), len(ev), [(o_, short(p_)) for o_, p_ in ev][:6], len(want_refused), errs[:2])})
    # ---- (d) the endpoint FAILS in its Open notification (a lookup in its own bookkeeping, say); the library logs that, the 101
    #      response is on the wire, the client knows nothing and sends its frames in later reads: each of them is delivered exactly
    #      once, in order.  The same stream with the same cuts on a connection whose Open notification succeeded is the control
    #      that separates this from a plain segmentation failure.
    for rep in range(max(8, cfg["n"] // 20)):
        frames = gen_frames(r)
        stream = b"".join(ref_encode(OPS[op], p, k) for op, p, k in frames)
        L = len(stream)
        mode = r.choice(["one-read", "frame-per-read", "random", "random"])
        if mode == "one-read" or L < 2:
            chunks = [stream]
        elif mode == "frame-per-read":
            chunks = [ref_encode(OPS[op], p, k) for op, p, k in frames]
        else:
            chunks = cut(stream, sorted(r.sample(range(1, L), min(L - 1, r.randint(1, 12)))))
        want = expected_events(frames)
        events, err = feed("channel", holder, frames, chunks, fail_open=True)
        if isinstance(err, NotUpgraded):
            counters.inc("upgrade_refused_when_open_callback_raised")
            continue
        counters.inc("connections_whose_open_callback_raised")
        counters.inc("streams_fed")
        counters.inc("streams_fed_channel")
        counters.inc("frames_sent", len(frames))
        distinct.add(h64("open-raised", stream, tuple(len(c) for c in chunks)))
        if err is None and events == want:
            counters.inc("frames_delivered_in_order", len(frames))
            counters.inc("frames_delivered_after_open_callback_raised", len(frames))
            continue
        c_events, c_err = feed("channel", holder, frames, chunks)
        if c_err is None and c_events == want:
            mech = "frames-lost-after-open-callback-raised" if len(events) < len(want) else "frames-misdelivered-after-open-callback-raised"
        else:
            mech = classify_seg(frames, chunks, events, want, err)
        counters.inc("viol:" + mech)
        if sum(1 for v in violations if v["mechanism"] == mech) < 5:
            violations.append({"mechanism": mech,
                               "case": {"boundary": "channel", "open_callback": "raises", "chunk_lengths": [len(c) for c in chunks][:60],
                                        "frames": [(op, p.hex() if len(p) < 40 else "%d bytes" % len(p), k.hex()) for op, p, k in frames]},
                               "msg": "the endpoint raised in its Open notification, the server answered 101; the client then sent %d frames in %d reads %r; "
                                      "endpoint got %d of them%s; error=%r (the same reads on a connection whose Open notification succeeded: %s)" % (
                                          len(frames), len(chunks), [len(c) for c in chunks][:12], len(events),
                                          "" if len(events) > 6 else " " + repr([(o, short(p)) for o, p in events]), err,
                                          "all delivered" if c_err is None and c_events == want else "also wrong")})
    for case in range(cfg["n"]):
        if case % 10 == 0:
            run_concurrent(r, holder, counters, violations)
        frames = gen_frames(r)
        stream = b"".join(ref_encode(OPS[op], p, k) for op, p, k in frames)
        L = len(stream)
        mode = r.choice(["one-read", "bytewise", "frame-aligned-pairs", "offsets", "random", "random"])
        if mode == "one-read":
            cuts = []
        elif mode == "bytewise":
            if L > 3000:
                mode, cuts = "random", sorted(r.sample(range(1, L), 20))
            else:
                cuts = list(range(1, L))
        elif mode == "frame-aligned-pairs":
            # two (or more) whole frames per read
            pos, ends = 0, []
            for op, p, k in frames:
                pos += len(ref_encode(OPS[op], p, k))
                ends.append(pos)
            cuts = [e for i, e in enumerate(ends[:-1]) if i % 2 == 1]
        elif mode == "offsets":
            offs = frame_offsets(frames)
            cuts = [o for o in offs if r.random() < 0.5]
        else:
            cuts = sorted(r.sample(range(1, L), min(L - 1, r.randint(1, 12)))) if L > 1 else []
        chunks = cut(stream, cuts)
        judge(r.choice(["channel", "direct"]), frames, chunks, mode)
        counters.inc("cutmode:" + mode)
        distinct.add(h64(stream, tuple(cuts)))
        if len(samples) < 2 and mode == "offsets":
            samples.append({"frames": [(op, len(p)) for op, p, k in frames], "stream_bytes": L, "cuts": cuts[:30], "mode": mode})


def run_shard(cfg):
    counters = Counter()
    violations, samples, distinct = [], [], set()
    if cfg["kind"] == "codec":
        run_codec(cfg, counters, violations, samples, distinct)
        ev = counters.get("frames_written", 0)
    else:
        run_seg(cfg, counters, violations, samples, distinct)
        ev = counters.get("streams_fed", 0)
    return {"evaluations": ev, "distinct": sorted(distinct), "counters": dict(counters),
            "violations": violations, "samples": samples}


def finish(tier, seed, results):
    m = merge(results)
    inconclusive = []
    need(m["counters"], ["frames_written", "frames_read", "roundtrips", "streams_fed_channel", "streams_fed_direct",
                         "control_ok", "exhaustive_cut_sets", "frames_delivered_in_order", "concurrent_connections", "long_lived_connections",
                         "header_parts_checked", "frames_written_twice", "flag_combinations_checked",
                         "modified_frames_rewritten", "modified_frames_crossing_a_length_code",
                         "connections_whose_open_callback_raised"], inconclusive)
    if m["counters"].get("control_ok", 0) != m["counters"].get("control_streams", -1):
        inconclusive.append("positive control failed: frame-aligned single-frame reads were not all delivered "
                            "(%s of %s) - the harness cannot attach" % (m["counters"].get("control_ok"), m["counters"].get("control_streams")))
    cov = {
        "evaluations": m["evaluations"],
        "distinct_nontrivial": m["distinct_nontrivial"],
        "rule": "codec: one evaluation = one frame (opcode x mask flag x key x length) written by the library, compared byte for byte "
                "with the monitor's RFC 6455 encoder and parsed back by the library (quick: every length within +-3 of %r plus 300 "
                "random; thorough: every length 0..70000, masked for <=2000, the boundaries and random); distinct = distinct "
                "(opcode, length, masked). segmentation: one evaluation = one stream of 1-7 reference-encoded masked client frames "
                "cut into reads (one read, byte-wise, whole-frame pairs, cuts at header/extended-length/mask/payload offsets, "
                "random) fed through the real HTTP channel after an upgrade, or straight into the handler; for streams of <=13 "
                "bytes ALL cut sets are enumerated; distinct = distinct (stream, cut set). Also: one frame OBJECT written, modified "
                "(opcode / mask flag + key / FIN / payload + length across the length codes) and written again, every write compared "
                "with the reference encoding of the frame as it is then; connections whose endpoint raised in its Open "
                "notification (101 sent), whose client frames must still all be delivered" % (BOUNDARIES,),
        "exhaustive": tier == "thorough",
        "exhaustive_scope": "payload lengths 0..70000 unmasked (thorough); all cut sets of the short streams",
        "samples": m["samples"],
        "counters": m["counters"],
    }
    return {"coverage": cov, "inconclusive": inconclusive,
            "assumptions": ["client frames are final (FIN=1) Text/Binary/Ping/Pong/Close frames with valid UTF-8 text; "
                            "fragmented messages (continuation frames) are not part of the library's API and are not generated",
                            "the monitor's RFC 6455 encoder (25 lines) is the reference"]}
