"""C19 - password hashing: the right password verifies, every other one does not.

Contract-style monitor on the real Auth.hash_password / Auth.verify_password.
Expensive part (real scrypt cost, ~0.09 s per call): hash/verify of a password
corpus and its near neighbours.  Cheap part: valid hash strings with *small*
scrypt parameters are built by the monitor's own reference encoder (the format
embeds its parameters, so verify_password re-derives with them) and thousands of
corruptions of them are presented; the oracle parses each corrupted string with
its own reference record parser to decide whether it still encodes the same
record (then True is the right answer) or is malformed (then True is a violation
and any exception other than ValueError/TypeError is a violation).
"""
import base64
import random
import struct

from mon.core.merge import merge, need
from mon.core.util import Counter, h64, rng, short

ID = "C19"
LEVEL = "exploration"
SHARD_TIMEOUT = {"quick": 300, "thorough": 1500}

BUDGET = {  # per shard: (expensive password cases, cheap base hashes, corruptions per base)
    "quick": (3, 6, None),
    "thorough": (60, 60, None),
}


def plan(tier, seed):
    k = 8 if tier == "quick" else 16
    return [{"tier": tier, "seed": seed, "shard": i, "nshards": k, "subprocess": True} for i in range(k)]


# ---------------------------------------------------------------- reference side

def ref_prehash(pw):
    import hashlib
    return hashlib.sha256(pw).digest()


def ref_hash(pw, N, r, p, salt, length):
    """reference encoder of the documented format  method:version:b64(params):b64(salt+digest)"""
    from cryptography.hazmat.primitives.kdf.scrypt import Scrypt
    out = Scrypt(salt, length, N, r, p).derive(ref_prehash(pw))
    params = struct.pack(">HBBBB", N, r, p, len(salt), length)
    return "scrypt:1:%s:%s" % (base64.b64encode(params).decode(), base64.b64encode(salt + out).decode())


def ref_record(s):
    """what record does the string encode?  None if it does not parse at all.
    Mirrors only the documented container format (4 ':' fields, base64 payloads);
    characters the base64 decoder skips do not change the record."""
    if not isinstance(s, str):
        return None
    try:
        parts = s.encode("utf-8").split(b":")
    except Exception:
        return None
    if len(parts) < 4:
        return None
    try:
        params = base64.b64decode(parts[2])
        data = base64.b64decode(parts[3])
    except Exception:
        return None
    return (parts[0], parts[1], params, data)


def ref_verdict(rec, pw):
    """reference verdict for a string that parses to record `rec`:
    True/False when the record is coherent (then the real answer must be exactly
    that - a short digest can match by chance and that is the right answer), or
    None when the record is malformed (then: ValueError/TypeError/False)."""
    from cryptography.hazmat.primitives.kdf.scrypt import Scrypt
    if rec is None or rec[0] != b"scrypt" or rec[1] != b"1":
        return None
    try:
        N, rr, pp, sl, ln = struct.unpack(">HBBBB", rec[2])
    except struct.error:
        return None
    data = rec[3]
    if ln < 1 or len(data) != sl + ln:
        return None
    try:
        out = Scrypt(data[:sl], ln, N, rr, pp).derive(ref_prehash(pw))
    except Exception:
        return None
    return out == data[sl:]


# ---------------------------------------------------------------- generators

def passwords(r, shard, nshards):
    base = [b"", b"\x00", b"a", b"a\x00", b"\x00a", b"password", b"Password", b"password ",
            "pässwörd-é中".encode("utf-8"), bytes(range(256)), b"\xff" * 64, b"\x00" * 64,
            b":" * 8, b"scrypt:1:QAAQARAY:", bytes(r.randrange(256) for _ in range(r.randint(1, 200)))]
    big = bytes(r.randrange(256) for _ in range(1024)) * 1024          # 1 MiB
    base.append(big)
    r.shuffle(base)
    return base


def neighbours(r, p):
    out = []
    if p:
        i = r.randrange(len(p))
        out.append(("bitflip", p[:i] + bytes([p[i] ^ (1 << r.randrange(8))]) + p[i + 1:]))
        out.append(("bytechange", p[:i] + bytes([(p[i] + 1) % 256]) + p[i + 1:]))
        out.append(("prefix", p[:-1]))
        out.append(("drop-first", p[1:]))
    out.append(("suffix-nul", p + b"\x00"))
    out.append(("suffix", p + b"x"))
    out.append(("prepend-nul", b"\x00" + p))
    if p != b"":
        out.append(("empty", b""))
    out.append(("sha-of-p", ref_prehash(p)))       # the pre-hash itself must not be accepted
    import hashlib as _hl
    out.append(("sha-hexdigest-of-p", _hl.sha256(p).hexdigest().encode()))          # ... nor its 64 hex characters, in either case
    out.append(("sha-HEXDIGEST-of-p", _hl.sha256(p).hexdigest().upper().encode()))
    # passwords are BYTE strings: what looks the same, or is the same text in another normal form / case / width, is another password
    try:
        import unicodedata
        t = p.decode("utf-8")
        for form in ("NFC", "NFD", "NFKC", "NFKD"):
            out.append(("unicode-" + form, unicodedata.normalize(form, t).encode("utf-8")))
        out += [("upper", t.upper().encode("utf-8")), ("lower", t.lower().encode("utf-8")), ("casefold", t.casefold().encode("utf-8")),
                ("strip", t.strip().encode("utf-8")), ("latin-1", t.encode("latin-1", "ignore")), ("utf-16", t.encode("utf-16-le"))]
    except UnicodeDecodeError:
        pass
    return [(k, q) for k, q in out if q != p]


# byte-wise different passwords that are the same text under some normalisation
LOOKALIKES = [("caf\u00e9".encode("utf-8"), "cafe\u0301".encode("utf-8")), ("\u212b".encode("utf-8"), "\u00c5".encode("utf-8")),
              ("\ufb01le".encode("utf-8"), b"file"), ("\uff21".encode("utf-8"), b"A"), ("Stra\u00dfe".encode("utf-8"), b"Strasse"),
              (b"password", b"Password"), (b"password", b"password "), ("\u03a9".encode("utf-8"), "\u2126".encode("utf-8")),
              ("a\u0308\u0323".encode("utf-8"), "a\u0323\u0308".encode("utf-8")), (b"\xef\xbb\xbfpw", b"pw")]


B64CH = ["A", "/", "+", "=", "!", " ", "\n", "é", "-", "_", ":"]


def corruptions(r, h, exhaustive=True):
    """yield (class, string) for corruptions of a valid hash string h"""
    parts = h.split(":")
    # truncation at every position
    for i in range(len(h)):
        yield "truncate", h[:i]
    # field removal / reordering / duplication
    for i in range(4):
        yield "field-removed", ":".join(parts[:i] + parts[i + 1:])
        yield "field-emptied", ":".join(parts[:i] + [""] + parts[i + 1:])
        yield "field-doubled", ":".join(parts[:i] + [parts[i]] + parts[i:])
    yield "separator", h.replace(":", ";")
    yield "separator", h.replace(":", "")
    yield "separator", h.replace(":", "::")
    yield "swap", ":".join([parts[0], parts[1], parts[3], parts[2]])
    yield "swap", ":".join([parts[1], parts[0], parts[2], parts[3]])
    # method / version
    for kind in ["Scrypt", "scrypt ", " scrypt", "", "bcrypt", "scryp", "scryptt", "SCRYPT"]:
        yield "method", ":".join([kind] + parts[1:])
    for ver in ["0", "2", "01", "1 ", "", "1.0", "-1", "11"]:
        yield "version", ":".join([parts[0], ver] + parts[2:])
    # base64 damage: every position of params and data x alphabet
    for f in (2, 3):
        s = parts[f]
        for i in range(len(s) + 1):
            for c in B64CH:
                if i < len(s):
                    t = s[:i] + c + s[i + 1:]
                    yield "b64-substitute", ":".join(parts[:f] + [t] + parts[f + 1:])
                t = s[:i] + c + s[i:]
                yield "b64-insert", ":".join(parts[:f] + [t] + parts[f + 1:])
            if i < len(s):
                yield "b64-delete", ":".join(parts[:f] + [s[:i] + s[i + 1:]] + parts[f + 1:])
                # flip to the neighbouring base64 symbol: decodes fine, changes the record
                alphabet = "ABCDEFGHIJKLMNOPQRSTUVWXYZabcdefghijklmnopqrstuvwxyz0123456789+/"
                if s[i] in alphabet:
                    c2 = alphabet[(alphabet.index(s[i]) + 1) % 64]
                    yield "b64-symbol", ":".join(parts[:f] + [s[:i] + c2 + s[i + 1:]] + parts[f + 1:])
    # parameter edits (kept cheap: N <= 2048)
    N0, r0, p0, sl0, l0 = struct.unpack(">HBBBB", base64.b64decode(parts[2]))
    data = base64.b64decode(parts[3])
    grid_N = [0, 1, 2, 3, 4, 6, 1024, N0 * 2 if N0 * 2 <= 2048 else 4, 2047]
    grid_r = [0, 1, 2, 8]
    grid_p = [0, 1, 2]
    grid_sl = [0, 1, sl0 - 1, sl0, sl0 + 1, len(data) - 1, len(data), len(data) + 1, 255]
    grid_l = [0, 1, l0 - 1, l0, l0 + 1, 64, 255]
    for N in grid_N:
        for rr in grid_r:
            for pp in grid_p:
                if (N, rr, pp) != (N0, r0, p0):
                    q = base64.b64encode(struct.pack(">HBBBB", N, rr, pp, sl0, l0)).decode()
                    yield "param-cost", ":".join(parts[:2] + [q, parts[3]])
    for sl in grid_sl:
        for ln in grid_l:
            if (sl, ln) != (sl0, l0) and 0 <= sl <= 255 and 0 <= ln <= 255:
                q = base64.b64encode(struct.pack(">HBBBB", N0, r0, p0, sl, ln)).decode()
                yield "param-length", ":".join(parts[:2] + [q, parts[3]])
                # the same with the data field emptied / shortened to the salt only
                yield "param-length+data", ":".join(parts[:2] + [q, base64.b64encode(data[:sl]).decode()])
    raw = base64.b64decode(parts[2])
    for k in (0, 1, 4, 6, 7, 12):
        q = base64.b64encode((raw * 3)[:k]).decode()
        yield "param-size", ":".join(parts[:2] + [q, parts[3]])
    # data edits
    for k in (0, 1, sl0 - 1, sl0, sl0 + 1, len(data) - 1, len(data) + 1, len(data) * 2):
        q = base64.b64encode((data * 3)[:k]).decode()
        yield "data-size", ":".join(parts[:3] + [q])
    # random single edits anywhere
    for _ in range(300):
        i = r.randrange(len(h))
        c = chr(r.choice([r.randrange(32, 127), r.randrange(0, 32), r.randrange(128, 0x800)]))
        yield "random-substitute", h[:i] + c + h[i + 1:]
        yield "random-insert", h[:i] + c + h[i:]
        yield "random-delete", h[:i] + h[i + 1:]


# ---------------------------------------------------------------- monitor

def classify_true(rec):
    """mechanism label for 'verify returned True on a malformed string'"""
    if rec is not None:
        try:
            N, rr, pp, sl, ln = struct.unpack(">HBBBB", rec[2])
            if ln == 0:
                return "true-on-zero-length-digest"
        except Exception:
            pass
    return "true-on-malformed"


def run_shard(cfg):
    import icontract
    from mpgameserver.auth import Auth

    class PostBroken(Exception):
        pass

    def well_formed(result):
        rec = ref_record(result)
        if rec is None or rec[0] != b"scrypt" or rec[1] != b"1" or result.count(":") != 3:
            return False
        N, rr, pp, sl, ln = struct.unpack(">HBBBB", rec[2])
        return sl == Auth.SALT_LENGTH and ln == Auth.DIGEST_LENGTH and len(rec[3]) == sl + ln and N >= 16384

    checked_hash = icontract.ensure(well_formed, error=PostBroken)(Auth.hash_password)

    counters = Counter()
    violations = []
    distinct = set()
    samples = []
    tier = cfg["tier"]
    n_exp, n_base, _ = BUDGET[tier]
    r = rng("C19", cfg["seed"], cfg["shard"])

    def viol(mech, msg, case):
        if len(violations) < 40:
            violations.append({"mechanism": mech, "msg": msg, "case": case,
                               "case_key": [cfg["seed"], cfg["shard"]]})

    # ---- long passwords (every shard, cheap reference-built records): every byte of the password counts - the right one verifies,
    #      one that differs only at / beyond a power-of-two offset, only in its last byte, or is cut at such an offset does not
    rl = random.Random("c19-long-%s-%s" % (cfg["seed"], cfg["shard"]))
    for L in (65, 73, 129, 257, 1025, 1026, 2049, 4097, rl.choice([65537, 70001, 262145])):
        pl = bytes(rl.randrange(1, 256) for _ in range(min(L, 4097))) + bytes(L - min(L, 4097))
        salt = bytes(rl.randrange(256) for _ in range(16))
        hl = ref_hash(pl, 4, 1, 1, salt, 24)
        try:
            ok = Auth.verify_password(pl, hl)
        except Exception as e:
            viol("right-password-raises", "verify(p, reference record of p) raised %r for a password of %d bytes" % (e, L), {"len": L})
            continue
        counters.inc("long_password_right_checked")
        if ok is not True:
            viol("right-password-rejected", "verify(p, reference record of p) = %r for a password of %d bytes" % (ok, L), {"len": L})
        cuts = [b for b in (55, 56, 64, 72, 128, 255, 256, 512, 1000, 1024, 2048, 4096, 65536) if b < L]
        qs = [("differs-only-in-last-byte", pl[:-1] + bytes([pl[-1] ^ 1]))]
        for b in cuts:
            qs.append(("differs-only-at-byte-%d" % b, pl[:b] + bytes([pl[b] ^ 0x40]) + pl[b + 1:]))
            qs.append(("cut-at-%d" % b, pl[:b]))
        qs.append(("one-byte-longer", pl + b"\x00"))
        for kind, q in qs:
            try:
                res = Auth.verify_password(q, hl)
            except Exception as e:
                viol("wrong-password-raises", "verify(q, h) raised %r (long password, %s)" % (e, kind), {"len": L, "kind": kind})
                continue
            counters.inc("long_password_neighbours_checked")
            distinct.add(h64("long", L, kind, cfg["shard"]))
            if res is not False:
                viol("wrong-password-accepted", "verify(q, h) = %r for a %d-byte password and q that %s" % (res, L, kind), {"len": L, "kind": kind})

    # ---- expensive part: the real hash_password
    pws = passwords(r, cfg["shard"], cfg["nshards"])
    for i in range(n_exp):
        p = pws[(cfg["shard"] * n_exp + i) % len(pws)]
        try:
            h = checked_hash(p)
        except PostBroken as e:
            viol("hash-format", "hash_password(%s) returned a string that is not the documented record: %s" % (short(p), e), {"p": short(p)})
            continue
        counters.inc("kdf_calls")
        counters.inc("hash_calls")
        try:
            ok = Auth.verify_password(p, h)
        except Exception as e:
            viol("right-password-raises", "verify(p, hash(p)) raised %r for p=%s" % (e, short(p)), {"p": short(p)})
            continue
        counters.inc("kdf_calls")
        counters.inc("right_password_checked")
        distinct.add(h64("right", p))
        if ok is not True:
            viol("right-password-rejected", "verify(p, hash(p)) = %r for p=%s" % (ok, short(p)), {"p": short(p)})
        nb = neighbours(r, p)
        r.shuffle(nb)
        for kind, q in nb[:2]:
            try:
                res = Auth.verify_password(q, h)
            except Exception as e:
                viol("wrong-password-raises", "verify(q, hash(p)) raised %r" % (e,), {"p": short(p), "q": short(q)})
                continue
            counters.inc("kdf_calls")
            counters.inc("wrong_password_checked")
            distinct.add(h64("wrong", p, q))
            if res is not False:
                viol("wrong-password-accepted", "verify(q, hash(p)) = %r for q (%s) != p" % (res, kind),
                     {"p": short(p), "q": short(q), "kind": kind})
        if i % 2 == 0:
            h2 = Auth.hash_password(p)
            counters.inc("kdf_calls")
            counters.inc("fresh_salt_checked")
            ra, rb = ref_record(h), ref_record(h2)
            if h == h2 or ra[3][:Auth.SALT_LENGTH] == rb[3][:Auth.SALT_LENGTH]:
                viol("salt-reused", "two hashes of the same password share the salt / are equal", {"p": short(p), "h": h, "h2": h2})
        if len(samples) < 2:
            samples.append({"kind": "real-cost", "password": short(p), "hash": h,
                            "neighbours": [(k, short(q)) for k, q in nb[:2]]})
    # ---- the key derivation itself fails (not enough memory for scrypt - memory pressure, a resource limit, a record with legal
    #      but huge cost parameters): injected at the boundary to the cryptography package.  Whatever verify_password does then -
    #      let the error out, raise its own - it does not say True, for no password
    import mpgameserver.auth as _A
    real_scrypt = _A.scrypt.Scrypt
    fault = {"exc": None}

    class FailingScrypt(object):
        def __init__(self, *a, **kw):
            self._real = real_scrypt(*a, **kw)

        def derive(self, km):
            if fault["exc"] is not None:
                raise fault["exc"]
            return self._real.derive(km)

        def verify(self, km, expected):
            if fault["exc"] is not None:
                raise fault["exc"]
            return self._real.verify(km, expected)
    h_ok = Auth.hash_password(b"correct horse")
    counters.inc("kdf_calls")
    _A.scrypt.Scrypt = FailingScrypt
    try:
        for exc in (MemoryError("Not enough memory to derive key"), OSError(12, "Cannot allocate memory"), RuntimeError("scrypt backend failure")):
            for pw in (b"correct horse", b"wrong", b""):
                fault["exc"] = exc
                try:
                    res = Auth.verify_password(pw, h_ok)
                    if res is True:
                        viol("true-when-kdf-fails", "the key derivation raised %r; verify_password(%r, valid hash) returned True" % (exc, pw), {"p": short(pw)})
                    else:
                        counters.inc("kdf_failure_not_true")
                except BaseException:
                    counters.inc("kdf_failure_not_true")
                finally:
                    fault["exc"] = None
        # control: the wrapper is transparent
        if Auth.verify_password(b"correct horse", h_ok) is not True or Auth.verify_password(b"wrong", h_ok) is not False:
            viol("right-password-rejected", "control with the fault injector switched off failed", {})
        counters.inc("kdf_calls", 2)
    finally:
        _A.scrypt.Scrypt = real_scrypt
    # ---- a server that checks logins on several threads at once (a thread pool behind the HTTP router): each call gets ITS
    #      password's verdict.  The boundary to the cryptography package yields for a moment (the constructor sleeps 0-2 ms: the
    #      derivation behind it releases the GIL anyway), so calls overlap between pre-hash and derivation
    if cfg["shard"] % 3 == 1:
        import threading
        import time as _time
        real_scrypt2 = _A.scrypt.Scrypt
        yr = rng("C19y", cfg["seed"], cfg["shard"])
        ylock = threading.Lock()

        class YieldingScrypt(object):
            def __init__(self, *a, **kw):
                with ylock:
                    d = yr.random() * 0.002
                _time.sleep(d)
                self._real = real_scrypt2(*a, **kw)

            def derive(self, km):
                return self._real.derive(km)

            def verify(self, km, expected):
                return self._real.verify(km, expected)
        n_threads = 4
        pws = [b"user-%d-" % k + r.randbytes(6) for k in range(n_threads)]
        recs = [ref_hash(pw, 16, 1, 1, r.randbytes(16), 24) for pw in pws]
        results, rlock = [], threading.Lock()

        def worker(k):
            out_ = []
            try:
                hk = Auth.hash_password(pws[k])
                out_.append(("own-hash-right", Auth.verify_password(pws[k], hk), True))
                for it in range(40):
                    if it % 2 == 0:
                        out_.append(("right", Auth.verify_password(pws[k], recs[k]), True))
                    else:
                        out_.append(("wrong", Auth.verify_password(pws[(k + 1) % n_threads], recs[k]), False))
            except BaseException as e:
                out_.append(("raised", repr(e), None))
            with rlock:
                results.append((k, out_))
        _A.scrypt.Scrypt = YieldingScrypt
        try:
            ths = [threading.Thread(target=worker, args=(k,)) for k in range(n_threads)]
            for t_ in ths:
                t_.start()
            for t_ in ths:
                t_.join(120)
        finally:
            _A.scrypt.Scrypt = real_scrypt2
        for k, out_ in results:
            for what, got, want_ in out_:
                counters.inc("concurrent_auth_calls")
                counters.inc("kdf_calls")
                if what == "raised":
                    viol("concurrent-call-raised", "thread %d: an Auth call with well-formed arguments raised %s while other threads were inside Auth" % (k, got), {"thread": k})
                elif got is not want_:
                    viol("true-on-wrong-password" if want_ is False else "right-password-rejected",
                         "thread %d (%d threads inside Auth at once): verify_password of the %s password returned %r" % (k, n_threads, "right" if want_ else "another user's", got), {"thread": k, "what": what})
                else:
                    counters.inc("concurrent_auth_calls_correct")
        if len(results) != n_threads:
            counters.inc("concurrent_auth_threads_not_finished")
    # ---- fresh salts in forked workers: two children of this process hash the same password at once; their salts differ from each
    #      other and from the parent's
    if cfg["shard"] % 3 == 0:
        import os as _os
        outs = []
        for _k in range(2):
            rfd, wfd = _os.pipe()
            pid = _os.fork()
            if pid == 0:
                try:
                    _os.close(rfd)
                    _os.write(wfd, Auth.hash_password(b"same password").encode())
                finally:
                    _os._exit(0)
            _os.close(wfd)
            data = b""
            while True:
                chunk = _os.read(rfd, 4096)
                if not chunk:
                    break
                data += chunk
            _os.close(rfd)
            _os.waitpid(pid, 0)
            outs.append(data.decode())
        outs.append(Auth.hash_password(b"same password"))
        counters.inc("kdf_calls", 3)
        salts = [ref_record(h_)[3][:Auth.SALT_LENGTH] if ref_record(h_) else None for h_ in outs]
        counters.inc("forked_hashes_checked")
        if None in salts or len(set(salts)) != 3:
            viol("salt-reused", "the same password hashed in two forked children and in the parent: salts %s" % ([s_.hex() if s_ else None for s_ in salts],), {"hashes": outs})
    # ---- passwords that LOOK like digests (64 hex characters) are passwords: q and sha256(q).hexdigest() are different passwords
    if cfg["shard"] % 2 == 0:
        import hashlib as _hl2
        q_ = b"some password %d" % cfg["shard"]
        for p_ in (_hl2.sha256(q_).hexdigest().encode(), _hl2.sha256(q_).hexdigest().upper().encode()):
            try:
                h_ = Auth.hash_password(p_)
                res_q, res_p = Auth.verify_password(q_, h_), Auth.verify_password(p_, h_)
                counters.inc("kdf_calls", 3)
                counters.inc("digest_shaped_passwords_checked")
                if res_q is not False or res_p is not True:
                    viol("wrong-password-accepted" if res_q is not False else "right-password-rejected",
                         "p = hexdigest of sha256(q): verify(q, hash(p)) = %r, verify(p, hash(p)) = %r" % (res_q, res_p), {"p": short(p_), "q": short(q_), "kind": "digest-shaped"})
                rec_ = ref_record(h_)
                if rec_ is not None and ref_verdict(rec_, p_) is not True:
                    viol("hash-format", "the record written for a 64-hex-character password is not the documented sha256+scrypt derivation of that password", {"p": short(p_)})
            except Exception as e:
                viol("right-password-raises", "digest-shaped password raised %r" % (e,), {})
    # ---- a well-formed record with heavier (legal) cost parameters than hash_password uses today - written by a later version, or
    #      by another implementation of the documented format - is verified with the parameters it carries
    if cfg["shard"] % 4 == 1:
        salt_ = bytes(range(16))
        for N_, r_, p_c in ((16384, 16, 3), (32768, 16, 1)):
            try:
                h_heavy = ref_hash(b"heavy", N_, r_, p_c, salt_, 24)
                ok_h = Auth.verify_password(b"heavy", h_heavy)
                bad_h = Auth.verify_password(b"heavx", h_heavy)
                counters.inc("kdf_calls", 3)
                counters.inc("heavier_parameter_records_checked")
                if ok_h is not True or bad_h is not False:
                    viol("right-password-rejected" if ok_h is not True else "wrong-password-accepted", "record with N=%d r=%d p=%d: verify(right) = %r, verify(wrong) = %r" % (N_, r_, p_c, ok_h, bad_h), {"N": N_, "r": r_, "p": p_c})
            except Exception as e:
                viol("right-password-raises", "a well-formed record with N=%d r=%d p=%d (legal scrypt parameters) makes verify raise %r" % (N_, r_, p_c, e), {"N": N_, "r": r_, "p": p_c})
    # ---- look-alike pairs (one per shard at real cost, both directions)
    pa, pb = LOOKALIKES[(cfg["shard"] + cfg["seed"]) % len(LOOKALIKES)]
    for p_, q_ in ((pa, pb), (pb, pa)):
        try:
            h_ = Auth.hash_password(p_)
            res = Auth.verify_password(q_, h_)
            ok_ = Auth.verify_password(p_, h_)
            counters.inc("kdf_calls", 3)
            counters.inc("lookalike_pairs_checked")
            if res is not False or ok_ is not True:
                viol("wrong-password-accepted" if res is not False else "right-password-rejected",
                     "verify(%r, hash(%r)) = %r, verify(p, hash(p)) = %r (byte-wise different passwords that are the same text under a normalisation)" % (q_, p_, res, ok_),
                     {"p": short(p_), "q": short(q_), "kind": "lookalike"})
        except Exception as e:
            viol("right-password-raises", "look-alike pair raised %r" % (e,), {"p": short(p_)})
    # ---- the documented class attributes SALT_LENGTH / DIGEST_LENGTH are configuration: records made under one setting are
    #      self-describing and verify under any other (one real-cost case per shard)
    configs = [(8, 32), (32, 32), (16, 64), (24, 16), (1, 1), (33, 47)]
    sl0, dl0 = Auth.SALT_LENGTH, Auth.DIGEST_LENGTH
    try:
        sl, dl = configs[(cfg["shard"] + cfg["seed"]) % len(configs)]
        Auth.SALT_LENGTH, Auth.DIGEST_LENGTH = sl, dl
        p = pws[(cfg["shard"] * 7 + 3) % len(pws)]
        q = p + b"\x00" if len(p) < 64 else p[:-1]
        try:
            h = checked_hash(p)
            counters.inc("configurations_tried")
            res_same = Auth.verify_password(p, h)
            Auth.SALT_LENGTH, Auth.DIGEST_LENGTH = sl0, dl0
            res_default = Auth.verify_password(p, h)
            res_wrong = Auth.verify_password(q, h)
            counters.inc("kdf_calls", 4)
            if res_same is not True or res_default is not True:
                viol("right-password-rejected", "with SALT_LENGTH=%d DIGEST_LENGTH=%d: verify(p, hash(p)) = %r (same setting), %r (default setting again)" % (
                    sl, dl, res_same, res_default), {"salt_length": sl, "digest_length": dl})
            elif res_wrong is not False:
                viol("wrong-password-accepted", "with SALT_LENGTH=%d DIGEST_LENGTH=%d: verify(q, hash(p)) = %r" % (sl, dl, res_wrong), {"salt_length": sl, "digest_length": dl})
            else:
                counters.inc("configurations_ok")
        except PostBroken as e:
            viol("hash-format", "with SALT_LENGTH=%d DIGEST_LENGTH=%d hash_password returned a record that does not describe itself: %s" % (sl, dl, e), {"salt_length": sl, "digest_length": dl})
        except Exception as e:
            viol("right-password-raises", "with SALT_LENGTH=%d DIGEST_LENGTH=%d: %r" % (sl, dl, e), {"salt_length": sl, "digest_length": dl})
    finally:
        Auth.SALT_LENGTH, Auth.DIGEST_LENGTH = sl0, dl0
    # non-bytes / non-str arguments
    for bad_pw, bad_h in [("str-password", None), (None, None), (b"pw", b"scrypt:1:QAAQARAY:AAAA"), (b"pw", None), (b"pw", 5)]:
        h_arg = bad_h if bad_h is not None or bad_pw == b"pw" else "scrypt:1:QAAQARAY:AAAA"
        try:
            res = Auth.verify_password(bad_pw, h_arg)
            if res is True:
                viol("true-on-wrong-type", "verify(%r, %r) returned True" % (bad_pw, h_arg), {})
            elif not (isinstance(bad_pw, bytes) and isinstance(h_arg, str)):
                viol("wrong-type-accepted", "verify(%r, %r) returned %r instead of raising TypeError" % (bad_pw, h_arg, res), {})
        except (TypeError, ValueError):
            counters.inc("wrong_type_rejected")
        except Exception as e:
            viol("raises-other:%s" % type(e).__name__, "verify(%r, %r) raised %r" % (bad_pw, h_arg, e), {})
    try:
        Auth.hash_password("not-bytes")
        viol("wrong-type-accepted", "hash_password(str) did not raise", {})
    except TypeError:
        counters.inc("wrong_type_rejected")

    # ---- cheap part: reference-built hashes with small parameters
    for b in range(n_base):
        p = pws[(b + cfg["shard"]) % len(pws)]
        if len(p) > 4096:
            p = p[:4096]
        N = r.choice([2, 4, 16, 64])
        rr = r.choice([1, 2, 8])
        pp = r.choice([1, 2])
        salt = bytes(r.randrange(256) for _ in range(16))
        h = ref_hash(p, N, rr, pp, salt, 24)
        rec0 = ref_record(h)
        # positive controls: the monitor can see True and False
        try:
            if Auth.verify_password(p, h) is not True:
                viol("right-password-rejected", "verify(p, reference-encoded hash with N=%d r=%d p=%d) is not True" % (N, rr, pp),
                     {"p": short(p), "h": h})
            counters.inc("control_true")
        except Exception as e:
            viol("right-password-raises", "verify on reference-encoded hash raised %r" % (e,), {"p": short(p), "h": h})
            continue
        for kind, q in neighbours(r, p):
            try:
                res = Auth.verify_password(q, h)
            except Exception as e:
                viol("wrong-password-raises", "verify(q, h) raised %r" % (e,), {"p": short(p), "q": short(q)})
                continue
            counters.inc("wrong_password_checked")
            counters.inc("control_false")
            distinct.add(h64("wrongc", p, q, N, rr, pp))
            if res is not False:
                viol("wrong-password-accepted", "verify(q, h) = %r for q (%s) != p" % (res, kind),
                     {"p": short(p), "q": short(q), "h": h})
        for _ in range(40):
            q = bytes(r.randrange(256) for _ in range(r.randint(0, 40)))
            if q == p:
                continue
            res = Auth.verify_password(q, h)
            counters.inc("wrong_password_checked")
            if res is not False:
                viol("wrong-password-accepted", "verify(random q, h) = %r" % (res,), {"p": short(p), "q": short(q), "h": h})
        # corruptions
        for cls, s in corruptions(r, h):
            if s == h:
                continue
            rec = ref_record(s)
            same = rec is not None and rec == rec0
            counters.inc("corruptions")
            counters.inc("corrupt:" + cls)
            pw = p if r.random() < 0.8 else b"other"
            try:
                res = Auth.verify_password(pw, s)
                exc = None
            except (ValueError, TypeError) as e:
                res, exc = None, e
                counters.inc("malformed_raised")
            except Exception as e:
                res, exc = None, e
                mech = "raises-%s" % type(e).__name__
                viol(mech, "verify(p, %r) [%s] raised %s: %s" % (s[-48:], cls, type(e).__name__, e),
                     {"class": cls, "string": s, "base": h})
                continue
            if same:
                counters.inc("same_record_not_judged")
                if exc is None and res is not (pw == p):
                    viol("same-record-wrong-answer", "string decoding to the same record gave %r" % (res,), {"string": s, "base": h})
                continue
            distinct.add(h64("mal", cls, s))
            want = ref_verdict(rec, pw) if (rec is not None and len(s.split(":")) == 4) else None
            if want is not None:
                # a different but coherent record: the answer is defined by the reference KDF
                counters.inc("coherent_other_record")
                if want:
                    counters.inc("coherent_other_record_true")
                if exc is not None or res is not want:
                    viol("differs-from-reference", "verify on a coherent record [%s] gave %r/%r, reference says %r" % (
                        cls, res, exc, want), {"class": cls, "string": s, "base": h})
                continue
            if res is True:
                viol(classify_true(rec), "verify(%s, malformed %r) [%s] returned True" % (
                    "p" if pw == p else "another password", s[-60:], cls), {"class": cls, "string": s, "base": h})
            elif res is False:
                counters.inc("malformed_false")
        if len(samples) < 4:
            samples.append({"kind": "cheap-base", "password": short(p), "hash": h,
                            "example_corruptions": [s for _, s in list(corruptions(rng(1), h))[70:76]]})
    return {"evaluations": counters.get("corruptions", 0) + counters.get("wrong_password_checked", 0) + counters.get("right_password_checked", 0),
            "distinct": sorted(distinct), "counters": dict(counters), "violations": violations, "samples": samples}


def finish(tier, seed, results):
    m = merge(results)
    inconclusive = []
    need(m["counters"], ["right_password_checked", "wrong_password_checked", "fresh_salt_checked",
                         "corruptions", "malformed_raised", "control_true", "control_false", "kdf_calls", "configurations_ok", "lookalike_pairs_checked", "kdf_failure_not_true", "forked_hashes_checked", "digest_shaped_passwords_checked", "heavier_parameter_records_checked", "long_password_right_checked", "long_password_neighbours_checked"], inconclusive)
    cov = {
        "evaluations": m["evaluations"],
        "distinct_nontrivial": m["distinct_nontrivial"],
        "rule": "evaluations = verify_password calls judged (right password, wrong passwords, corrupted hash strings). "
                "Real-cost cases use Auth.hash_password (N=16384,r=16); cheap cases use hash strings built by the "
                "monitor's reference encoder with N<=64 so that every truncation position, field removal, base64 "
                "damage at every position, parameter grid and 900 random single edits per base hash are affordable. "
                "distinct = distinct (password, other password) pairs and distinct malformed strings; strings that "
                "decode to the same record as the valid hash are counted separately (same_record_not_judged) and are "
                "not in distinct_nontrivial",
        "samples": m["samples"],
        "counters": m["counters"],
    }
    return {"coverage": cov, "inconclusive": inconclusive,
            "assumptions": ["scrypt/sha256/base64 of the cryptography package and the standard library are trusted",
                            "a corrupted string is 'malformed' iff the monitor's reference parser (4 ':' fields, "
                            "lenient base64 as in the standard library) decodes it to a different record or not at all",
                            "False is accepted for a malformed string (the statement's safety core is: never True, "
                            "never an exception other than ValueError/TypeError)",
                            "parameter edits that raise scrypt's cost beyond N=2048 are not generated (cost, not correctness)"]}
