"""C20 - dispatcher routes by message class; register/unregister are inverses.

Model-based monitor.  The reference is a dict  class name -> (resource, method)
(with an explicit "unknown" state where the statement is silent, resolved by
probing).  Seeded operation sequences drive the real ServerMessageDispatcher /
ClientMessageDispatcher; after every operation the real behaviour is compared
with the model at the public boundary (which handler ran, with which argument
objects, what was raised).
"""
import time

from mon.core.merge import merge, need
from mon.core.util import Counter, h64, rng

ID = "C20"
LEVEL = "exploration"

N_SEQ = {"quick": 6000, "thorough": 1600000}
N_OPS = 30


def plan(tier, seed):
    n = N_SEQ[tier]
    k = 16 if tier == "thorough" else 8
    return [{"tier": tier, "seed": seed, "shard": i, "n": n // k, "subprocess": True} for i in range(k)]


_CLASSES = None


_ODD_ENUM = None


def _msg_classes():
    """a fixed pool of message classes (Serializable subclasses must have unique
    names process-wide, so they are created once)"""
    global _CLASSES
    if _CLASSES is None:
        from mpgameserver import Serializable

        class C20MsgA(Serializable):
            value: int = 0

        class C20MsgB(Serializable):
            value: int = 0

        class C20MsgC(Serializable):
            text: str = ""

        class C20MsgD(Serializable):
            value: int = 0

        class C20MsgE(Serializable):
            value: int = 0

        class C20Foreign(object):
            pass

        # a message that is FALSY (a container-like message with nothing in it): still a message of its class
        C20MsgA.__len__ = lambda self: 0
        C20MsgD.__bool__ = lambda self: False

        _CLASSES = ([C20MsgA, C20MsgB, C20MsgC, C20MsgD, C20MsgE], C20Foreign)
    return _CLASSES


def _make_resource(r, idx, kind, classes, calls):
    """build a resource class with 1..4 handlers; annotation style per handler; a handler is an instance method, a classmethod,
    or the bound method of a component object that the resource exposes as an attribute (self.on_x = self.part.on_x)"""
    from mpgameserver import dispatch as D
    ns = {}
    handled = []
    tok = [None]                 # identity of the resource as the call log knows it
    k = r.randint(1, min(4, len(classes)))
    chosen = r.sample(classes, k)
    component_ns, component_names = {}, []
    for j, cls in enumerate(chosen):
        style = r.choice(["class", "string"])
        mname = "%s_%d_%s" % (r.choice(["a", "m", "z", "on", "handle", "_on", "_private", "__mangled"]), j, cls.__name__.lower())
        ann = cls if style == "class" else cls.__name__
        h = _handler(kind, mname, ann, calls, tok)
        how = r.choice(["instance", "instance", "instance", "classmethod", "component"])
        if how == "classmethod":
            ns[mname] = classmethod(h)
        elif how == "component":
            component_ns[mname] = h
            component_names.append(mname)
        else:
            ns[mname] = h
        handled.append((cls.__name__, mname, style))
    ns["helper"] = lambda self: None           # an undecorated method must be ignored
    R = type("Res%d" % idx, (object,), ns)
    inst = R()
    if component_names:
        Part = type("Part%d" % idx, (object,), component_ns)
        inst._part = Part()
        for mname in component_names:
            setattr(inst, mname, getattr(inst._part, mname))
    tok[0] = id(inst)
    inst._handled = sorted(handled, key=lambda t: t[1])   # dir() order = registration order
    inst._idx = idx
    return inst


class C20Text(str):
    """a str subclass (a text payload type of the application): a message of class C20Text, whatever it spells"""


FN_KINDS = ["function", "partial", "callable-object", "inbox-list", "inbox-deque", "len0-object", "bool-false-object"]


def _fn_handler(r, kind, calls, owner_id, mname):
    """a handler for register_function(): "fn" is any callable - a plain function, a functools.partial, or a callable OBJECT;
    callable objects may be containers (an inbox that queues what it is called with: empty, hence falsy, until the first
    delivery) or define __len__ / __bool__ for reasons of their own.  Returns (callable, kind label)."""
    import functools
    how = r.choice(FN_KINDS)

    def record(*args):
        calls.append((owner_id, mname, args))
    if how == "function":
        if kind == "server":
            def fn(client, seqnum, msg):
                record(client, seqnum, msg)
        else:
            def fn(seqnum, msg):
                record(seqnum, msg)
        return fn, how
    if how == "partial":
        return functools.partial(lambda tag, *args: record(*args), "tag"), how
    cls_ = _FN_CLASSES[how]
    obj = cls_()
    obj._record = record
    return obj, how


class _Inbox(list):
    def __call__(self, *args):
        self.append(args)
        self._record(*args)


class _InboxQ(__import__("collections").deque):
    def __call__(self, *args):
        self.append(args)
        self._record(*args)


class _CallableObject(object):
    def __call__(self, *args):
        self._record(*args)


class _Len0Object(_CallableObject):
    def __len__(self):
        return 0


class _BoolFalseObject(_CallableObject):
    def __bool__(self):
        return False


_FN_CLASSES = {"inbox-list": _Inbox, "inbox-deque": _InboxQ, "callable-object": _CallableObject,
               "len0-object": _Len0Object, "bool-false-object": _BoolFalseObject}


UNKNOWN = "?"
RAISE = [None]               # the exception object the next invoked handler raises (after recording the call)
REENTER = [None]             # a callable the next invoked handler runs from inside (re-entrant use of the dispatcher)


def _handler(kind, mname, ann, calls, tok):
    from mpgameserver import dispatch as D
    if kind == "server":
        def h(self, client, seqnum, msg):
            calls.append((tok[0], mname, (client, seqnum, msg)))
            if REENTER[0] is not None:
                fn_, REENTER[0] = REENTER[0], None
                fn_()
            if RAISE[0] is not None:
                raise RAISE[0]
        h.__annotations__ = {"msg": ann}
        h.__name__ = mname
        return D.server_event(h)

    def h(self, seqnum, msg):
        calls.append((tok[0], mname, (seqnum, msg)))
        if REENTER[0] is not None:
            fn_, REENTER[0] = REENTER[0], None
            fn_()
        if RAISE[0] is not None:
            raise RAISE[0]
    h.__annotations__ = {"msg": ann}
    h.__name__ = mname
    return D.client_event(h)


def run_case(r, kind, counters, trace):
    """returns a violation dict or None"""
    from mpgameserver import dispatch as D
    classes, Foreign = _msg_classes()
    nclasses = r.randint(1, 5)
    classes = classes[:nclasses]
    calls = []
    resources = [_make_resource(r, i, kind, classes, calls) for i in range(r.randint(1, 4))]
    disp = D.ServerMessageDispatcher() if kind == "server" else D.ClientMessageDispatcher()
    # model: name -> (resource idx, method name) | absent ; unknown: name -> set of candidates
    model = {}
    unknown = {}

    def viol(mech, msg):
        return {"mechanism": mech, "msg": "%s [%s dispatcher] after ops: %s" % (msg, kind, trace[-8:])}

    def do_dispatch(cls):
        msg = cls()
        client = object()
        from mpgameserver import SeqNum
        seqnum = SeqNum(r.randint(1, 65535))       # an object with identity (an int subclass, as the server passes it)
        args = (client, seqnum, msg) if kind == "server" else (seqnum, msg)
        calls.clear()
        name = cls.__name__
        err = None
        # sometimes the handler itself fails: its exception object must come out of dispatch() as it is - DispatchError means
        # "nothing is registered and nothing was called"
        boom = None
        if r.random() < 0.12:
            boom = r.choice([KeyError, LookupError, ValueError, RuntimeError, AttributeError, IndexError, TypeError])("raised by the handler: " + name)
        RAISE[0] = boom
        # sometimes the handler uses the dispatcher from inside: it unregisters ANOTHER resource and dispatches one of that
        # resource's classes (nothing may answer), registers it again and dispatches again (its handler answers) - what register and
        # unregister did is in force at once, also in the middle of a dispatch
        inner = None
        if boom is None and name in model and name not in unknown and r.random() < 0.1:
            owner0 = model[name][0]
            cands = [res for res in resources if res._idx != owner0 and getattr(res, "_handled", None)
                     and all(n2 in model and model[n2][0] == res._idx and n2 not in unknown for n2, m2, s2 in res._handled)]
            if cands:
                res2 = r.choice(cands)
                name2, mname2, _s2 = res2._handled[0]
                cls2 = [k for k in classes if k.__name__ == name2][0]
                from mpgameserver import SeqNum as _SN
                args2 = (object(), _SN(9), cls2()) if kind == "server" else (_SN(9), cls2())
                inner = {"res": res2._idx, "name": name2, "mname": mname2}

                def reenter():
                    try:
                        disp.unregister(res2)
                        n0 = len(calls)
                        try:
                            disp.dispatch(*args2)
                            inner["after_unregister"] = "called %s" % calls[n0][1] if len(calls) > n0 else "nothing happened"
                        except D.DispatchError:
                            inner["after_unregister"] = "error" if len(calls) == n0 else "called %s and error" % calls[n0][1]
                        disp.register(res2)
                        n1 = len(calls)
                        try:
                            disp.dispatch(*args2)
                            inner["after_register"] = calls[n1][1] if len(calls) > n1 else "nothing happened"
                        except D.DispatchError:
                            inner["after_register"] = "error"
                    except Exception as e_:
                        inner["exc"] = repr(e_)
                REENTER[0] = reenter
        try:
            disp.dispatch(*args)
        except D.DispatchError as e:
            err = e
        except Exception as e:
            if e is not boom:
                RAISE[0] = None
                return viol("dispatch-raised-other", "dispatch(%s) raised %r" % (name, e))
        finally:
            RAISE[0] = None
            REENTER[0] = None
        counters.inc("dispatch")
        if inner is not None and "after_unregister" in inner or inner is not None and "exc" in inner:
            counters.inc("reentrant_dispatches")
            if inner.get("exc") or inner.get("after_unregister") != "error" or inner.get("after_register") != inner["mname"]:
                return viol("reentrant-use-not-in-force", "from inside a handler: unregister(Res%d) then dispatch(%s) -> %s (expected DispatchError); register(Res%d) then dispatch -> %s (expected %s)%s" % (
                    inner["res"], inner["name"], inner.get("after_unregister"), inner["res"], inner.get("after_register"), inner["mname"], (" raised " + inner["exc"]) if inner.get("exc") else ""))
            del calls[1:]            # the outer call is judged below as always
        if boom is not None and calls:
            counters.inc("dispatch_with_raising_handler")
            if err is not None:
                return viol("handler-exception-replaced", "the handler %r was invoked and raised %r; dispatch() raised DispatchError(%s) instead of letting it through" % (
                    calls[0][1], boom, err))
        if name in unknown:
            cands = unknown.pop(name)
            # statement silent about this class's state: accept any candidate, then pin the model
            if err is not None and not calls:
                if None not in cands:
                    return viol("dispatch-unregistered-unexpected", "dispatch(%s): DispatchError but a handler must be registered" % name)
                model.pop(name, None)
                counters.inc("dispatch_resolved_unknown")
                return None
            if len(calls) == 1:
                owner = None
                for res in resources:
                    if id(res) == calls[0][0]:
                        owner = res._idx
                if (owner, calls[0][1]) not in cands:
                    return viol("dispatch-wrong-handler", "dispatch(%s) invoked %r, candidates %r" % (name, calls[0][1], cands))
                model[name] = (owner, calls[0][1])
                counters.inc("dispatch_resolved_unknown")
            else:
                return viol("dispatch-call-count", "dispatch(%s): %d calls, error=%r" % (name, len(calls), err))
        if name in model:
            owner, mname = model[name]
            if err is not None:
                return viol("dispatch-error-for-registered", "dispatch(%s) raised DispatchError although Res%d.%s is registered" % (name, owner, mname))
            if len(calls) != 1:
                return viol("dispatch-call-count", "dispatch(%s) invoked %d handlers" % (name, len(calls)))
            rid, cm, cargs = calls[0]
            if rid != id(resources[owner]) or cm != mname:
                return viol("dispatch-wrong-handler", "dispatch(%s) invoked %s, model says Res%d.%s" % (name, cm, owner, mname))
            if len(cargs) != len(args) or any(a is not b for a, b in zip(cargs, args)):
                return viol("dispatch-args-changed", "dispatch(%s) did not pass its arguments through unchanged" % name)
            counters.inc("dispatch_registered_ok")
        else:
            if err is None or calls:
                who = calls[0][1] if calls else None
                mech = "dispatch-after-unregister" if name in ever_unregistered else "dispatch-no-error"
                return viol(mech, "dispatch(%s): nothing registered in the model but %s (handler %r ran)" % (
                    name, "no DispatchError" if err is None else "DispatchError", who))
            counters.inc("dispatch_unregistered_ok")
        return None

    ever_unregistered = set()
    fn_objs = {}                 # holder idx -> (handler object given to register_function, kind label)

    def do_dispatch_nonmessage(cls):
        """dispatch() of an object whose CLASS nobody registered for (str, a str subclass, bytes, the metaclass of the message
        classes) but whose VALUE spells / is a message class: routing is by the class of the message, so DispatchError, no call"""
        from mpgameserver import SeqNum
        name = cls.__name__
        form = r.choice(["str", "str-subclass", "class-object", "bytes", "str-other"])
        if form == "str":
            msg = str(name)
        elif form == "str-subclass":
            msg = C20Text(name)
        elif form == "class-object":
            msg = cls
        elif form == "bytes":
            msg = name.encode()
        else:
            msg = r.choice([name.lower(), name + " ", "", "Other", "str", "type"])
        label = "%s %r" % (form, msg if form != "class-object" else name)
        trace.append("dispatch-nonmessage(%s)" % label)
        if type(msg).__name__ in model or type(msg).__name__ in unknown:
            return None              # (cannot happen with the class pool of this check)
        args = (object(), SeqNum(r.randint(1, 65535)), msg) if kind == "server" else (SeqNum(r.randint(1, 65535)), msg)
        calls.clear()
        RAISE[0] = None
        REENTER[0] = None
        err = None
        try:
            disp.dispatch(*args)
        except D.DispatchError as e:
            err = e
        except Exception as e:
            return viol("dispatch-raised-other", "dispatch of a %s object (%s) raised %r instead of DispatchError" % (type(msg).__name__, label, e))
        if calls:
            return viol("dispatch-routed-by-value-not-class", "dispatch of a %s object (%s): no handler is registered for class %s, but handler %s was invoked with it%s" % (
                type(msg).__name__, label, type(msg).__name__, calls[0][1], "" if err is None else " (and DispatchError raised)"))
        if err is None:
            return viol("dispatch-no-error", "dispatch of a %s object (%s): no handler is registered for class %s, but no DispatchError" % (
                type(msg).__name__, label, type(msg).__name__))
        counters.inc("nonmessage_dispatch_ok")
        if form in ("str", "str-subclass", "class-object") and name in model and name not in unknown:
            counters.inc("nonmessage_dispatch_naming_registered_class")
        return None

    for step in range(N_OPS):
        op = r.choices(["register", "unregister", "dispatch", "dispatch_foreign", "reg_fn", "unreg_fn", "dispatch_nonmessage"],
                       weights=[5, 4, 8, 1, 1, 1, 1])[0]
        if op == "register":
            res = r.choice(resources)
            trace.append("register(Res%d%s)" % (res._idx, [(n, s) for n, _, s in res._handled]))
            expect_dup = None
            for name, mname, style in res._handled:
                if name in unknown:
                    expect_dup = UNKNOWN
                    break
                if name in model:
                    expect_dup = name
                    break
            try:
                disp.register(res)
                raised = None
            except D.DispatchError as e:
                raised = e
            except Exception as e:
                raised = e
            counters.inc("register")
            if expect_dup is UNKNOWN:
                # outcome depends on an unspecified state: everything of this resource becomes unknown
                for name, mname, style in res._handled:
                    cands = unknown.pop(name, None) or {model.get(name)}
                    cands = set(cands) | {(res._idx, mname)}
                    model.pop(name, None)
                    unknown[name] = cands
                continue
            if expect_dup is None:
                if raised is not None:
                    mech = "reregister-refused" if any(n in ever_unregistered for n, _, _ in res._handled) else "register-raised"
                    return viol(mech, "register(Res%d) raised %r although none of its classes is registered" % (res._idx, raised))
                for name, mname, style in res._handled:
                    model[name] = (res._idx, mname)
            else:
                counters.inc("duplicate_register")
                if raised is None:
                    return viol("duplicate-accepted", "register(Res%d) accepted a second handler for %s" % (res._idx, expect_dup))
                # the first handler must stay in place (checked by later dispatches through the model);
                # the statement is silent on the other classes of this resource: unknown
                for name, mname, style in res._handled:
                    if name in model:
                        continue
                    if name in unknown:
                        if None in unknown[name]:
                            unknown[name] = set(unknown[name]) | {(res._idx, mname)}
                        continue
                    unknown[name] = {None, (res._idx, mname)}
        elif op == "unregister":
            res = r.choice(resources)
            trace.append("unregister(Res%d)" % res._idx)
            owned = [n for n, (o, m) in model.items() if o == res._idx]
            try:
                disp.unregister(res)
            except Exception as e:
                styles = {s for n, m, s in res._handled if n in owned}
                if owned:
                    mech = "unregister-raises" if styles else "unregister-raises"
                    return viol(mech, "unregister(Res%d) raised %r (registered handlers: %s)" % (
                        res._idx, e, [(n, s) for n, m, s in res._handled if n in owned]))
                # unregistering a resource that owns nothing: statement silent; but state must not change
                continue
            counters.inc("unregister")
            if owned:
                counters.inc("unregister_effective")
            for name, mname, style in res._handled:
                if name in unknown:
                    unknown[name] = set(unknown[name]) | {None}
                    continue
                if name in model:
                    if model[name][0] == res._idx:
                        del model[name]
                        ever_unregistered.add(name)
                    else:
                        # class held by another resource: the statement does not say whether an
                        # unregister-by-class removes it; unknown until probed
                        unknown[name] = {model.pop(name), None}
        elif op == "dispatch":
            cls = r.choice(classes)
            trace.append("dispatch(%s)" % cls.__name__)
            v = do_dispatch(cls)
            if v:
                return v
        elif op == "dispatch_foreign":
            trace.append("dispatch(Foreign)")
            v = do_dispatch(Foreign)
            if v:
                return v
        elif op == "dispatch_nonmessage":
            v = do_dispatch_nonmessage(r.choice(classes + [Foreign]))
            if v:
                return v
        elif op == "reg_fn":
            cls = r.choice(classes)
            name = cls.__name__
            key = cls if r.random() < 0.5 else name
            trace.append("register_function(%s,%s)" % (name, "class" if key is cls else "str"))
            if name in unknown:
                continue
            holder = type("Fn", (object,), {})()
            holder._idx = len(resources)
            holder._handled = []
            resources.append(holder)
            mname = "fn_%d" % step
            fn, fn_kind = _fn_handler(r, kind, calls, id(holder), mname)
            trace[-1] += "[%s]" % fn_kind
            fn_objs[holder._idx] = (fn, fn_kind)
            try:
                disp.register_function(key, fn)
                raised = None
            except Exception as e:
                raised = e
            counters.inc("register_function")
            if name in model:
                counters.inc("duplicate_register")
                if raised is None:
                    return viol("duplicate-accepted", "register_function(%s) accepted a second handler" % name)
            else:
                if raised is not None:
                    mech = "reregister-refused" if name in ever_unregistered else "register-raised"
                    return viol(mech, "register_function(%s) raised %r although nothing is registered" % (name, raised))
                model[name] = (holder._idx, mname)
        elif op == "unreg_fn":
            cls = r.choice(classes)
            name = cls.__name__
            key = cls if r.random() < 0.5 else name
            trace.append("unregister_function(%s,%s)" % (name, "class" if key is cls else "str"))
            if name in unknown:
                continue
            held = fn_objs.get(model[name][0]) if name in model else None
            held_falsy = held is not None and not held[0]
            try:
                disp.unregister_function(key)
                raised = None
            except Exception as e:
                raised = e
            counters.inc("unregister_function")
            if name in model:
                if raised is not None:
                    return viol("unregister_function-raises-registered",
                                "unregister_function(%s) raised %r although a handler is registered%s" % (
                                    name, raised, " (a %s given to register_function%s)" % (held[1], ", falsy at this moment" if held_falsy else "") if held else ""))
                if held_falsy:
                    counters.inc("unregister_function_of_falsy_handler")
                del model[name]
                ever_unregistered.add(name)
                counters.inc("unregister_effective")
            else:
                # nothing registered: raising (any exception) or a no-op are both acceptable
                pass
    # a resource whose only owner is the dispatcher (the application registered it and kept no reference): its handlers work
    if r.random() < 0.3:
        import gc
        disp2 = D.ServerMessageDispatcher() if kind == "server" else D.ClientMessageDispatcher()
        anon = _make_resource(r, 99, kind, classes, calls)
        handled, rid = list(anon._handled), id(anon)
        disp2.register(anon)
        del anon
        if r.random() < 0.05:
            gc.collect()             # (reference counting frees the object at once; a full collection now and then for cycles)
        counters.inc("sole_owner_resources")
        from mpgameserver import SeqNum
        for name, mname, style in handled:
            cls = [k for k in classes if k.__name__ == name][0]
            args = (object(), SeqNum(7), cls()) if kind == "server" else (SeqNum(7), cls())
            calls.clear()
            trace.append("sole-owner-dispatch(%s)" % name)
            try:
                disp2.dispatch(*args)
            except Exception as e:
                return viol("sole-owner-dispatch-raised", "dispatch(%s) to a resource only the dispatcher refers to raised %r" % (name, e))
            if len(calls) != 1 or calls[0][0] != rid or calls[0][1] != mname or any(a is not b for a, b in zip(calls[0][2], args)):
                return viol("sole-owner-handler-not-invoked", "dispatch(%s) to a resource only the dispatcher refers to: calls %r, expected %s" % (
                    name, [(c_[1]) for c_ in calls], mname))
            counters.inc("sole_owner_dispatch_ok")
    # string annotations as "from __future__ import annotations" leaves them for a qualified or quoted name ("pkg.mod.Name", "'Name'"):
    # whether register() makes sense of them is not specified (probed: either answer is accepted); what unregister(resource) means is -
    # afterwards the handler is not invoked and the resource can be registered again
    if r.random() < 0.25:
        disp3 = D.ServerMessageDispatcher() if kind == "server" else D.ClientMessageDispatcher()
        cls_q = r.choice(classes)
        ann_q = r.choice(["messages.%s", "pkg.sub.%s", "'%s'", '"%s"', " %s", "%s "]) % cls_q.__name__
        tok_q = [None]
        hq = _handler(kind, "on_qualified", ann_q, calls, tok_q)
        RQ = type("ResQ", (object,), {"on_qualified": hq})
        resq = RQ()
        tok_q[0] = id(resq)
        from mpgameserver import SeqNum as _SNq
        args_q = (object(), _SNq(3), cls_q()) if kind == "server" else (_SNq(3), cls_q())
        trace.append("qualified-annotation(%r)" % ann_q)
        try:
            disp3.register(resq)
            calls.clear()
            try:
                disp3.dispatch(*args_q)
            except D.DispatchError:
                pass
            counters.inc("qualified_annotation_" + ("understood" if calls else "not_understood"))
            disp3.unregister(resq)
            calls.clear()
            raised_q = False
            try:
                disp3.dispatch(*args_q)
            except D.DispatchError:
                raised_q = True
            if calls or not raised_q:
                return viol("dispatch-after-unregister", "a handler annotated %r: after unregister(resource) dispatch(%s) %s" % (
                    ann_q, cls_q.__name__, "still invokes it" if calls else "raises nothing"))
            try:
                disp3.register(resq)
            except Exception as e:
                return viol("reregister-refused", "a handler annotated %r: register(resource) after unregister(resource) raised %r" % (ann_q, e))
            counters.inc("qualified_annotation_cycles")
        except D.DispatchError:
            counters.inc("qualified_annotation_refused_at_register")
        except Exception as e:
            counters.inc("qualified_annotation_refused_at_register")
    # ---- messages nobody registered for that cannot be PRINTED (repr()/str() raise - a half-built object, a value-less enum
    #      instance): what dispatch() says about them is still DispatchError, and nothing is called
    from mpgameserver import SeqNum as _SNu

    class C20Unprintable(object):
        def __repr__(self):
            raise RuntimeError("repr of a half-built message")
        __str__ = __repr__

    class C20UnprintableKey(object):
        def __repr__(self):
            raise KeyError("no such field")
    odd_msgs = [C20Unprintable(), C20UnprintableKey()]
    try:
        from mpgameserver.serializable import SerializableEnum as _SE
        global _ODD_ENUM
        if _ODD_ENUM is None:
            _ODD_ENUM = type("C20OddEnum", (_SE,), {"ONE": 1, "TWO": 2})
        odd_msgs.append(_ODD_ENUM())
        counters.inc("valueless_enum_instances_built")
    except Exception:
        pass
    for m_ in odd_msgs:
        args_u = (object(), _SNu(5), m_) if kind == "server" else (_SNu(5), m_)
        trace.append("dispatch-unprintable(%s)" % type(m_).__name__)
        calls.clear()
        try:
            disp.dispatch(*args_u)
            return viol("dispatch-no-error", "dispatch of an unregistered %s instance raised nothing" % type(m_).__name__)
        except D.DispatchError:
            counters.inc("unprintable_unregistered_messages_ok")
        except Exception as e:
            return viol("dispatch-raised-other", "dispatch of an unregistered %s instance (its repr() raises) raised %r instead of DispatchError" % (type(m_).__name__, e))
        if calls:
            return viol("dispatch-called-something", "dispatch of an unregistered %s instance invoked %s" % (type(m_).__name__, calls[0][1]))
    # ---- a resource that GROWS: registered with one handler; later the application adds a second decorated handler to it and
    #      registers that one with register_function().  unregister(resource) means all of that resource's handlers, as they are
    #      now: none of them is invoked afterwards, and register(resource) works again
    disp4 = D.ServerMessageDispatcher() if kind == "server" else D.ClientMessageDispatcher()
    cls_a, cls_b = r.sample(list(_msg_classes()[0]), 2)
    tok_g = [None]
    RG = type("ResGrow", (object,), {"on_first": _handler(kind, "on_first", cls_a, calls, tok_g)})
    resg = RG()
    tok_g[0] = id(resg)
    mk = lambda cls_: (object(), _SNu(7), cls_()) if kind == "server" else (_SNu(7), cls_())
    trace.append("growing-resource(%s, later %s)" % (cls_a.__name__, cls_b.__name__))
    try:
        disp4.register(resg)
        late_name = r.choice(["a_late", "on_late", "zz_late"])           # (sorts before / after the first handler's name)
        setattr(RG, late_name, _handler(kind, late_name, cls_b, calls, tok_g))
        disp4.register_function(cls_b, getattr(resg, late_name))
        calls.clear()
        disp4.dispatch(*mk(cls_b))
        if [c_[1] for c_ in calls] != [late_name]:
            return viol("dispatch-wrong-handler", "growing resource: dispatch(%s) invoked %r, expected %s" % (cls_b.__name__, [c_[1] for c_ in calls], late_name))
        disp4.unregister(resg)
        for cls_ in (cls_a, cls_b):
            calls.clear()
            raised_g = False
            try:
                disp4.dispatch(*mk(cls_))
            except D.DispatchError:
                raised_g = True
            if calls or not raised_g:
                return viol("dispatch-after-unregister", "a resource that got a second handler (%s, via register_function) after register(): after unregister(resource) dispatch(%s) %s" % (
                    late_name, cls_.__name__, "still invokes %s" % calls[0][1] if calls else "raises nothing"))
        try:
            disp4.register(resg)
        except Exception as e:
            return viol("reregister-refused", "a resource that got a second handler after register(): register(resource) after unregister(resource) raised %r" % (e,))
        for cls_, mn_ in ((cls_a, "on_first"), (cls_b, late_name)):
            calls.clear()
            disp4.dispatch(*mk(cls_))
            if [c_[1] for c_ in calls] != [mn_]:
                return viol("dispatch-wrong-handler", "growing resource, registered again: dispatch(%s) invoked %r, expected %s" % (cls_.__name__, [c_[1] for c_ in calls], mn_))
        counters.inc("growing_resource_cycles")
    except D.DispatchError as e:
        return viol("dispatch-error-for-registered", "growing resource: DispatchError(%s) although its handler is registered" % (e,))
    # ---- register_function / unregister_function as inverses for every kind of callable: a function, a partial, a callable
    #      object - also one that is a container (an inbox, empty until the first delivery) or is falsy for its own reasons
    for _cycle in range(1 if r.random() < 0.5 else 0):        # (in half of the sequences)
        disp5 = D.ServerMessageDispatcher() if kind == "server" else D.ClientMessageDispatcher()
        cls_f = r.choice(list(_msg_classes()[0]))
        key_of = lambda: cls_f if r.random() < 0.5 else cls_f.__name__
        own_f = object()
        fn1, fn1_kind = _fn_handler(r, kind, calls, id(own_f), "fn_first")
        fn2, fn2_kind = _fn_handler(r, kind, calls, id(own_f), "fn_second")
        deliveries = r.choice([0, 0, 1, 2])
        trace.append("function-handler-cycle(%s, %s, %d deliveries, then %s)" % (cls_f.__name__, fn1_kind, deliveries, fn2_kind))
        try:
            disp5.register_function(key_of(), fn1)
            for _ in range(deliveries):
                calls.clear()
                args_f = mk(cls_f)
                disp5.dispatch(*args_f)
                if [c_[1] for c_ in calls] != ["fn_first"] or any(a is not b for a, b in zip(calls[0][2], args_f)):
                    return viol("dispatch-wrong-handler", "a %s given to register_function(%s): dispatch invoked %r" % (fn1_kind, cls_f.__name__, [c_[1] for c_ in calls]))
            falsy_now = not fn1
            try:
                disp5.unregister_function(key_of())
            except Exception as e:
                return viol("unregister_function-raises-registered", "unregister_function(%s) raised %r although a handler (a %s%s, after %d deliveries) is registered" % (
                    cls_f.__name__, e, fn1_kind, ", falsy at this moment" if falsy_now else "", deliveries))
            calls.clear()
            raised_f = False
            try:
                disp5.dispatch(*mk(cls_f))
            except D.DispatchError:
                raised_f = True
            if calls or not raised_f:
                return viol("dispatch-after-unregister", "a %s given to register_function(%s): after unregister_function dispatch %s" % (
                    fn1_kind, cls_f.__name__, "still invokes it" if calls else "raises nothing"))
            try:
                disp5.register_function(key_of(), fn2)
            except Exception as e:
                return viol("reregister-refused", "register_function(%s) after unregister_function raised %r" % (cls_f.__name__, e))
            calls.clear()
            disp5.dispatch(*mk(cls_f))
            if [c_[1] for c_ in calls] != ["fn_second"]:
                return viol("dispatch-wrong-handler", "a %s registered after a %s was unregistered: dispatch(%s) invoked %r" % (fn2_kind, fn1_kind, cls_f.__name__, [c_[1] for c_ in calls]))
            counters.inc("function_handler_cycles")
            if falsy_now:
                counters.inc("falsy_function_handler_cycles")
        except D.DispatchError as e:
            return viol("dispatch-error-for-registered", "a handler given to register_function(%s): DispatchError(%s) although it is registered" % (cls_f.__name__, e))
    # final sweep: probe every class
    for cls in classes:
        trace.append("final-dispatch(%s)" % cls.__name__)
        v = do_dispatch(cls)
        if v:
            return v
        if r.random() < 0.5:
            v = do_dispatch_nonmessage(cls)
            if v:
                return v
    return None


def run_shard(cfg):
    counters = Counter()
    violations = []
    distinct = set()
    samples = []
    only = cfg.get("only_case")
    n = cfg["n"]
    for case in range(n):
        key = [cfg["seed"], cfg["shard"], case]
        if only is not None and key != only:
            continue
        r = rng("C20", *key)
        kind = "server" if case % 2 == 0 else "client"
        trace = []
        v = run_case(r, kind, counters, trace)
        counters.inc("sequences")
        nontrivial = any(t.startswith("unregister") for t in trace) and any("dispatch" in t for t in trace)
        if nontrivial:
            distinct.add(h64(kind, trace))
        if len(samples) < 2:
            samples.append({"dispatcher": kind, "ops": trace[:40]})
        if v:
            v["case_key"] = key
            v["case"] = {"dispatcher": kind, "ops": list(trace)}
            if len(violations) < 50:
                violations.append(v)
    return {"evaluations": counters.get("sequences", 0), "distinct": sorted(distinct),
            "counters": dict(counters), "violations": violations, "samples": samples}


def finish(tier, seed, results):
    m = merge(results)
    inconclusive = []
    need(m["counters"], ["sole_owner_dispatch_ok", "dispatch_with_raising_handler", "reentrant_dispatches", "qualified_annotation_cycles", "dispatch_registered_ok",
                         "nonmessage_dispatch_naming_registered_class", "falsy_function_handler_cycles", "unregister_function_of_falsy_handler", "dispatch_unregistered_ok", "duplicate_register",
                         "unregister", "register"], inconclusive)
    cov = {
        "evaluations": m["evaluations"],
        "distinct_nontrivial": m["distinct_nontrivial"],
        "rule": "one evaluation = one seeded sequence of %d register/unregister/dispatch/register_function/"
                "unregister_function operations (plus a final probe of every class) over 1-4 resources x 1-5 "
                "message classes, class and string annotations, function / partial / callable-object (also falsy) handlers for "
                "register_function, dispatch of str / str-subclass / bytes / class objects that spell a message class, "
                "alternating server and client dispatcher; "
                "non-trivial = contains at least one unregister and one dispatch; distinct = distinct "
                "operation traces (hash of the trace)" % N_OPS,
        "samples": m["samples"],
        "counters": m["counters"],
    }
    return {"coverage": cov, "inconclusive": inconclusive,
            "assumptions": ["message classes are distinguished by __name__ as documented; same-named classes "
                            "from different modules are a documented limitation and are not generated",
                            "where the statement is silent (classes of a resource whose registration was refused "
                            "midway; a class held by another resource when unregister(r) is called) the model "
                            "accepts either outcome and pins it by probing"]}
