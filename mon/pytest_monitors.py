"""pytest plugin: run the repository's own test suite with the class-wide monitors on
(DESIGN 1.4: a monitor that fires there is too strict until the witness says otherwise).

usage (tools/tests_under_monitors.sh):
  cd $VERIF_REPO && PYTHONPATH=$VERIF_REPO:/verif:/verif/.deps python -m pytest -p mon.pytest_monitors ...
Writes /verif/.work/tests_under_monitors.json (counters, violations).
"""
import json
import os

from mon.core.util import Counter

STATE = {"counters": Counter(), "violations": []}


def _report(mech, msg):
    STATE["counters"].inc("viol:" + mech)
    if len(STATE["violations"]) < 50:
        STATE["violations"].append({"mechanism": mech, "msg": msg})


def pytest_configure(config):
    import mpgameserver.connection as C
    import mpgameserver.serializable as S
    import mpgameserver.http_server as H
    from mon.engines.hooks import BitFieldMonitor
    from mon.engines.lockstep import decode_datagram
    from mon.models import sergen as G
    from mon.models.ring import ring_add, ring_diff
    c = STATE["counters"]
    # --- window shadow on every BitField of every test
    STATE["bf"] = BitFieldMonitor(_report, c, sweep_every=0).install()
    # --- codec: every packet the tests encode must decode to itself (real + independent decoder)
    orig_to_bytes = C.Packet.to_bytes

    def to_bytes(pkt, key):
        out = orig_to_bytes(pkt, key)
        c.inc("packets_encoded")
        try:
            use_key = key if (key and pkt.hdr.pkt_type != C.PacketType.SERVER_HELLO) else None
            dec = decode_datagram(out, use_key)
            want = [(int(m.seq), m.type.value if len(pkt.msgs) > 1 else pkt.hdr.pkt_type.value, bytes(m.payload)) for m in pkt.msgs]
            if not dec.ok or dec.msgs != want:
                _report("codec-roundtrip", "packet %r does not decode to itself (%s)" % (pkt, dec.error))
        except Exception as e:
            _report("codec-monitor-error", repr(e))
        return out
    C.Packet.to_bytes = to_bytes
    # --- ring contracts
    for name, ref in (("__add__", lambda a, k: ring_add(a, k)), ("__sub__", lambda a, k: ring_add(a, -k))):
        orig = getattr(C.SeqNum, name)

        def wrapped(self, other, _orig=orig, _ref=ref, _name=name):
            res = _orig(self, other)
            c.inc("seqnum_ops")
            if int(self) >= 1 and isinstance(other, int) and abs(int(other)) <= 65535 and not isinstance(other, bool):
                if int(res) != _ref(int(self), int(other)) or int(res) == 0:
                    _report("ring-" + _name, "SeqNum(%d) %s %d = %d" % (self, _name, other, res))
            return res
        setattr(C.SeqNum, name, wrapped)
    # --- serializer round trip on everything the tests dump
    orig_dumpb = S.Serializable.dumpb

    def dumpb(self, **kwargs):
        b = orig_dumpb(self, **kwargs)
        c.inc("dumpb_calls")
        try:
            if type(self).deserialize is S.Serializable.deserialize:
                back = S.Serializable.loadb(b)
                if G.canon(back) != G.canon(self):
                    _report("serializer-roundtrip", "loadb(dumpb(x)) != x for %s" % type(self).__name__)
                else:
                    c.inc("dumpb_roundtrips_equal")
        except Exception as e:
            _report("serializer-roundtrip-raised", "%s: %r" % (type(self).__name__, e))
        return b
    S.Serializable.dumpb = dumpb
    # --- path_join_safe postcondition
    orig_pjs = H.path_join_safe

    def pjs(root, name):
        p = orig_pjs(root, name)
        c.inc("path_join_safe_calls")
        R = os.path.abspath(root.replace("\\", "/"))
        if os.path.commonpath([R, p]) != R:
            _report("path-escapes-root", "%r, %r -> %r" % (root, name, p))
        return p
    H.path_join_safe = pjs


def pytest_sessionfinish(session, exitstatus):
    out = os.path.join(os.environ.get("VERIF_HOME", "/verif"), ".work", "tests_under_monitors.json")
    os.makedirs(os.path.dirname(out), exist_ok=True)
    with open(out, "w") as f:
        json.dump({"exitstatus": int(exitstatus), "counters": dict(STATE["counters"]), "violations": STATE["violations"]}, f, indent=1)
