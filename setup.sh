#!/bin/bash
# Offline setup: put icontract, deal and jsonschema beside the repository's own
# interpreter (into the git-ignored /verif/.deps).  Nothing is fetched.
set -e
HERE="$(cd "$(dirname "${BASH_SOURCE[0]}")" && pwd)"
cd "$HERE"
mkdir -p .deps .work evidence replays
if [ ! -d .deps/icontract ] || [ ! -d .deps/jsonschema ] || [ ! -d .deps/deal ]; then
    PIP_NO_INDEX=1 /venv/bin/pip install --quiet --no-index \
        --find-links /opt/veriftools/wheels --target "$HERE/.deps" \
        --upgrade icontract deal jsonschema
fi
echo "setup ok"
