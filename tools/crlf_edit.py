#!/usr/bin/env python3
"""Binary-safe search/replace for the CRLF sources of /repo.
usage: crlf_edit.py FILE <<< json [[old,new],...]   (old/new written with \n; converted to \r\n)"""
import json, sys
path = sys.argv[1]
pairs = json.load(sys.stdin)
data = open(path, 'rb').read()
crlf = b'\r\n' in data
for old, new in pairs:
    o = old.encode(); n = new.encode()
    if crlf:
        o = o.replace(b'\n', b'\r\n'); n = n.replace(b'\n', b'\r\n')
    if data.count(o) != 1:
        sys.exit("pattern occurs %d times: %r" % (data.count(o), old[:60]))
    data = data.replace(o, n)
open(path, 'wb').write(data)
