#!/usr/bin/env python3
"""Regenerates /verif/MANIFEST.json from the table below (kept in one place so the
manifest is always valid and in step with the checks that exist)."""
import json
import os
import sys

HERE = os.path.dirname(os.path.dirname(os.path.abspath(__file__)))

CHECKS = {
    # id: (level, technique, engine, level text, level note, design ref)
    "C20": ("exploration",
            "model-based runtime monitor: seeded operation sequences against a reference dict, oracle at the dispatch boundary",
            "contracts",
            "Runs the real Server/ClientMessageDispatcher through thousands of seeded register/unregister/dispatch "
            "sequences and compares, after every operation, which handler ran, with which argument objects and what "
            "was raised against a reference dict. Exploration of histories, not a proof; the history space is small "
            "(<=4 resources x <=5 classes) so thousands of distinct sequences cover every operation pair many times.",
            "Trusted: the reference model (a dict) and the harness's handler log. Histories outside the generator "
            "(more resources/classes, same-named classes from different modules) are not covered.",
            "DESIGN.md section 3 / C20"),
}

CHECKS["C19"] = ("exploration",
    "runtime contract + differential oracle: real hash/verify on a password corpus; systematic corruptions of valid hash strings judged by a reference record parser and reference scrypt",
    "contracts",
    "Calls the real Auth.hash_password/verify_password on a password corpus with near neighbours (real scrypt cost) and on "
    "tens of thousands of corruptions (every truncation position, field removal, base64 damage at every position, parameter "
    "grids, random edits) of valid hash strings built with cheap parameters; each outcome is judged by a reference parser/KDF. "
    "Sampling of an infinite input space, with the stated corruption classes enumerated systematically per base hash.",
    "Trusted: cryptography's scrypt, hashlib, base64. Passwords/corruptions outside the generators are not covered; "
    "cost-raising parameter edits (N>2048) are not generated.",
    "DESIGN.md section 3 / C19")

CHECKS["C17"] = ("exploration",
    "postcondition monitor on the real function over an exhaustively enumerated adversarial name alphabet, random unicode and router-captured names",
    "contracts",
    "Every call of the real path_join_safe is judged by the postcondition (ValueError, or an absolute normalized path with "
    "commonpath(root, p) == root). The adversarial alphabet (dot/dot-dot/empty/drive-like segments x both separators x absolute "
    "prefixes) is enumerated completely up to 4 (quick) / 6 (thorough) segments for 8 roots; random unicode and names captured "
    "by the real Router from URLs are sampled on top. Exhaustive inside the stated bound, sampling outside it.",
    "Trusted: os.path of this (POSIX) platform as the judge of containment. Windows drive semantics are not observable here.",
    "DESIGN.md section 3 / C17")

CHECKS["C16"] = ("exploration",
    "postcondition monitor on Router.getRoute/dispatch against a reference segment matcher; bounded grammar enumerated exhaustively",
    "contracts",
    "Every (pattern, path) pair of the bounded documented grammar (patterns <=3/4 segments, paths <=4/5 segments over an alphabet "
    "with prefixes/extensions of literals, regex metacharacters, empty segments, trailing slashes) is sent through the real "
    "Router.getRoute and judged by a reference matcher written on path segments; seeded multi-route tables check first-match, "
    "method separation and dispatch's 404. Exhaustive inside the bound (marked so), nothing claimed outside it.",
    "Trusted: the reference matcher (40 lines, written from the documentation). Empty segments in ?/+/* positions are "
    "unspecified and not judged.",
    "DESIGN.md section 3 / C16")

CHECKS["C18"] = ("exploration",
    "differential runtime monitor: library frame writer/reader against a reference RFC 6455 codec; reference-encoded client streams cut into reads and fed through the real HTTP channel and handler, delivery log compared",
    "contracts",
    "The library's frame writer and reader are compared byte for byte with the monitor's RFC 6455 codec for every opcode, mask flag "
    "and length around all encoding boundaries (thorough: every length 0..70000). Streams of reference-encoded masked client frames "
    "are cut into TCP reads (all cut sets for short streams; byte-wise, header/length/mask/payload offsets, several frames per read, "
    "random cuts otherwise) and fed through the real HTTPFactory channel after a real upgrade request and directly into the handler; "
    "the endpoint's event log must equal the sent sequence. Exhaustive in length (thorough) and in cut sets of short streams; sampled elsewhere.",
    "Trusted: the reference codec; twisted's StringTransport. Continuation frames are outside the library's API and not generated.",
    "DESIGN.md section 3 / C18")

def _c(pid, level, technique, engine, text, note):
    CHECKS[pid] = (level, technique, engine, text, note, "DESIGN.md section 2/3, %s" % pid)


_c("C01", "fault_enumeration",
   "runtime monitor: semantic-state snapshot before/after every _recv_datagram under an adversary injecting enumerated forgery classes into live sessions",
   "lockstep",
   "Real client and real server loop exchange traffic in virtual time while an adversary presents, phase by phase (pre-key client, new "
   "address, established, pending sends, other session, disconnected) and to both roles, every forgery class: forged CRC datagrams for all "
   "types x counts x inner types, all single-bit flips and truncations of genuine datagrams, header rewrites with/without CRC, wrong-key and "
   "cross-session ciphertext, reflections, random bytes. The oracle compares the protected state around every receive; genuine datagrams are "
   "the positive control. Fault classes are enumerated and counted per class/phase/role; inputs inside a class are sampled.",
   "Trusted: AES-GCM, the monitor's prefix rule for authenticity, the snapshot covering exactly the state the statement names.")
_c("C02", "fault_enumeration",
   "runtime monitor: thousands of real handshakes under an on-path attacker; wrappers on the root key's sign() and crypto.ecdh_client, independent ECDSA verification, proof-of-key check at every promotion",
   "lockstep",
   "Every byte position of the three handshake datagrams is mutated (3 ways, CRC recomputed) in its own real handshake; structured "
   "substitutions of token/salt/ephemeral key/signature/root key, re-signing, cross-session replay, wrong challenges, duplication/loss of each "
   "datagram are enumerated. A pinned client that ends keyed must have used parameters in the set the honest root key signed, and the hello it "
   "consumed must verify independently; every server promotion must be backed by a datagram that opens under that connection's key to a "
   "challenge with its token.",
   "Trusted: ECDSA/ECDH/HKDF of the cryptography package. Cross-session replay of a genuinely signed hello is not counted as forgery.")
_c("C03", "exploration",
   "offline/online checker over the wire tap: independent AES-GCM open of every emitted datagram, per-key nonce set, plaintext scan; workloads constructed to make a broken nonce collide",
   "lockstep",
   "Every datagram handed to a socket is opened by the monitor itself (nonce = bytes 0..11, AAD = the 20-byte header) and its nonce entered "
   "into the per-key set; workloads freeze the ack field (silent peer) across the 16-bit wrap, burst within one second, and mirror the "
   "counters of the two directions so that only the direction magic separates nonces. Exploration of histories; full wraps in thorough.",
   "Assumes a non-decreasing clock and the protocol's rate cap. A collision that needs >3 wraps within one clock second is out of reach.")
_c("C04", "fault_enumeration",
   "history checker over the delivery log (unique payload ids) plus before/after snapshots around every duplicate receive, under duplication, reordering and an adversary replaying recorded datagrams at three distances",
   "lockstep",
   "Each delivery is matched to its send; a copy of an accepted datagram must be rejected, counted as dropped and leave the state unchanged. "
   "Fault classes (network duplicates, reordering, ack loss racing retransmissions, replays right away / beyond the 32-window / beyond both "
   "windows, message bursts moving the 256-message window) are enumerated and counted.",
   "One open finding (retransmission older than the 256-message window) is reported as KNOWN-FINDING; see known_findings.json.")
_c("C05", "fault_enumeration",
   "bounded-progress monitor: guaranteed sends from all four API entry points, every boundary length per MTU, targeted and random faults, then a healed network; delivery log checked at quiescence or a virtual-time horizon",
   "lockstep",
   "Liveness is restated as: delivered within 45 virtual seconds after the network heals while the connection is open. Lengths around every "
   "boundary are enumerated per MTU for client/server x send/send_guaranteed; targeted loss of the k-th carrying datagram and of acks plus "
   "seeded profiles (lossy, dup, reorder, slow, very slow, one-way) are enumerated. Undelivered messages are classified by where they are stuck.",
   "An unbounded 'eventually' cannot be decided by a finite run; the horizon is 40 retry rounds. Two open findings (F1 reassembly context purged by age; F3 client-reads-one-datagram-per-update livelock), reported as KNOWN-FINDING; see known_findings.json.")
_c("C06", "exploration",
   "history checker: delivered payloads byte-identical to sent ones (ids in payloads); wire-shape monitor on fragments (monitor's own decoder); all arrival orders of small fragment sets",
   "lockstep",
   "Boundary lengths x retry modes x content classes (incl. content crafted to look like fragment headers of a message in flight) per MTU over "
   "a lossy/duplicating/reordering network; every arrival order of 2..5 fragments with a duplicate; refusal above the fragmentation limit; "
   "reassembly contexts matched against messages in flight.",
   "The payload of exactly the limit (8 MiB) is sent in the thorough tier only.")
_c("C07", "fault_enumeration",
   "online reference resolution model compared with wrappers on _handle_ack/_handle_timeout; callback log checked for truthfulness and exactly-once at quiescence; adversary injecting stale, forged and rewritten ack fields",
   "lockstep",
   "Every datagram emitted is tracked until the real code resolves it; the model says acked iff an accepted inbound datagram names it, "
   "timed out within [timeout, timeout + send interval + 2 ticks] otherwise. Callbacks of retry-NONE and guaranteed sends are counted at "
   "quiescence. Fault classes as in C05 plus stale replays and forged/rewritten ack fields.",
   "Timing slack of one send interval + two ticks. Two open findings (consequences of the C05 findings F1 and F3).")
_c("C08", "exploration",
   "contracts against integer ring arithmetic (all values x boundary offsets); class-wide shadow model of BitField; ack fields of every emitted header compared with the monitor's acceptance record",
   "contracts+lockstep",
   "Ring: every value (thorough) x offsets near 0 and near half the ring for + - diff newer_than < >. Window: seeded histories for widths "
   "8..256 judged after every insert (current, every bit, contains over the whole window, duplicate flag). Wire: lockstep sessions where every "
   "header's ack/ack_bits must equal what the endpoint accepted among the newest 32.",
   "Numbers presented to a window stay within half the ring, as the statement requires.")
_c("C09", "exploration",
   "wrapper on Packet.to_bytes decoding every packet with the real and an independent decoder; per-MTU worlds with queue snapshots around _build_packet_impl (first-fit maximality), MTU bound at the socket, conservation of accepted messages",
   "lockstep",
   "Generated header extremes x counts {0,1,2,3,255} x CRC/AES plus all live traffic for the codec; one world per MTU (quick 12, thorough "
   "every MTU 512..1500) with floods of 254-400 tiny messages, boundary sizes and exact-fit pairs for packing. Exhaustive in MTU (thorough), "
   "sampled in send sequences.",
   "Maximality is judged for messages waiting in the send queue; resends not yet due are not counted.")

_c("C10", "exploration",
   "offline checker of the handler event log against a per-client lifecycle automaton; lockstep worlds with seeded client/server/hostile actions, seeded handler exceptions and a replayed token byte source",
   "lockstep",
   "The real server loop serves up to 40 client addresses that connect, send, disconnect, go silent and reconnect from the same address while "
   "connected; the handler disconnects clients from inside connect/message/update and raises (seeded) in every event type; hostile datagrams "
   "arrive in between; shutdown at a seeded tick; token draws repeat live tokens. Every connect/message/disconnect event is judged: connect "
   "once with proof of key, only that client's messages, disconnect once, distinct tokens, one thread, flow after exceptions.",
   "Lockstep alternation makes the event order deterministic; real concurrency on the entry point is covered in C11's free-running mode.")
_c("C11", "fault_enumeration",
   "runtime monitors at the socket boundary (per-address byte accounting, block-list, half-open table bound, echo latency of an honest client, loop liveness) under enumerated hostile input classes; free-running mode with real producer threads for queue conservation",
   "lockstep",
   "Each tick 1-12 hostile datagrams enter the real datagramReceived: random bytes of every length 0..RECV_SIZE, valid headers with "
   "garbage/truncated/oversized bodies, hello floods with repeats, undersized hellos, block-listed sources, spoofing from the honest client's "
   "address, floods by an authenticated rogue client; several block lists and MTUs. A second mode runs the real loop freely against 6 "
   "producer threads with a 1 us switch interval and checks appended == consumed.",
   "Echo bound is logical (60 ticks). Free-running verdicts use schedule-independent invariants only.")
_c("C12", "exploration",
   "virtual-time timing monitor: emission gaps, status changes, handler disconnect events and callbacks measured per seeded configuration and setter order",
   "lockstep",
   "One world per configuration (keep-alive intervals, connection/connect/message timeouts, tick length with jitter, every order of the client "
   "setters relative to connect, idle up to 10 virtual minutes, link cut at a seeded instant): K1 gap bound, K2 idle survival, K3 detection "
   "windows on both sides, K4 unanswered connect with and without callback, K5 setters return and take effect.",
   "Timing slack: one tick (K1), two ticks (K3/K4). 'Indefinitely' is explored up to 10 virtual minutes.")

_c("C13", "exploration",
   "round-trip contract on the real serialize_value/deserialize_value/dumpb/loadb with an exact-type canonical form, stream-position and concatenation checks; out-of-domain values must be refused",
   "contracts",
   "Tens of thousands (thorough: millions) of recursively generated, boundary-biased values of the supported grammar incl. generated user "
   "classes and enums are encoded and decoded by the real functions; equality is judged on a canonical form that distinguishes bool/int, "
   "keeps NaN/inf/-0.0 at float32 precision and compares objects field by field; encodings are also concatenated. A list of out-of-domain "
   "values must raise or round-trip exactly.",
   "Sampling of an infinite input space; depth <= 6, containers <= 300 elements, strings <= 70000 characters in the generator.")
_c("C14", "exploration",
   "resource-metered execution of the decoder on hostile inputs: activation counter on deserialize_value, tracemalloc peak per input, result-type walk, wall-clock watchdog (inconclusive only)",
   "contracts",
   "Each hostile input (declared-length attacks in every integer width, nesting to depth 50000, wide collections, unhashable keys, "
   "truncations and bit flips of valid encodings and of real handshake messages, every registered type id with random bodies, random bytes) "
   "is decoded by Serializable.loadb and by the real handshake handlers and Request.message(); the logical bounds (activations <= len/2+1, "
   "peak allocation <= 32 KiB + 512 B/byte) decide, not wall-clock.",
   "The allocation constant was sized on the unchanged tree (worst observed ~217 B per input byte, from RecursionError tracebacks).")
_c("C15", "exploration",
   "round-trip contract on toJson/fromJson/dumps/loads for generated classes covering every documented annotation shape",
   "contracts",
   "Generated Serializable classes with 3-9 fields of the documented shapes (basic, nested object, enum, List/Set/Tuple/Dict with int/str/enum "
   "keys) and values of the annotated types incl. empty containers, None for container fields, huge ints, NaN/inf, unicode; json.dumps must "
   "accept toJson and both round trips must reproduce the object field for field with exact types.",
   "Only the documented shapes are generated (one level of generics, upper-case enum names, no bytes fields).")

NOT_YET = {}


def main():
    props = []
    with open(os.path.join(HERE, "properties.jsonl")) as f:
        for line in f:
            line = line.strip()
            if line:
                props.append(json.loads(line)["id"])
    checks = []
    na = []
    for pid in props:
        if pid in CHECKS and os.path.exists(os.path.join(HERE, "mon", "props", pid.lower() + ".py")):
            level, technique, engine, text, note, ref = CHECKS[pid]
            checks.append({
                "property_id": pid,
                "quick_cmd": "./check %s --tier quick" % pid,
                "thorough_cmd": "./check %s --tier thorough" % pid,
                "evidence_file": "evidence/%s.json" % pid,
                "replay_cmd_template": "./check %s --replay {path}" % pid,
                "engine": engine,
                "level_claimed": {"category": level, "text": text, "design_ref": ref},
                "level_note": note,
                "technique": technique,
            })
        else:
            na.append({"property_id": pid,
                       "reason": NOT_YET.get(pid, "check not built yet (work in progress; runtime monitoring applies - see DESIGN.md)")})
    doc = {
        "version": 1,
        "setup_cmd": "bash setup.sh",
        "hooks": {
            "guard": "MPGS_VERIF",
            "enable": "no source hooks: every monitor is installed from the harness at run time (method wrappers, "
                      "module-level time/select/os shims); ./check exports MPGS_VERIF=1 for uniformity",
            "baseline_off_cmd": "cd /repo && env -u MPGS_VERIF /venv/bin/python -m pytest -q -p no:cacheprovider --timeout=900",
            "source_commits": [],
            "add_only": True,
        },
        "engines": [
            {"name": "contracts", "path": "mon/props", "serves_properties":
                ["C08", "C13", "C14", "C15", "C16", "C17", "C18", "C19", "C20"],
             "kind_free_text": "pre/postconditions and reference-model monitors on the real pure functions, driven by seeded boundary-biased generators"},
            {"name": "pair", "path": "mon/engines/pair.py", "serves_properties":
                ["C01", "C02", "C03", "C04", "C05", "C06", "C07", "C08", "C09", "C12"],
             "kind_free_text": "real UdpClient (mock socket) against a real ServerClientConnection over a simulated lossy network in virtual time; wire tap + offline checkers"},
            {"name": "lockstep", "path": "mon/engines/lockstep.py", "serves_properties": ["C01", "C02", "C10", "C11", "C12"],
             "kind_free_text": "the real UdpServerThread.run() behind the real TwistedServer.datagramReceived, stepped tick by tick in virtual time, plus a free-running mode with producer threads"},
        ],
        "checks": checks,
        "not_applicable": na,
        "notes": "All checks are runtime monitors over executions of the real code (see DESIGN.md). Exit 2 means inconclusive (never folded into held).",
    }
    with open(os.path.join(HERE, "MANIFEST.json"), "w") as f:
        json.dump(doc, f, indent=1)
        f.write("\n")
    try:
        sys.path.insert(0, os.path.join(HERE, ".deps"))
        import jsonschema
        jsonschema.validate(doc, json.load(open("/root/.vp/MANIFEST.schema.json")))
        print("MANIFEST.json valid: %d checks, %d not_applicable" % (len(checks), len(na)))
    except ImportError:
        print("written (jsonschema unavailable, not validated)")


if __name__ == "__main__":
    main()
