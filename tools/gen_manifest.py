#!/usr/bin/env python3
"""Regenerates /verif/MANIFEST.json from the table below (kept in one place so the
manifest is always valid and in step with the checks that exist)."""
import json
import os
import sys

HERE = os.path.dirname(os.path.dirname(os.path.abspath(__file__)))

CHECKS = {
    # id: (level, technique, engine, level text, level note, design ref)
    "C20": ("exploration",
            "model-based runtime monitor: seeded operation sequences against a reference dict, oracle at the dispatch boundary",
            "contracts",
            "Runs the real Server/ClientMessageDispatcher through thousands of seeded register/unregister/dispatch "
            "sequences and compares, after every operation, which handler ran, with which argument objects and what "
            "was raised against a reference dict. Exploration of histories, not a proof; the history space is small "
            "(<=4 resources x <=5 classes) so thousands of distinct sequences cover every operation pair many times.",
            "Trusted: the reference model (a dict) and the harness's handler log. Histories outside the generator "
            "(more resources/classes, same-named classes from different modules) are not covered.",
            "DESIGN.md section 3 / C20"),
}

CHECKS["C19"] = ("exploration",
    "runtime contract + differential oracle: real hash/verify on a password corpus; systematic corruptions of valid hash strings judged by a reference record parser and reference scrypt",
    "contracts",
    "Calls the real Auth.hash_password/verify_password on a password corpus with near neighbours (real scrypt cost) and on "
    "tens of thousands of corruptions (every truncation position, field removal, base64 damage at every position, parameter "
    "grids, random edits) of valid hash strings built with cheap parameters; each outcome is judged by a reference parser/KDF. "
    "Sampling of an infinite input space, with the stated corruption classes enumerated systematically per base hash.",
    "Trusted: cryptography's scrypt, hashlib, base64. Passwords/corruptions outside the generators are not covered; "
    "cost-raising parameter edits (N>2048) are not generated.",
    "DESIGN.md section 3 / C19")

CHECKS["C17"] = ("exploration",
    "postcondition monitor on the real function over an exhaustively enumerated adversarial name alphabet, random unicode and router-captured names",
    "contracts",
    "Every call of the real path_join_safe is judged by the postcondition (ValueError, or an absolute normalized path with "
    "commonpath(root, p) == root). The adversarial alphabet (dot/dot-dot/empty/drive-like segments x both separators x absolute "
    "prefixes) is enumerated completely up to 4 (quick) / 6 (thorough) segments for 8 roots; random unicode and names captured "
    "by the real Router from URLs are sampled on top. Exhaustive inside the stated bound, sampling outside it.",
    "Trusted: os.path of this (POSIX) platform as the judge of containment. Windows drive semantics are not observable here.",
    "DESIGN.md section 3 / C17")

CHECKS["C16"] = ("exploration",
    "postcondition monitor on Router.getRoute/dispatch against a reference segment matcher; bounded grammar enumerated exhaustively",
    "contracts",
    "Every (pattern, path) pair of the bounded documented grammar (patterns <=3/4 segments, paths <=4/5 segments over an alphabet "
    "with prefixes/extensions of literals, regex metacharacters, empty segments, trailing slashes) is sent through the real "
    "Router.getRoute and judged by a reference matcher written on path segments; seeded multi-route tables check first-match, "
    "method separation and dispatch's 404. Exhaustive inside the bound (marked so), nothing claimed outside it.",
    "Trusted: the reference matcher (40 lines, written from the documentation). Empty segments in ?/+/* positions are "
    "unspecified and not judged.",
    "DESIGN.md section 3 / C16")

CHECKS["C18"] = ("exploration",
    "differential runtime monitor: library frame writer/reader against a reference RFC 6455 codec; reference-encoded client streams cut into reads and fed through the real HTTP channel and handler, delivery log compared",
    "contracts",
    "The library's frame writer and reader are compared byte for byte with the monitor's RFC 6455 codec for every opcode, mask flag "
    "and length around all encoding boundaries (thorough: every length 0..70000). Streams of reference-encoded masked client frames "
    "are cut into TCP reads (all cut sets for short streams; byte-wise, header/length/mask/payload offsets, several frames per read, "
    "random cuts otherwise) and fed through the real HTTPFactory channel after a real upgrade request and directly into the handler; "
    "the endpoint's event log must equal the sent sequence. Exhaustive in length (thorough) and in cut sets of short streams; sampled elsewhere.",
    "Trusted: the reference codec; twisted's StringTransport. Continuation frames are outside the library's API and not generated.",
    "DESIGN.md section 3 / C18")

NOT_YET = {}


def main():
    props = []
    with open(os.path.join(HERE, "properties.jsonl")) as f:
        for line in f:
            line = line.strip()
            if line:
                props.append(json.loads(line)["id"])
    checks = []
    na = []
    for pid in props:
        if pid in CHECKS and os.path.exists(os.path.join(HERE, "mon", "props", pid.lower() + ".py")):
            level, technique, engine, text, note, ref = CHECKS[pid]
            checks.append({
                "property_id": pid,
                "quick_cmd": "./check %s --tier quick" % pid,
                "thorough_cmd": "./check %s --tier thorough" % pid,
                "evidence_file": "evidence/%s.json" % pid,
                "replay_cmd_template": "./check %s --replay {path}" % pid,
                "engine": engine,
                "level_claimed": {"category": level, "text": text, "design_ref": ref},
                "level_note": note,
                "technique": technique,
            })
        else:
            na.append({"property_id": pid,
                       "reason": NOT_YET.get(pid, "check not built yet (work in progress; runtime monitoring applies - see DESIGN.md)")})
    doc = {
        "version": 1,
        "setup_cmd": "bash setup.sh",
        "hooks": {
            "guard": "MPGS_VERIF",
            "enable": "no source hooks: every monitor is installed from the harness at run time (method wrappers, "
                      "module-level time/select/os shims); ./check exports MPGS_VERIF=1 for uniformity",
            "baseline_off_cmd": "cd /repo && env -u MPGS_VERIF /venv/bin/python -m pytest -q -p no:cacheprovider --timeout=900",
            "source_commits": [],
            "add_only": True,
        },
        "engines": [
            {"name": "contracts", "path": "mon/props", "serves_properties":
                ["C08", "C13", "C14", "C15", "C16", "C17", "C18", "C19", "C20"],
             "kind_free_text": "pre/postconditions and reference-model monitors on the real pure functions, driven by seeded boundary-biased generators"},
            {"name": "pair", "path": "mon/engines/pair.py", "serves_properties":
                ["C01", "C02", "C03", "C04", "C05", "C06", "C07", "C08", "C09", "C12"],
             "kind_free_text": "real UdpClient (mock socket) against a real ServerClientConnection over a simulated lossy network in virtual time; wire tap + offline checkers"},
            {"name": "lockstep", "path": "mon/engines/lockstep.py", "serves_properties": ["C01", "C02", "C10", "C11", "C12"],
             "kind_free_text": "the real UdpServerThread.run() behind the real TwistedServer.datagramReceived, stepped tick by tick in virtual time, plus a free-running mode with producer threads"},
        ],
        "checks": checks,
        "not_applicable": na,
        "notes": "All checks are runtime monitors over executions of the real code (see DESIGN.md). Exit 2 means inconclusive (never folded into held).",
    }
    with open(os.path.join(HERE, "MANIFEST.json"), "w") as f:
        json.dump(doc, f, indent=1)
        f.write("\n")
    try:
        sys.path.insert(0, os.path.join(HERE, ".deps"))
        import jsonschema
        jsonschema.validate(doc, json.load(open("/root/.vp/MANIFEST.schema.json")))
        print("MANIFEST.json valid: %d checks, %d not_applicable" % (len(checks), len(na)))
    except ImportError:
        print("written (jsonschema unavailable, not validated)")


if __name__ == "__main__":
    main()
