#!/usr/bin/env python3
"""Verify a seeded change produced by a sub-agent and keep it under /verif/seeded/<name>/.

usage: tools/import_seed.py <agent worktree> <index> <name>

Verification (in a fresh scratch worktree of /repo HEAD under /var/tmp, removed afterwards):
  clean tree: demo exits 0;  patched tree: patch applies, only intended files change, the
  repository's test suite passes (serialised with flock), demo exits non-zero.
"""
import json
import os
import shutil
import subprocess
import sys
import tempfile

HERE = os.path.dirname(os.path.dirname(os.path.abspath(__file__)))
TEST = "flock /tmp/mpgs_test.lock env PYTHONPATH={t} /venv/bin/python -m pytest -q -p no:cacheprovider --timeout=900"


def sh(cmd, cwd=None, timeout=900):
    r = subprocess.run(cmd, shell=True, cwd=cwd, stdout=subprocess.PIPE, stderr=subprocess.STDOUT, text=True, timeout=timeout)
    return r.returncode, r.stdout


def main():
    wt, idx, name = sys.argv[1:4]
    src = os.path.join(wt, "_seed", idx)
    for f in ("patch.diff", "demo.py", "meta.json"):
        if not os.path.exists(os.path.join(src, f)):
            print("missing", f)
            return 2
    scratch = tempfile.mkdtemp(prefix="mpgs_imp_", dir="/var/tmp")
    os.rmdir(scratch)
    out = {}
    try:
        rc, o = sh("git -C /repo worktree add -q --detach %s HEAD" % scratch)
        assert rc == 0, o
        demo = os.path.join(src, "demo.py")
        rc, o = sh("env PYTHONPATH=%s /venv/bin/python -B %s" % (scratch, demo), cwd=scratch, timeout=300)
        out["demo_clean_exit"] = rc
        rc, o = sh("git -C %s apply %s" % (scratch, os.path.join(src, "patch.diff")))
        out["patch_applies"] = rc == 0
        if rc:
            print("patch does not apply:", o[-400:])
        rc, o = sh("git -C %s diff --stat" % scratch)
        out["diffstat"] = o.strip().splitlines()[-1] if o.strip() else ""
        for attempt in range(5):
            # the suite has real-time tests that fail spuriously on a loaded machine: a pass within five runs counts
            rc, o = sh(TEST.format(t=scratch), cwd=scratch)
            out["test_runs"] = attempt + 1
            if rc == 0:
                break
        out["tests_tail"] = o.strip().splitlines()[-1][:120] if o.strip() else ""
        out["tests_pass"] = rc == 0 and " passed" in out["tests_tail"] and "failed" not in out["tests_tail"]
        rc, o = sh("env PYTHONPATH=%s /venv/bin/python -B %s" % (scratch, demo), cwd=scratch, timeout=300)
        out["demo_patched_exit"] = rc
        out["demo_patched_output_tail"] = o.strip()[-300:]
    finally:
        sh("git -C /repo worktree remove --force %s" % scratch)
        shutil.rmtree(scratch, ignore_errors=True)
    ok = out.get("demo_clean_exit") == 0 and out.get("patch_applies") and out.get("tests_pass") and out.get("demo_patched_exit", 0) != 0
    print(json.dumps(out, indent=1))
    if not ok:
        print("NOT KEPT")
        return 1
    dst = os.path.join(HERE, "seeded", name)
    os.makedirs(dst, exist_ok=True)
    for f in ("patch.diff", "demo.py"):
        shutil.copy(os.path.join(src, f), os.path.join(dst, f))
    meta = json.load(open(os.path.join(src, "meta.json")))
    meta["origin"] = "independent sub-agent given only the property text and a scratch worktree"
    meta["verified_by_import"] = {"ran": ["clean tree: demo.py -> exit 0", "git apply patch.diff on a fresh worktree of /repo HEAD",
                                          "repository test suite on the patched tree: %s" % out["tests_tail"],
                                          "patched tree: demo.py -> exit %s" % out["demo_patched_exit"]], "diffstat": out["diffstat"]}
    json.dump(meta, open(os.path.join(dst, "meta.json"), "w"), indent=1)
    print("KEPT as", dst)
    return 0


if __name__ == "__main__":
    sys.exit(main())
