#!/usr/bin/env python3
"""Own self-test mutants (monitor liveness): small edits applied to a scratch worktree of /repo HEAD, stored as
/verif/selftest/<name>/{patch.diff,meta.json}.  Each names the property and the monitor that is expected to fire.
They complement /verif/seeded (independent sub-agents): these aim at monitors no seeded change has exercised.
Re-run this tool after /repo changes: patches are regenerated from the edit specifications below."""
import json
import os
import shutil
import subprocess
import sys
import tempfile

HERE = os.path.dirname(os.path.dirname(os.path.abspath(__file__)))
OUT = os.path.join(HERE, "selftest")

# name: (property, file, [(old, new), ...], expectation)
M = {
 "c09-packer-stops-at-first-misfit": ("C09", "mpgameserver/connection.py", [(
    "                current_msg_length += len(pending.payload)\n            else:\n                idx += 1\n",
    "                current_msg_length += len(pending.payload)\n            else:\n                break\n")],
    "first-fit becomes first-run: a small message behind a large one is left waiting (maximality)"),
 "c11-half-open-sends-keep-alives": ("C11", "mpgameserver/connection.py", [(
    "            if send_keep_alive and self.status == ConnectionStatus.CONNECTED:\n",
    "            if send_keep_alive:\n")],
    "temp connections emit keep-alives: bytes_out > bytes_in for an address that never completed the handshake"),
 "c10-shutdown-skips-disconnect": ("C10", "mpgameserver/server.py", [(
    "        for client in list(self.ctxt.connections.values()):\n            try:\n                self.ctxt.onDisconnect(client)\n            except Exception as e:\n                client.log.exception(\"unhandled error during client disconnect\")\n            del self.ctxt.connections[client.addr]\n\n        try:\n            self.ctxt.handler.shutdown()",
    "        for client in list(self.ctxt.connections.values())[1:]:\n            try:\n                self.ctxt.onDisconnect(client)\n            except Exception as e:\n                client.log.exception(\"unhandled error during client disconnect\")\n            del self.ctxt.connections[client.addr]\n\n        try:\n            self.ctxt.handler.shutdown()")],
    "one connected client gets no disconnect at shutdown"),
 "c10-update-exception-kills-loop": ("C10", "mpgameserver/server.py", [(
    "            try:\n                self.ctxt.handler.update(tick_time)\n            except Exception as e:\n                self.ctxt.log.exception(\"unhandled error during handler update\")\n",
    "            self.ctxt.handler.update(tick_time)\n")],
    "a handler exception in update() ends the server thread"),
 "c07-timeout-one-tick-early": ("C07", "mpgameserver/connection.py", [(
    "            if t0 - self.pending_acks[seqnum] >= self.outgoing_timeout:\n                self._handle_timeout(seqnum)\n",
    "            if t0 - self.pending_acks[seqnum] >= self.outgoing_timeout * 0.9:\n                self._handle_timeout(seqnum)\n")],
    "client-side timeouts fire at 90% of the message timeout (timeout-too-early / failure-before-timeout)"),
 "c08-ack-bits-shifted": ("C08", "mpgameserver/connection.py", [(
    "            self.seq_sending, self.bitfield_pkt.current_seqnum,\n            self.bitfield_pkt.bits)\n",
    "            self.seq_sending, self.bitfield_pkt.current_seqnum,\n            self.bitfield_pkt.bits >> 1)\n")],
    "emitted ack bitmap names the wrong datagrams"),
 "c06-fragments-at-maxp": ("C06", "mpgameserver/connection.py", [(
    "        if len(payload) > Packet.MAX_PAYLOAD_SIZE:\n            # fragmented messages use different retry logic\n",
    "        if len(payload) >= Packet.MAX_PAYLOAD_SIZE - 1:\n            # fragmented messages use different retry logic\n")],
    "payloads of MAXP-1 and MAXP bytes are fragmented although they fit one datagram"),
 "c04-duplicate-counted-but-acks-processed": ("C04", "mpgameserver/connection.py", [(
    "        except DuplicationError:\n            self.stats.dropped += 1\n            return False\n\n        self.stats.received += 1\n",
    "        except DuplicationError:\n            self.stats.dropped += 1\n            self.last_recv_time = self.clock()\n            return False\n\n        self.stats.received += 1\n")],
    "a duplicate datagram refreshes the liveness clock (duplicate-has-effect)"),
 "c12-server-uses-temp-timeout": ("C12", "mpgameserver/server.py", [(
    "                    if client.status == ConnectionStatus.DISCONNECTED or client.timedout(self.ctxt.connection_timeout):\n",
    "                    if client.status == ConnectionStatus.DISCONNECTED or client.timedout(max(self.ctxt.connection_timeout, 5.0)):\n")],
    "connection timeouts below 5 s are not honoured by the server (server-timeout-window)"),
 "c05-retry-gives-up": ("C05", "mpgameserver/connection.py", [(
    "        self.done = False\n\n    def __call__(self, success):\n",
    "        self.done = False\n        self.attempts = 0\n\n    def __call__(self, success):\n        self.attempts += 1\n        if self.attempts > 3:\n            return\n")],
    "a guaranteed message is abandoned after three timeouts"),
 "c03-keep-alive-reuses-seq": ("C03", "mpgameserver/connection.py", [(
    "        self.seq_sending += 1\n        self.pending_acks[self.seq_sending] = current_time\n",
    "        if pkt_type != PacketType.KEEP_ALIVE:\n            self.seq_sending += 1\n        self.pending_acks[self.seq_sending] = current_time\n")],
    "keep-alives do not advance the sequence number: same (time, seq, ack) twice within a second"),
 "c16-last-match-wins": ("C16", "mpgameserver/http_server.py", [(
    "        for re_ptn, tokens, endpt in self.route_table[method]:\n",
    "        for re_ptn, tokens, endpt in reversed(self.route_table[method]):\n")],
    "the last registered matching route is chosen"),
 "c13-int8-boundary": ("C13", "mpgameserver/serializable.py", [(
    "    elif a > 0x7F:\n", "    elif a > 0x80:\n")],
    "128 is packed as int8 (struct.error -> ValueError for an in-domain value)"),
 "c14-map-length-unchecked": ("C14", "mpgameserver/serializable.py", [(
    "    if length > MAX_ARRAY_LENGTH:\n        raise ValueError(\"map length too large: %d\" % length)\n\n    obj = {}\n    for i in range(length):\n        k = deserialize_value(stream, **kwargs)\n",
    "    obj = {}\n    for i in range(length):\n        try:\n            k = deserialize_value(stream, **kwargs)\n        except SerializableHeaderError:\n            k = i\n            obj[k] = None\n            continue\n")],
    "a declared map length is iterated without bound and without input"),
 "c17-single-dot-allowed": ("C17", "mpgameserver/http_server.py", [(
    "    if os.path.commonpath([root_directory, path]) != root_directory:\n        raise ValueError(\"invalid path\")\n",
    "    if not path.startswith(root_directory):\n        raise ValueError(\"invalid path\")\n")],
    "string-prefix containment instead of path containment"),
 "c19-fixed-salt": ("C19", "mpgameserver/auth.py", [(
    "        salt = os.urandom(Auth.SALT_LENGTH)\n", "        salt = b\"\\x00\" * Auth.SALT_LENGTH\n")],
    "every hash uses the same salt"),
 "c20-dispatch-copies-message": ("C20", "mpgameserver/dispatch.py", [(
    "        self.registered_events[T.__name__](client, seqnum, msg)\n",
    "        self.registered_events[T.__name__](client, int(seqnum), msg)\n")],
    "the server dispatcher does not pass its arguments through unchanged (seqnum object replaced)"),
 "c18-close-frame-not-delivered": ("C18", "mpgameserver/http_server.py", [(
    "            if frame.flags.opcode == WebSocketOpCode.Text:\n                frame.payload = frame.payload.decode(\"utf-8\")\n",
    "            if frame.flags.opcode == WebSocketOpCode.Pong:\n                continue\n\n            if frame.flags.opcode == WebSocketOpCode.Text:\n                frame.payload = frame.payload.decode(\"utf-8\")\n")],
    "Pong frames are swallowed instead of being delivered to the endpoint"),
 "c15-set-comes-back-as-list": ("C15", "mpgameserver/serializable.py", [(
    "                        setattr(inst, field, set(lst))\n", "                        setattr(inst, field, lst)\n")],
    "Set[T] fields come back as lists"),
 "c02-unpinned-path-for-pinned-client": ("C02", "mpgameserver/connection.py", [(
    "        if kwargs['server_public_key'] is None:\n            key = self.server_root_pubkey\n",
    "        if kwargs['server_public_key'] is None or True:\n            key = self.server_root_pubkey\n")],
    "the client verifies the hello with the key embedded in the hello instead of the pinned key"),
 "c01-aad-without-ack-bits": ("C01", "mpgameserver/crypto.py", [(
    "    return AESGCM(key).encrypt(iv, data, aad)\n", "    return AESGCM(key).encrypt(iv, data, aad[:16])\n"),
    ("    return AESGCM(key).decrypt(iv, data, aad)\n", "    return AESGCM(key).decrypt(iv, data, aad[:16])\n")],
    "the ack bitmap is not authenticated: rewritten ack bits are accepted"),
}


def main():
    if os.path.isdir(OUT):
        shutil.rmtree(OUT)
    os.makedirs(OUT)
    scratch = tempfile.mkdtemp(prefix="mpgs_self_", dir="/var/tmp")
    os.rmdir(scratch)
    subprocess.check_call(["git", "-C", "/repo", "worktree", "add", "-q", "--detach", scratch, "HEAD"])
    try:
        for name, (prop, path, edits, expect) in sorted(M.items()):
            full = os.path.join(scratch, path)
            data = open(full, "rb").read()
            ok = True
            for old, new in edits:
                o, n = old.encode().replace(b"\n", b"\r\n"), new.encode().replace(b"\n", b"\r\n")
                if data.count(o) != 1:
                    print("SKIP %s: pattern occurs %d times" % (name, data.count(o)))
                    ok = False
                    break
                data = data.replace(o, n)
            if not ok:
                continue
            open(full, "wb").write(data)
            r = subprocess.run([sys.executable, "-c", "import sys; sys.path.insert(0, %r); import mpgameserver" % scratch], capture_output=True)
            patch = subprocess.check_output(["git", "-C", scratch, "diff"])
            subprocess.check_call(["git", "-C", scratch, "checkout", "-q", "--", "."])
            d = os.path.join(OUT, name)
            os.makedirs(d)
            open(os.path.join(d, "patch.diff"), "wb").write(patch)
            json.dump({"property": prop, "summary": expect, "origin": "own self-test mutant (monitor liveness), tools/make_selftest.py",
                       "files_changed": [path], "imports": r.returncode == 0}, open(os.path.join(d, "meta.json"), "w"), indent=1)
            print("made", name)
    finally:
        subprocess.call(["git", "-C", "/repo", "worktree", "remove", "--force", scratch])
        shutil.rmtree(scratch, ignore_errors=True)


if __name__ == "__main__":
    main()
