import json, glob, os, re

def prev(pid):
    out = []
    for d in sorted(glob.glob('/verif/seeded/*/meta.json') + glob.glob('/verif/selftest/*/meta.json')):
        m = json.load(open(d))
        if m.get('property') == pid and 'revert' not in d:
            out.append("- " + m.get('summary', '')[:180].replace("\n", " "))
    return "\n".join(out)

NET = ("Also covered by now (rounds 11-12): thousands of forged datagrams against one connection; root keys on other curves than P-256; key agreement / cipher calls that raise; "
       "keep-alive intervals of 0; a direction stalled for seconds and released at once (hundreds of authentic datagrams in one tick); the library's TRACE/DEBUG log levels switched on; "
       "256+ empty messages in one frame; disconnect() right before a resend is due; send backlogs above 32767 messages; thousands of junk datagrams inside one tick; real OS sockets "
       "with closed ports (ICMP errors). Look for something ELSE again, e.g.: interactions of TWO features that each work alone (fragmentation + second session + MTU change; "
       "keep-alive settings + retry modes; block list + reconnect); the exact tick in which a timeout, an ack and a resend coincide; off-by-one at 32/33 datagrams or 255/256/257 messages "
       "behind; a sequence number equal to exactly half the ring away; rarely-read fields (stats, latency, ConnectionStats, Packet.__repr__, ctime) feeding a decision; a payload whose "
       "BYTES look like protocol structures (a fragment header, a packet header, the magic, a serialized hello); the server's non-Twisted send/receive path (UdpServerThread.send, "
       "UdpServer if present); behaviour after EventHandler.starting/shutdown; ServerContext options nobody sets (access log, connection/temp timeouts of extreme values, "
       "setInterval); three or more clients whose events interleave in one tick; a client that reconnects with the SAME address within the same tick in which it was dropped.")

COMP = ("Also covered by now (round 12): classes that deserialize in place; float32 collisions in sets and keys; extreme handshake field values and illegal enum values; logging "
        "configured at DEBUG/TRACE; float- and tuple-valued enums; requests through the real HTTP channel with query strings and fragments; long-lived routers with skewed traffic; "
        "symlinks inside real roots; thousands of frames in one read and an unmasked frame in mid-stream; concurrent Auth calls from threads; unregistered messages whose repr raises; "
        "resources that gain handlers after registration. Look for something ELSE again, e.g.: TWO features combined that each work alone; state that survives an exception raised "
        "half-way; the third or tenth use of an object rather than the second; inputs that are equal under == but differ in type (1 / 1.0 / True, b'' / '', () / []); ordering "
        "(dict insertion order, set iteration order, field declaration order vs alphabetical order) that must or must not be preserved; lengths and counts of exactly 2**7, 2**8, 2**15, "
        "2**16, 2**31; locale / default-encoding / recursion-limit / hash-seed dependence; the library's own convenience wrappers around the core function (they may bypass a check); "
        "arguments passed by keyword vs by position; subclasses overriding one hook; objects that are falsy, unhashable, or compare equal to everything.")

for n in range(1, 21):
    pid = "C%02d" % n
    low = pid.lower()
    if n <= 12:
        src = '/var/tmp/recov/agent11_%s.txt' % low; old = 'wt11_'; extra = NET
    else:
        src = '/var/tmp/recov/agent12_%s.txt' % low; old = 'wt12_'; extra = COMP
    txt = open(src).read().replace(old, 'wt13_')
    a = txt.index("IMPORTANT - other people"); b = txt.index("Think about what an automated checker")
    txt = (txt[:a] + "IMPORTANT - other people already produced the following mutants for this property; yours must be clearly DIFFERENT from all of them "
           "(different code site AND different mechanism):\n" + prev(pid) + "\n\n" + txt[b:])
    a = txt.index("The machine is heavily loaded")
    txt = txt[:a] + extra + "\n\n" + txt[a:]
    txt = txt.replace("Aim to finish within 25 minutes.", "Aim to finish within 20 minutes.")
    open('/tmp/agent13_%s.txt' % low, 'w').write(txt)
    wt = '/tmp/wt13_%s' % low
    if not os.path.exists(wt):
        os.system("git -C /repo worktree add -q --detach %s HEAD" % wt)
    print(pid, len(txt), txt.count('wt13_'))
