import json, glob, os
def prev(pid):
    out = []
    for d in sorted(glob.glob('/verif/seeded/*/meta.json') + glob.glob('/verif/selftest/*/meta.json')):
        m = json.load(open(d))
        if m.get('property') == pid and 'revert' not in d:
            out.append("- " + m.get('summary', '')[:170].replace("\n", " "))
    return "\n".join(out)
EXTRA = ("Also covered by now (round 13): hellos re-wrapped or extended with appended packets; challenge tokens modulo 2**32; clocks that advance inside one handshake; "
         "re-queued hellos over slow handshakes; duplicates that trigger an emission; lost datagrams followed by 33+ delivered ones; integer vs enum retry arguments; re-sent fragments "
         "after completion; cached wire forms of messages near the datagram capacity; callbacks of unretried sends sharing a datagram with retried ones; messages riding with the "
         "challenge response; message windows a few bits short; byte-identical copies from foreign addresses; int vs SeqNum keys in the retry registry; hello padding vs MTU; wrong-token "
         "challenge responses from key-holding peers; deferred removal of closed connections at tick rates above 60 Hz; one raising datagram aborting a tick's batch; reassembly state "
         "shared between clients; keep-alives suppressed with a full ack window; message timeouts shorter than the round trip. Look for something ELSE again.")
for n in range(1, 13):
    pid = "C%02d" % n; low = pid.lower()
    txt = open('/tmp/agent13_%s.txt' % low).read().replace('wt13_', 'wt14_')
    a = txt.index("IMPORTANT - other people"); b = txt.index("Think about what an automated checker")
    txt = (txt[:a] + "IMPORTANT - other people already produced the following mutants for this property; yours must be clearly DIFFERENT from all of them "
           "(different code site AND different mechanism):\n" + prev(pid) + "\n\n" + txt[b:])
    a = txt.index("The machine is heavily loaded")
    txt = txt[:a] + EXTRA + "\n\n" + txt[a:]
    txt = txt.replace("Aim to finish within 20 minutes.", "Aim to finish within 15 minutes.").replace("aim to finish within about 20 minutes", "you MUST finish within 18 minutes (if the second mutant is not ready by then, deliver one)")
    open('/tmp/agent14_%s.txt' % low, 'w').write(txt)
    wt = '/tmp/wt14_%s' % low
    if not os.path.exists(wt):
        os.system("git -C /repo worktree add -q --detach %s HEAD" % wt)
    print(pid, len(txt))
