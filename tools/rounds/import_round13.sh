#!/bin/bash
# usage: import_round13.sh c01 c02 ...   (imports _seed/1 and _seed/2 of each finished agent worktree, then removes the worktree)
cd /verif
for p in "$@"; do
  for i in 1 2; do
    if [ -d /tmp/wt13_$p/_seed/$i ] && [ ! -d /verif/seeded/agent13-$p-$i ]; then
      echo "== agent13-$p-$i"
      timeout 1500 /venv/bin/python tools/import_seed.py /tmp/wt13_$p $i agent13-$p-$i 2>&1 | grep -E "KEPT|NOT KEPT|missing|demo_clean_exit|demo_patched_exit|tests_tail|patch_applies" | tr '\n' ' '
      echo
    fi
  done
  mkdir -p /var/tmp/recov/seeds13/$p && cp -r /tmp/wt13_$p/_seed /var/tmp/recov/seeds13/$p/ 2>/dev/null
  git -C /repo worktree remove --force /tmp/wt13_$p 2>/dev/null
done
git -C /repo worktree prune
