#!/bin/bash
# Runs the repository's own test suite with the class-wide monitors installed (pytest plugin mon.pytest_monitors).
# The result (counters, violations) is written to /verif/.work/tests_under_monitors.json and printed.
HERE="$(cd "$(dirname "${BASH_SOURCE[0]}")/.." && pwd)"
REPO="${VERIF_REPO:-/repo}"
[ -d "$HERE/.deps/jsonschema" ] || bash "$HERE/setup.sh" >/dev/null
cd "$REPO" && flock /tmp/mpgs_test.lock env VERIF_HOME="$HERE" PYTHONDONTWRITEBYTECODE=1 PYTHONPATH="$REPO:$HERE:$HERE/.deps" \
    /venv/bin/python -B -m pytest -q -p no:cacheprovider -p mon.pytest_monitors --timeout=900 2>&1 | tail -3
cat "$HERE/.work/tests_under_monitors.json"
