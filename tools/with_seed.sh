#!/bin/bash
# usage: tools/with_seed.sh <seeded-id> <command...>   -- runs the command with VERIF_REPO pointing at a scratch worktree of /repo
# HEAD with seeded/<id>/patch.diff applied; evidence/replays go to .work; the worktree is removed afterwards
set -u
id=$1; shift
here=$(cd "$(dirname "$0")/.." && pwd)
d=$(mktemp -u -d /var/tmp/mpgs_ws_XXXXXX)
git -C /repo worktree add -q --detach "$d" HEAD || exit 3
trap 'git -C /repo worktree remove --force "$d" >/dev/null 2>&1; rm -rf "$d"' EXIT
dir=seeded; [ -d "$here/selftest/$id" ] && dir=selftest
git -C "$d" apply "$here/$dir/$id/patch.diff" || exit 3
VERIF_REPO=$d VERIF_EVIDENCE_DIR=$here/.work/seeded-evidence VERIF_REPLAY_DIR=$here/.work/seeded-replays "$@"
